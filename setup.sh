#!/bin/sh
# Toolchain self-check + oracle self-test; builds nothing persistent (every check compiles what it needs from /repo's working tree).
set -e
cd "$(dirname "$0")"
for t in gcc clang /usr/bin/python3; do command -v $t >/dev/null || { echo "missing $t"; exit 1; }; done
test -f /usr/include/utf8proc.h || { echo "missing libutf8proc headers"; exit 1; }
/usr/bin/python3 spec/spec.py selftest golden
chmod +x check tools/*.py mutants/run.py 2>/dev/null || true
echo "setup ok"
