/* drv_c12 — password encryption is an involution that always leaves a valid seed (DESIGN 3/C12) */
#include "pv.h"

static char* g_out;
static const uint8_t SALT[16] = { 'P','O','L','Y','S','E','E','D',' ','m','a','s','k', 0, 0xff, 0xff };

static void init(void) {
    pv_world_init(pv.seed);
    pv_model_init();
    pv_inject_default();
    pv_model_bind_library();
    /* no enabling call here: the first section observes the process before any polyseed_enable_features call (the encrypted bit
     * is supported by default); every later section starts by enabling all user features */
    g_out = malloc(POLYSEED_STR_SIZE);
    pv_info("rule", "seeds x passwords (empty, ASCII, accented NFC/NFD, Hangul, kana, fullwidth, compatibility ligatures, random Unicode, long) x KDF masks (all-00, all-FF, only the two "
                    "dropped bits, only byte 18, single bits, random; or the argument-mixing stand-in) x 1..5 applications: after every application the PBKDF2 monitor must have seen "
                    "(NFKD(password), its length, 'POLYSEED mask' 00 FF FF, 16, 10000, 32-byte key), the seed must equal the model (secret XOR first 19 mask bytes with the top two bits of the "
                    "19th dropped, encrypted flag toggled, rest unchanged, check value recomputed) through every observer, and must survive store/load and encode/decode; equal passwords "
                    "applied twice restore the seed bit for bit. non-trivial = an application whose result equalled the model; distinct = distinct (seed, password, mask)");
}

static const uint8_t* g_cur_secret; static const char* g_cur_pw;
static void boundary_mask(pv_rng* r, uint8_t mk[32]) {
    uint32_t k = pv_randn(r, 13);
    memset(mk, 0, 32);
    switch (k) {
    case 0: break;
    case 1: memset(mk, 0xff, 32); break;
    case 2: mk[18] = 0xc0; break;
    case 3: mk[18] = 0xff; break;
    case 4: mk[pv_randn(r, 19)] = (uint8_t)(1u << pv_randn(r, 8)); break;
    case 5: mk[18] = (uint8_t)(0x40u << pv_randn(r, 2)); break;
    case 6: memset(mk + 19, 0xff, 13); break;                 /* only bytes that must be ignored */
    /* KDF outputs that echo one of the inputs: any 32 bytes are a legitimate mask, including these */
    case 9: pv_randbytes(r, mk, 32); memcpy(mk, SALT, 16); break;                                         /* starts with the salt */
    case 10: pv_randbytes(r, mk, 32); if (g_cur_secret) memcpy(mk, g_cur_secret, 19); break;              /* equals the secret: the result is the all-zero secret */
    case 11: pv_randbytes(r, mk, 32); if (g_cur_pw) { size_t n = strlen(g_cur_pw); memcpy(mk, g_cur_pw, n < 32 ? n : 32); } break;
    case 12: for (int i = 0; i < 32; ++i) mk[i] = SALT[i % 16]; break;
    default: pv_randbytes(r, mk, 32); break;
    }
}

/* verify the library seed against the model through every observer + round trips */
static bool verify(polyseed_data* s, const pv_mseed* m, pv_rng* rng, const char* when) {
    unsigned coin = pv_gen_coin(rng);
    const char* mm = pv_seed_mismatch(s, m, coin);
    if (mm) {
        uint8_t img[32], mi[32]; pv_api_store(s, img); pv_m_image(m, mi);
        const char* key = "C12/result-differs-from-model";
        if (memcmp(img, mi, 30) == 0 && memcmp(img + 30, mi + 30, 2)) key = "C12/stale-check-value";
        else if ((img[28] & 0xc0) != 0) key = "C12/secret-exceeds-150-bits";
        else if (img[8] != mi[8] || img[9] != mi[9]) key = "C12/features-or-birthday-changed";
        pv_violation(key, "[%s] %s (model seed %s)", when, mm, pv_mseed_str(m));
        return false;
    }
    /* store -> load */
    uint8_t* img = malloc(32); pv_api_store(s, img);
    polyseed_data* t = NULL; int st = pv_api_load(img, &t);
    PV_COUNT("evaluations", 1);
    bool ok = true;
    if (st != POLYSEED_OK) { ok = false; pv_violation("C12/encrypted-seed-does-not-load", "[%s] store -> load gives %s; image %s", when, pv_status_name(st), pv_hex(img, 32)); }
    else pv_api_free(t);
    free(img);
    /* encode -> decode in a rotating language */
    pv_mlang* L; do { L = &pv_langs[pv_randn(rng, (uint32_t)pv_nlangs)]; } while (!L->lib);
    pv_api_encode(s, L->lib, coin, g_out);
    char* in = pv_exact_str(g_out); t = NULL;
    st = pv_api_decode_explicit(in, coin, L->lib, &t);
    PV_COUNT("evaluations", 1);
    if (st != POLYSEED_OK) { ok = false; pv_violation("C12/encrypted-seed-does-not-decode", "[%s] %s: encode -> decode gives %s", when, L->name_en, pv_status_name(st)); }
    else { const char* m2 = pv_seed_mismatch(t, m, coin); if (m2) { ok = false; pv_violation("C12/encrypted-seed-decodes-differently", "[%s] %s: %s", when, L->name_en, m2); } pv_api_free(t); }
    free(in);
    return ok;
}

/* "each application toggles the encrypted flag" as application code observes it: the query is called by name, before and after
 * the operation, on a pointer held in a parameter, in optimised code.  (A header that declares the getters `const` or `pure` lets
 * the caller's compiler merge the two queries; the library is then right and every caller wrong.) */
static int crypt_and_watch(polyseed_data* p, const char* pw) {
    int before = polyseed_is_encrypted(p);
    pv_cur.in_ptr = pw; pv_cur.in_len = strlen(pw);
    pv_world_begin("polyseed_crypt"); polyseed_crypt(p, pw); pv_world_end();
    int after = polyseed_is_encrypted(p);
    return (before != 0) != (after != 0);
}

/* one application; returns false on KDF-argument mismatch.  The model is advanced with the mask the monitor returned. */
static pv_rng* g_rng;
static bool apply(polyseed_data* s, pv_mseed* m, const char* pw, const char* pwcls) {
    /* the password operation must not depend on which user features happen to be enabled right now: in a third of
     * the applications the process-wide mask is different while it runs (the seed keeps its feature bits) */
    bool other = g_rng && pv_randn(g_rng, 3) == 0;
    if (other) { polyseed_enable_features(pv_randn(g_rng, 7)); PV_COUNT("crypt.under_a_different_feature_mask", 1); }      /* raw calls: the per-call event log of crypt must survive */
    /* the operation has no way to report failure, so it must do its job whatever the allocator says: in a quarter of the
     * applications the next allocation request (if the operation makes any) is refused */
    bool armed = g_rng && pv_randn(g_rng, 4) == 0;
    if (armed) { pv_arm_some_request(); PV_COUNT("crypt.with_failing_allocator", 1); }
    bool toggled = crypt_and_watch(s, pw);
    if (armed) { if (pv_w->fail_countdown == 0) PV_COUNT("crypt.with_failing_allocator(request refused)", 1); pv_w->fail_countdown = 0; }
    if (!toggled) pv_violation("C12/flag-not-toggled", "[%s] polyseed_is_encrypted called directly before and after polyseed_crypt gives the same answer", pwcls); else PV_COUNT("crypt.flag_toggled_as_seen_by_direct_queries", 1);
    int nk_ev = pv_ev_count(PV_EV_KDF);
    if (other) polyseed_enable_features(7);
    (void)nk_ev;
    PV_COUNT("evaluations", 1); pv_countf(1, "crypt.password.%s", pwcls);
    bool ok = true;
    if (nk_ev != 1 || pv_w->nkdf != 1) { pv_violation("C12/kdf-call-count", "crypt invoked the KDF %d times", nk_ev); return false; }
    pv_kdfrec* r = &pv_w->kdf[0];
    char* nf = pv_nfkd_alloc(pw); size_t nl = strlen(nf);
    if (r->pwlen != nl) { ok = false; pv_violation(r->pwlen == nl + 1 ? "C12/password-length-includes-terminator" : "C12/password-length", "[%s] password '%s': KDF password length %zu, NFKD form has %zu bytes", pwcls, pv_esc(pw), r->pwlen, nl); }
    else if (memcmp(r->pw, nf, nl)) { ok = false; pv_violation("C12/password-not-nfkd", "[%s] password '%s': KDF received %s, NFKD form is %s", pwcls, pv_esc(pw), pv_hex(r->pw, nl), pv_hex(nf, nl)); }
    free(nf);
    if (r->saltlen != 16 || memcmp(r->salt, SALT, 16)) { ok = false; pv_violation("C12/salt", "salt (len %zu) %s", r->saltlen, pv_hex(r->salt, r->saltlen < 64 ? r->saltlen : 64)); }
    if (r->iters != 10000) { ok = false; pv_violation("C12/iterations", "%llu iterations", (unsigned long long)r->iters); }
    if (r->keylen != 32) { ok = false; pv_violation("C12/mask-length", "mask length %zu", r->keylen); }
    uint8_t mk[32] = { 0 }; memcpy(mk, r->key_written, r->keylen < 32 ? r->keylen : 32);
    pv_m_crypt(m, mk);
    return ok;
}

static bool g_enabled;
static void enable_all(void) { if (!g_enabled) { pv_api_enable_features(7); g_enabled = true; } }

/* ---------------------------------------------------------------- a process that never configures features (first section; each shard is a fresh process) */
static uint64_t n_default(void) { return 64; }
static void run_default(uint64_t idx, pv_rng* rng) {
    if (g_enabled) return;
    g_rng = NULL;
    pv_mseed m0; pv_gen_mseed(rng, 0, false, &m0);          /* no user features: nothing is enabled */
    polyseed_data* s = pv_seed_from_model(&m0);
    if (!s) { pv_violation("C12/load-failed", "no enabling call yet: %s", pv_mseed_str(&m0)); return; }
    pv_mseed m = m0; const char* cls; char* pw = pv_gen_password(rng, &cls);
    char* nf = pv_nfkd_alloc(pw); bool fits = strlen(nf) < POLYSEED_STR_SIZE; free(nf);
    pv_w->kdf_mode = 0;
    if (fits && apply(s, &m, pw, cls) && verify(s, &m, rng, "after 1 application, no enabling call in this process") && apply(s, &m, pw, cls)) {
        const char* mm = pv_seed_mismatch(s, &m0, 0);
        if (mm) pv_violation("C12/not-an-involution", "[no enabling call] %s", mm); else { PV_COUNT("default.cases_ok", 1); PV_DISTINCT("nontrivial", pv_mix(0xdef12, idx)); }
    }
    free(pw); pv_api_free(s);
}

static uint64_t n_crypt(void) { return pv_scaled(25000, 6000000); }
static void run_crypt(uint64_t idx, pv_rng* rng) {
    enable_all();
    g_rng = rng;
    g_cur_secret = NULL; g_cur_pw = NULL;
    pv_mseed m0; pv_gen_mseed(rng, 7, true, &m0);
    polyseed_data* s = pv_seed_from_model(&m0);
    if (!s) { pv_violation("C12/load-failed", "%s", pv_mseed_str(&m0)); return; }
    pv_mseed m = m0;
    const char* cls; char* pw = pv_gen_password(rng, &cls);
    g_cur_secret = m0.secret; g_cur_pw = pw;
    char* nfpw = pv_nfkd_alloc(pw);
    if (strlen(nfpw) >= POLYSEED_STR_SIZE) { free(nfpw); free(pw); pv_api_free(s); PV_COUNT("skipped.password_longer_than_buffer", 1); return; }
    free(nfpw);
    /* mask source for this case */
    uint32_t ms = pv_randn(rng, 3);
    if (ms == 0) pv_w->kdf_mode = 0;
    else { pv_w->kdf_mode = 1; if (ms == 1) boundary_mask(rng, pv_w->kdf_mask); else pv_randbytes(rng, pv_w->kdf_mask, 32); }
    pv_countf(1, "crypt.mask_source.%s", ms == 0 ? "argument-mix" : ms == 1 ? "boundary" : "random");
    uint8_t mask_used[32]; memcpy(mask_used, pv_w->kdf_mask, 32);
    int napp = 1 + (int)pv_randn(rng, 5);
    bool ok = true;
    /* (1) same password twice: bit-for-bit restoration.  Once the KDF arguments are wrong the model (which follows the
     * mask the monitor handed out) is no longer meaningful for this case: the violation is recorded and the case ends. */
    ok &= apply(s, &m, pw, cls);
    if (!ok) goto done;
    ok &= verify(s, &m, rng, "after 1 application");
    if (((m.features ^ m0.features) & 16) == 0) pv_fatal("C12: model flag did not toggle");
    ok &= apply(s, &m, pw, cls);
    if (!ok) goto done;
    if (!pv_mseed_eq(&m, &m0)) pv_fatal("C12: model crypt is not an involution");
    { const char* mm = pv_seed_mismatch(s, &m0, 0); if (mm) { ok = false; pv_violation("C12/not-an-involution", "[%s] password '%s' applied twice does not restore the seed: %s", cls, pv_esc(pw), mm); } else PV_COUNT("involution.restored", 1); }
    /* (2) further applications with equal and different passwords, verifying after each */
    for (int a = 0; a < napp; ++a) {
        const char* c2 = cls; char* p2 = NULL; const char* use = pw;
        if (pv_randn(rng, 2)) { p2 = pv_gen_password(rng, &c2); char* n2 = pv_nfkd_alloc(p2); bool fits = strlen(n2) < POLYSEED_STR_SIZE; free(n2); if (fits) use = p2; else c2 = cls; }
        if (ms != 0 && pv_randn(rng, 2)) { if (pv_randn(rng, 2)) boundary_mask(rng, pv_w->kdf_mask); else pv_randbytes(rng, pv_w->kdf_mask, 32); }
        ok &= apply(s, &m, use, c2);
        if (ok) ok &= verify(s, &m, rng, "after repeated application");
        free(p2);
        if (!ok) break;
    }
done:
    if (ok) { PV_DISTINCT("nontrivial", pv_mix(pv_mix(pv_mseed_hash(&m0), pv_hash_str(pw)), pv_hash(mask_used, 32, ms))); PV_COUNT("cases.all_clauses_held", 1); }
    if (idx < 8) pv_sample("crypt", "[%s] seed %s password '%s' mask %s: %d+2 applications", cls, pv_mseed_str(&m0), pv_esc(pw), ms ? pv_hex(mask_used, 32) : "(argument mix)", napp);
    pv_w->kdf_mode = 0;
    free(pw); pv_api_free(s);
}

/* passwords whose decomposed form just fits the buffer (size-8 ... size-1 bytes), ending in characters of every UTF-8 width: the
 * KDF must still receive exactly NFKD(password), to the last byte */
static uint64_t n_longpw(void) { return pv_scaled(1200, 100000); }
static void run_longpw(uint64_t idx, pv_rng* rng) {
    enable_all(); g_rng = rng;
    static const char* const TAILCH[] = { "\xc3\xa9", "\xc3\xb1", "\xc2\xb5", "\xce\xa9", "\xe3\x81\xb1", "\xea\xb0\x80", "\xef\xbc\xa1", "\xf0\x9f\x98\x80", "\xe2\x84\xab", "\xef\xac\x81", "e\xcc\x81", "z" };
    char tail[96]; size_t tl = 0; int nt = 1 + (int)pv_randn(rng, 4);
    for (int i = 0; i < nt; ++i) { const char* c = TAILCH[pv_randn(rng, sizeof TAILCH / sizeof *TAILCH)]; size_t l = strlen(c); memcpy(tail + tl, c, l); tl += l; }
    tail[tl] = 0;
    char* nft = pv_nfkd_alloc(tail); size_t tn = strlen(nft); free(nft);
    long target = (long)POLYSEED_STR_SIZE - 1 - (long)(idx % 8);           /* size-8 .. size-1: everything that still fits */
    long front = target - (long)tn; if (front < 1) return;
    /* two passwords in three are much longer than the buffer as typed and only fit once decomposed: fullwidth letters (three bytes
     * each, one byte after NFKD) or mathematical bold letters (four bytes each, the largest ratio UTF-8 allows): the size limit is
     * about the normalised form, not about what the user typed */
    unsigned wide = (unsigned)((idx / 8) % 3); size_t per = wide == 0 ? 3 : wide == 1 ? 4 : 1;
    char* pw = pv_xmalloc((size_t)front * per + tl + 1);
    for (long i = 0; i < front; ++i) {
        int k = (int)((i * 5 + (long)idx) % 26);
        if (wide == 0) { pw[3 * i] = (char)0xEF; pw[3 * i + 1] = (char)0xBD; pw[3 * i + 2] = (char)(0x81 + k); }
        else if (wide == 1) { pw[4 * i] = (char)0xF0; pw[4 * i + 1] = (char)0x9D; pw[4 * i + 2] = (char)0x90; pw[4 * i + 3] = (char)(0x9A + k); }
        else pw[i] = (char)('a' + k);
    }
    memcpy(pw + (size_t)front * per, tail, tl + 1);
    if (wide < 2) pv_countf(1, "longpw.typed_%zu_times_longer_than_it_normalises", per);
    char* nf = pv_nfkd_alloc(pw); size_t nl = strlen(nf); free(nf);
    if (nl >= POLYSEED_STR_SIZE) { free(pw); return; }
    pv_countf(1, "longpw.nfkd_length.size-%ld", (long)POLYSEED_STR_SIZE - (long)nl);
    pv_mseed m0; pv_gen_mseed(rng, 7, true, &m0);
    polyseed_data* s = pv_seed_from_model(&m0);
    if (s) {
        pv_mseed m = m0; pv_w->kdf_mode = 0;
        if (apply(s, &m, pw, "long-boundary") && verify(s, &m, rng, "after a buffer-filling password")) { PV_COUNT("longpw.ok", 1); PV_DISTINCT("nontrivial", pv_mix(pv_hash_str(pw), idx)); }
        pv_api_free(s);
    }
    free(pw);
}

/* canonically equivalent spellings give the same result */
static uint64_t n_equiv(void) { return pv_scaled(6000, 1500000); }
static void run_equiv(uint64_t idx, pv_rng* rng) {
    enable_all();
    pv_mseed m; pv_gen_mseed(rng, 7, true, &m);
    const char* cls; char* pw = pv_gen_password(rng, &cls);
    char* a = pv_nfc_alloc(pw); char* b = pv_nfkd_alloc(pw);
    if (strlen(b) >= POLYSEED_STR_SIZE) { free(a); free(b); free(pw); return; }
    /* the three spellings must really be canonically equivalent.  They are produced by libutf8proc, and its NFC is not always: 2.8 drops
     * U+11A7 after a Hangul LV syllable (NFC(U+CAA0 U+11A7) = U+CAA0; Python's unicodedata keeps it), so NFKD(NFC(x)) != NFKD(x) for such
     * strings.  Such a case says nothing about polyseed and is skipped (found by the thorough tier: 2 of 1.5 million random passwords). */
    { char* na = pv_nfkd_alloc(a); char* nb = pv_nfkd_alloc(b); bool same = !strcmp(na, b) && !strcmp(nb, b); free(na); free(nb);
      if (!same) { PV_COUNT("equivalent_spellings.skipped(the normaliser's NFC form is not equivalent)", 1); free(a); free(b); free(pw); return; } }
    pv_w->kdf_mode = 0;
    uint8_t ia[32], ib[32], ic[32];
    const char* forms[3] = { a, b, pw }; uint8_t* outs[3] = { ia, ib, ic };
    for (int k = 0; k < 3; ++k) {
        polyseed_data* s = pv_seed_from_model(&m);
        if (!s) break;
        char* in = pv_exact_str(forms[k]);
        if ((idx + (uint64_t)k) % 3 == 0) pv_arm_some_request();          /* a refused allocation must not make the spelling matter */
        pv_api_crypt(s, in); PV_COUNT("evaluations", 1);
        pv_w->fail_countdown = 0;
        uint8_t* o = malloc(32); pv_api_store(s, o); memcpy(outs[k], o, 32); free(o);
        free(in); pv_api_free(s);
    }
    if (memcmp(ia, ib, 32) || memcmp(ia, ic, 32)) pv_violation("C12/spelling-dependent", "[%s] password '%s': NFC form gives %s, NFD form %s, as typed %s", cls, pv_esc(pw), pv_hex(ia, 32), pv_hex(ib, 32), pv_hex(ic, 32));
    else { PV_COUNT("equivalent_spellings.agree", 1); if (strcmp(a, b)) { PV_COUNT("equivalent_spellings.agree(forms really differ)", 1); PV_DISTINCT("nontrivial", pv_mix(pv_hash_str(pw), pv_mseed_hash(&m))); } }
    free(a); free(b); free(pw);
}

/* ---------------------------------------------------------------- the operation while other threads encrypt their own seeds */
static bool conc_iter(pv_rng* r, int iter, void* user, char* err, size_t errsz) {
    (void)iter; (void)user;
    pv_mseed m0; pv_gen_mseed(r, 7, true, &m0);
    polyseed_data* s = pv_seed_from_model(&m0);
    if (!s) { snprintf(err, errsz, "cannot load %s", pv_mseed_str(&m0)); return false; }
    const char* cls; char* pw = pv_gen_password(r, &cls);
    char* nf = pv_nfkd_alloc(pw); size_t nl = strlen(nf);
    bool ok = true;
    if (nl < POLYSEED_STR_SIZE) {
        pv_mseed m = m0;
        for (int k = 0; k < 2 && ok; ++k) {
            pv_api_crypt(s, pw);
            if (pv_w->nkdf != 1) { ok = false; snprintf(err, errsz, "crypt invoked the KDF %d times", pv_w->nkdf); break; }
            pv_kdfrec* q = &pv_w->kdf[0];
            if (q->pwlen != nl || memcmp(q->pw, nf, nl < sizeof q->pw ? nl : sizeof q->pw)) { ok = false; snprintf(err, errsz, "[%s] KDF password (len %zu) is not NFKD(password) (len %zu)", cls, q->pwlen, nl); break; }
            if (q->saltlen != 16 || memcmp(q->salt, SALT, 16) || q->iters != 10000 || q->keylen != 32) { ok = false; snprintf(err, errsz, "KDF salt/iterations/length differ"); break; }
            uint8_t mk[32]; memcpy(mk, q->key_written, 32); pv_m_crypt(&m, mk);
            const char* mm = pv_seed_mismatch(s, &m, 0); if (mm) { ok = false; snprintf(err, errsz, "[%s] after %d application(s): %s", cls, k + 1, mm); }
        }
        if (ok && !pv_mseed_eq(&m, &m0)) { ok = false; snprintf(err, errsz, "model crypt is not an involution (harness)"); }
    }
    free(nf); free(pw); pv_api_free(s);
    return ok;
}
static uint64_t n_conc(void) { return pv_scaled(3, 100); }
static void run_conc(uint64_t idx, pv_rng* rng) {
    (void)idx; pv_w->kdf_mode = 0; enable_all();
    enum { NT = 8, IT = 2000 }; static pv_conc_result res[NT];
    uint64_t seed = pv_rand64(rng);
    pv_concurrent(NT, IT, seed, 35, conc_iter, NULL, res);
    if (pv_concurrent_verdict(res, NT, IT, "C12/differs-under-concurrency", "concurrent.applications_equal_model")) PV_DISTINCT("nontrivial", seed);
}

int main(int argc, char** argv) {
    static const pv_section secs[] = { { "default", n_default, run_default }, { "crypt", n_crypt, run_crypt }, { "equivalent", n_equiv, run_equiv }, { "longpw", n_longpw, run_longpw }, { "concurrent", n_conc, run_conc } };
    return pv_main(argc, argv, "C12", secs, (int)(sizeof secs / sizeof *secs), init, NULL);
}
