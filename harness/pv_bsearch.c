/* pv_bsearch.c — link-time interposition (-Wl,--wrap=bsearch) of the one libc algorithm the library's results depend on.
 * The C standard leaves open which elements bsearch() probes and, if several compare equal to the key, which of them it returns.
 * glibc, musl, the BSDs, newlib and MSVCRT differ in both.  While a library call is in progress every call is served by one of
 * five conforming strategies in rotation; the properties (C07, C08: "recognised as its own index and no other") must hold under
 * each, i.e. the library's answers must not depend on the C library it happens to be linked with. */
#include "pv.h"
void* __real_bsearch(const void*, const void*, size_t, size_t, int (*)(const void*, const void*));
uint64_t pv_bsearch_calls[5];
static __thread uint64_t t_rot, t_rng = 0x9e3779b97f4a7c15ull;
void* __wrap_bsearch(const void* key, const void* base, size_t n, size_t sz, int (*cmp)(const void*, const void*)) {
    if (!pv_in_lib) return __real_bsearch(key, base, n, sz, cmp);
    unsigned mode = (unsigned)(t_rot++ % 5);
    __atomic_fetch_add(&pv_bsearch_calls[mode], 1, __ATOMIC_RELAXED);
    const char* b = base;
    switch (mode) {
    case 0: return __real_bsearch(key, base, n, sz, cmp);
    case 1: case 2: {          /* upper-middle pivot / pseudo-random pivot */
        size_t lo = 0, hi = n;
        while (lo < hi) {
            size_t span = hi - lo, mid;
            if (mode == 1) mid = lo + span / 2 - (span % 2 == 0 && span > 1 ? 0 : 0) + ((span > 1 && span % 2 == 0) ? 0 : 0);
            else { t_rng ^= t_rng << 13; t_rng ^= t_rng >> 7; t_rng ^= t_rng << 17; mid = lo + (size_t)(t_rng % span); }
            if (mode == 1 && span > 1) mid = lo + (span - 1) / 2 + ((span - 1) % 2);      /* ceil((lo+hi-1)/2): the other middle of an even span */
            int c = cmp(key, b + mid * sz);
            if (c == 0) return (void*)(b + mid * sz);
            if (c < 0) hi = mid; else lo = mid + 1;
        }
        return NULL; }
    case 3:                    /* the first element that compares equal (what a search for the lower bound returns) */
        for (size_t i = 0; i < n; ++i) if (cmp(key, b + i * sz) == 0) return (void*)(b + i * sz);
        return NULL;
    default:                   /* the last one */
        for (size_t i = n; i-- > 0;) if (cmp(key, b + i * sz) == 0) return (void*)(b + i * sz);
        return NULL;
    }
}
