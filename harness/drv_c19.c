/* drv_c19 — results do not depend on whether plain char is signed (DESIGN 3/C19)
 * The same deterministic operation script is executed against a library built with -fsigned-char and one built
 * with -funsigned-char; every case leaves a transcript digest (statuses, phrases, images, language names, KDF
 * arguments) which the orchestrator diffs across the two builds.  Where the model is authoritative the
 * transcript is also compared with the model inside each build. */
#include "pv.h"

static uint64_t T;
static char g_key[160];
static const char* key(const char* what) { snprintf(g_key, sizeof g_key, "C19/%s/%s", pv.tag ? pv.tag : "build", what); return g_key; }
static void t_u(const char* what, uint64_t v) { T = pv_mix(T, v ^ pv_hash_str(what)); pv_tlog("%s=%llu", what, (unsigned long long)v); }
static void t_b(const char* what, const void* p, size_t n) { T = pv_mix(T, pv_hash(p, n, pv_hash_str(what))); pv_tlog("%s=%s", what, pv_hex(p, n > 64 ? 64 : n)); }
static void t_s(const char* what, const char* s) { T = pv_mix(T, pv_hash(s, strlen(s), pv_hash_str(what))); pv_tlog("%s='%s'", what, pv_esc(s)); }

static char* g_out; static uint8_t* g_img;

static void t_seed(const polyseed_data* s, unsigned coin) {
    pv_obs o; pv_observe(s, coin, &o);
    t_b("image", o.image, 32); t_u("birthday", o.birthday); t_u("encrypted", (uint64_t)o.encrypted); t_u("feat7", o.feat[7]);
    t_b("kdf.pw", o.pw, 32); t_u("kdf.pwlen", o.pwlen); t_b("kdf.salt", o.salt, 32); t_u("kdf.saltlen", o.saltlen); t_u("kdf.iters", o.iters);
}

/* decode one string both ways, fold everything observable into the transcript; model comparison when md != NULL */
static void op_decode(const char* in, unsigned coin, pv_mlang* L, const pv_mseed* want, const char* cls) {
    char* s = pv_exact_str(in);
    polyseed_data* a = NULL; const polyseed_lang* lo = NULL;
    int st = pv_api_decode_explicit(s, coin, L->lib, &a);
    PV_COUNT("evaluations", 1); pv_countf(1, "ops.decode_explicit.%s", L->key);
    t_u("explicit.status", (uint64_t)st);
    if (st == POLYSEED_OK) t_seed(a, coin);
    if (want) {
        if (st != POLYSEED_OK) pv_violation(key("valid-phrase-rejected"), "[%s] %s: decode_explicit('%s') -> %s, the model accepts it", cls, L->name_en, pv_esc(in), pv_status_name(st));
        else { const char* mm = pv_seed_mismatch(a, want, coin); if (mm) pv_violation(key("decoded-seed-differs-from-model"), "[%s] %s: %s", cls, L->name_en, mm); else PV_DISTINCT("nontrivial", pv_mix(pv_hash_str(in), coin)); }
    }
    if (st == POLYSEED_OK) {
        /* re-encode in the same and in another language */
        size_t n = pv_api_encode(a, L->lib, coin, g_out); t_u("encode.len", n); t_s("encode.out", g_out);
        pv_mlang* M = &pv_langs[(pv_hash_str(in) >> 8) % (uint64_t)pv_nlangs];
        if (M->lib) { n = pv_api_encode(a, M->lib, coin, g_out); t_u("encode2.len", n); t_s("encode2.out", g_out); }
        pv_api_free(a);
    }
    a = NULL;
    st = pv_api_decode(s, coin, &lo, &a);
    PV_COUNT("evaluations", 1);
    t_u("auto.status", (uint64_t)st);
    if (st == POLYSEED_OK) { t_s("auto.lang", polyseed_get_lang_name_en(lo)); t_s("auto.lang.native", polyseed_get_lang_name(lo)); t_seed(a, coin); pv_api_free(a); }
    if (want && st != POLYSEED_OK && st != POLYSEED_ERR_MULT_LANG) pv_violation(key("valid-phrase-rejected"), "[%s] %s: decode('%s') -> %s", cls, L->name_en, pv_esc(in), pv_status_name(st));
    free(s);
}

static void init(void) {
    pv_world_init(pv.seed);
    pv_model_init();
    pv_inject_default();
    pv_model_bind_library();
    pv_api_enable_features(7);
    g_out = malloc(POLYSEED_STR_SIZE); g_img = malloc(32);
    pv_info("rule", "one deterministic script per case (phrases of every language in NFC, NFD, abbreviated, unaccented, ideographic-space and NBSP forms; non-ASCII "
                    "passwords; grammar strings) executed on a -fsigned-char and a -funsigned-char build of the library; per-case transcript digests are diffed across the builds and "
                    "compared with the model where it is authoritative. non-trivial = a permitted variant of a valid phrase that decoded to the model seed, or a password whose KDF "
                    "input equalled NFKD(password); distinct = distinct (input string, coin)");
}

/* ---------------------------------------------------------------- phrases and their permitted variants */
static uint64_t n_phrases(void) { return pv_scaled(3000, 600000); }
static void run_phrases(uint64_t idx, pv_rng* rng) {
    T = 0x19;
    pv_mlang* L = &pv_langs[idx % (uint64_t)pv_nlangs];
    if (!L->lib) return;
    pv_mseed m; pv_gen_mseed(rng, 7, true, &m);
    unsigned coin = pv_gen_coin(rng), d[16]; pv_m_coeffs(&m, coin, d);
    char raw[2048], buf[4096];
    /* (1) library-produced phrase */
    polyseed_data* s = pv_seed_from_model(&m);
    if (!s) { pv_violation(key("load-failed"), "cannot load %s", pv_mseed_str(&m)); return; }
    size_t n = pv_api_encode(s, L->lib, coin, g_out);
    t_u("enc.len", n); t_s("enc.out", g_out);
    char want[2048]; pv_m_encode(&m, L, coin, want, sizeof want);
    if (strcmp(want, g_out)) pv_violation(key("phrase-differs-from-model"), "%s: '%s' vs model '%s'", L->name_en, pv_esc(g_out), pv_esc(want));
    pv_api_free(s);
    /* (2) composed, decomposed with ASCII spaces, with the language separator, with NBSP */
    pv_m_join_space(L, d, raw, sizeof raw);
    char* nfc = pv_nfc_alloc(raw);
    op_decode(nfc, coin, L, &m, "nfc"); pv_countf(1, "forms.nfc.%s", L->key);
    op_decode(raw, coin, L, &m, "nfd"); pv_countf(1, "forms.nfd.%s", L->key);
    free(nfc);
    { size_t k = 0; for (int i = 0; i < 16; ++i) { size_t l = strlen(L->word[d[i]]); memcpy(buf + k, L->word[d[i]], l); k += l; if (i < 15) { memcpy(buf + k, "\xe3\x80\x80", 3); k += 3; } } buf[k] = 0;
      op_decode(buf, coin, L, &m, "ideographic-space"); PV_COUNT("forms.ideographic_space", 1); }
    { size_t k = 0; for (int i = 0; i < 16; ++i) { size_t l = strlen(L->word[d[i]]); memcpy(buf + k, L->word[d[i]], l); k += l; if (i < 15) { memcpy(buf + k, "\xc2\xa0", 2); k += 2; } } buf[k] = 0;
      op_decode(buf, coin, L, &m, "nbsp"); PV_COUNT("forms.nbsp", 1); }
    /* (3) abbreviated to four letters, (4) unaccented */
    if (L->prefix || L->accents) {
        size_t k = 0;
        for (int i = 0; i < 16; ++i) {
            uint32_t cp[128]; int nc = pv_utf8_decode(L->word[d[i]], cp, 128), letters = 0;
            bool abbreviate = L->prefix && (idx & 1), strip = L->accents && (idx & 2);
            for (int c = 0; c < nc; ++c) {
                bool acc = L->accents && pv_is_accent(cp[c]);
                if (!acc) { if (abbreviate && letters == 4) break; ++letters; }
                else if (strip) continue;
                k += (size_t)pv_utf8_encode(cp[c], buf + k);
            }
            if (i < 15) buf[k++] = ' ';
        }
        buf[k] = 0;
        char* in = (idx & 4) ? pv_nfc_alloc(buf) : pv_exact_str(buf);
        op_decode(in, coin, L, &m, "abbreviated/unaccented"); pv_countf(1, "forms.abbreviated_or_unaccented.%s", L->key);
        free(in);
    }
    /* (5) a wrong word / wrong coin: statuses only */
    { unsigned e[16]; memcpy(e, d, sizeof e); e[idx % 16] = (e[idx % 16] + 1) & 2047; pv_m_join_space(L, e, raw, sizeof raw); op_decode(raw, coin, L, NULL, "wrong-word"); }
    if (idx < 20) pv_sample("phrases", "%s coin %u: NFC/NFD/U+3000/NBSP/abbreviated forms of '%s'", L->name_en, coin, pv_esc(want));
    pv_transcript(T);
}

/* ---------------------------------------------------------------- every word of every list, typed in full (sorted search under both signednesses) */
static uint64_t n_allwords(void) { return (uint64_t)pv_nlangs * 64; }
static void run_allwords(uint64_t idx, pv_rng* rng) {
    T = 0x77;
    pv_mlang* L = &pv_langs[idx / 64]; unsigned blk = (unsigned)(idx % 64);
    if (!L->lib) return;
    for (unsigned i = blk * 32; i < (blk + 1) * 32; ++i) {
        unsigned coin = pv_gen_coin(rng), d[16]; pv_mseed m;
        int p = (int)(i % 16);
        if (!pv_gen_place(rng, p, i, coin, true, 7, d, &m)) { p = 15; pv_gen_place(rng, p, i, coin, true, 7, d, &m); }
        char raw[2048]; pv_m_join_space(L, d, raw, sizeof raw);
        char* in = (L->compose && (i & 1)) ? pv_nfc_alloc(raw) : pv_exact_str(raw);
        op_decode(in, coin, L, &m, "all-words");
        free(in);
        PV_COUNT("allwords.decoded", 1);
    }
    pv_transcript(T);
}

/* ---------------------------------------------------------------- bytes at the edges of the accent block, where sign extension of a char would matter */
static uint64_t n_edges(void) { return 2 * 128; }
static void run_edges(uint64_t idx, pv_rng* rng) {
    T = 0xed9e;
    pv_mlang* L = pv_lang_by_name(idx & 1 ? "French" : "Spanish");
    if (!L || !L->lib) return;
    static const uint32_t edge[] = { 0x2ff, 0x300, 0x33f, 0x340, 0x36f, 0x370, 0x374, 0x37f, 0x380, 0x3bf, 0x7f, 0x80, 0xbf, 0xc0, 0xff, 0x100 };
    for (unsigned w = (unsigned)(idx / 2) * 16; w < (unsigned)(idx / 2 + 1) * 16; ++w) {
        for (unsigned e = 0; e < sizeof edge / sizeof *edge; ++e) {
            unsigned coin = pv_gen_coin(rng), d[16]; pv_mseed m; int p = (int)((w + e) % 16);
            pv_gen_place(rng, p, w, coin, false, 7, d, &m);
            char phrase[2048]; size_t k = 0;
            for (int i = 0; i < 16; ++i) {
                const char* t = L->word[d[i]]; size_t l = strlen(t);
                if (i == p && (e & 1)) { /* after the fourth letter */ int letters = 0; size_t c = 0; uint32_t cps[64]; int nc = pv_utf8_decode(t, cps, 64);
                    for (int q = 0; q < nc; ++q) { if (!pv_is_accent(cps[q])) { if (letters == 4) { k += (size_t)pv_utf8_encode(edge[e], phrase + k); letters = 99; } ++letters; } k += (size_t)pv_utf8_encode(cps[q], phrase + k); } (void)c;
                    if (letters < 99) k += (size_t)pv_utf8_encode(edge[e], phrase + k); }
                else if (i == p && (e % 4) == 2) { k += (size_t)pv_utf8_encode(edge[e], phrase + k); memcpy(phrase + k, t, l); k += l; }      /* in front of the first letter */
                else { memcpy(phrase + k, t, l); k += l; if (i == p) k += (size_t)pv_utf8_encode(edge[e], phrase + k); }
                if (i < 15) phrase[k++] = ' ';
            }
            phrase[k] = 0;
            op_decode(phrase, coin, L, NULL, "accent-block-edge");
            PV_COUNT("edges.tokens", 1);
        }
    }
    pv_transcript(T);
}

/* ---------------------------------------------------------------- passwords */
static uint64_t n_passwords(void) { return pv_scaled(2000, 600000); }
static void run_passwords(uint64_t idx, pv_rng* rng) {
    T = 0x1919;
    pv_mseed m; pv_gen_mseed(rng, 7, true, &m);
    const char* cls; char* pw = pv_gen_password(rng, &cls);
    polyseed_data* s = pv_seed_from_model(&m);
    if (!s) { free(pw); return; }
    pv_api_crypt(s, pw);
    PV_COUNT("evaluations", 1); pv_countf(1, "ops.crypt.%s", cls);
    t_u("crypt.nkdf", (uint64_t)pv_w->nkdf);
    if (pv_w->nkdf == 1) {
        pv_kdfrec* r = &pv_w->kdf[0];
        t_u("crypt.pwlen", r->pwlen); t_b("crypt.pw", r->pw, r->pwlen < 1024 ? r->pwlen : 1024); t_b("crypt.salt", r->salt, r->saltlen < 64 ? r->saltlen : 64);
        char* nf = pv_nfkd_alloc(pw);
        if (strlen(nf) < POLYSEED_STR_SIZE) {
            if (r->pwlen != strlen(nf) || memcmp(r->pw, nf, r->pwlen)) pv_violation(key("password-not-normalised"), "[%s] password '%s': KDF received %s (len %zu), NFKD form is %s (len %zu)", cls, pv_esc(pw), pv_hex(r->pw, r->pwlen), r->pwlen, pv_hex(nf, strlen(nf)), strlen(nf));
            else PV_DISTINCT("nontrivial", pv_hash_str(pw));
        }
        free(nf);
    }
    t_seed(s, 0);
    pv_api_free(s);
    if (idx < 12) pv_sample("passwords", "[%s] '%s'", cls, pv_esc(pw));
    free(pw);
    pv_transcript(T);
}

/* ---------------------------------------------------------------- strings whose decomposed form ends exactly at / just beyond the buffer:
 * ASCII padding in front, multi-byte characters of every UTF-8 width at the end, so that the normaliser's output is exactly
 * size-1 bytes long or is cut by the dependency in the middle of a character at every possible offset */
static uint64_t n_boundary(void) { return pv_scaled(1500, 100000); }
static void run_boundary(uint64_t idx, pv_rng* rng) {
    T = 0x19191919;
    static const char* const TAILCH[] = { "\xc3\xa9", "\xc3\xb1", "\xc2\xb5", "\xc2\xbd", "\xce\xa9", "\xe3\x81\xb1", "\xea\xb0\x80", "\xed\x9e\xa3", "\xef\xbc\xa1", "\xf0\x9f\x98\x80", "\xe2\x84\xab", "\xcd\xb0", "\xcc\x81", "\xef\xac\x81" };
    char tail[128]; size_t tl = 0; int nt = 2 + (int)pv_randn(rng, 5);
    for (int i = 0; i < nt; ++i) { const char* c = TAILCH[pv_randn(rng, sizeof TAILCH / sizeof *TAILCH)]; size_t l = strlen(c); memcpy(tail + tl, c, l); tl += l; }
    tail[tl] = 0;
    char* nft = pv_nfkd_alloc(tail); size_t tn = strlen(nft); free(nft);
    long target = (long)POLYSEED_STR_SIZE - 1 + (long)(idx % 16) - 6;           /* size-7 .. size+8, the exact fit (size-1) included */
    long front = target - (long)tn; if (front < 1) front = 1;
    char* str = pv_xmalloc((size_t)front + tl + 1);
    for (long i = 0; i < front; ++i) str[i] = (idx & 16) && (i % 11 == 10) ? ' ' : (char)('a' + (i * 7 + (long)idx) % 26);
    memcpy(str + front, tail, tl + 1);
    char* nf = pv_nfkd_alloc(str); size_t nl = strlen(nf); free(nf);
    pv_countf(1, "boundary.nfkd_length.size%+ld", (long)nl - (long)POLYSEED_STR_SIZE);
    /* as a password */
    pv_mseed m; pv_gen_mseed(rng, 7, true, &m);
    polyseed_data* s = pv_seed_from_model(&m);
    if (s) {
        char* in = pv_exact_str(str);
        pv_api_crypt(s, in); PV_COUNT("evaluations", 1);
        t_u("crypt.nkdf", (uint64_t)pv_w->nkdf);
        if (pv_w->nkdf == 1) { pv_kdfrec* r = &pv_w->kdf[0]; t_u("crypt.pwlen", r->pwlen); t_b("crypt.pw", r->pw, r->pwlen < 1024 ? r->pwlen : 1024); }
        t_seed(s, 0);
        pv_api_free(s); free(in);
    }
    /* as a phrase (garbage: compared between the builds only) */
    pv_mlang* L = &pv_langs[(idx / 16) % (uint64_t)pv_nlangs];
    if (L->lib) op_decode(str, pv_gen_coin(rng), L, NULL, "boundary");
    if (idx < 3) pv_sample("boundary", "decomposed length %zu (buffer %d): '...%s'", nl, POLYSEED_STR_SIZE, pv_esc(tail));
    free(str);
    pv_transcript(T);
}

/* ---------------------------------------------------------------- grammar strings: compared between the builds only */
static uint64_t n_grammar(void) { return pv_scaled(8000, 2000000); }
static void run_grammar(uint64_t idx, pv_rng* rng) {
    T = 0x191919;
    pv_gstr g; pv_gen_string(rng, 7, &g);
    if (g.len > 3000) { pv_gstr_free(&g); pv_transcript(T); return; }
    pv_mlang* L = &pv_langs[g.lang];
    op_decode(g.s, g.coin, L, NULL, g.cls);
    pv_countf(1, "grammar.%s", g.cls);
    if (idx < 6) pv_sample("grammar", "[%s] %s coin %u: '%s'", g.cls, L->name_en, g.coin, pv_esc(g.s));
    pv_gstr_free(&g);
    pv_transcript(T);
}

int main(int argc, char** argv) {
    static const pv_section secs[] = { { "phrases", n_phrases, run_phrases }, { "allwords", n_allwords, run_allwords }, { "edges", n_edges, run_edges }, { "passwords", n_passwords, run_passwords }, { "boundary", n_boundary, run_boundary }, { "grammar", n_grammar, run_grammar } };
    return pv_main(argc, argv, "C19", secs, 6, init, NULL);
}
