/* drv_c20 — concurrent use of distinct seeds from several threads is race-free (DESIGN 3/C20)
 * Built with -fsanitize=thread (library and harness).  Each thread executes a deterministic script on private seeds
 * with its own thread-local world; the per-thread transcript digest must equal the digest of the same script run
 * alone.  Threads record nothing in shared, lock-protected structures while running (a mutex would create
 * happens-before edges and could hide races from ThreadSanitizer); the logical clock uses relaxed atomics only. */
#define _GNU_SOURCE
#include "pv.h"
#include <pthread.h>
#include <sched.h>

#define MAXT 32
#define NSL 4
enum { OP_CREATE, OP_DECODE, OP_EXPLICIT, OP_LOAD, OP_ENCODE, OP_STORE, OP_CRYPT, OP_KEYGEN, OP_GETTERS, OP_FREE, OP_N };
static const char* const OPN[] = { "create", "decode", "decode_explicit", "load", "encode", "store", "crypt", "keygen", "getters", "free" };

typedef struct ival { uint32_t op; uint64_t c, r; } ival;
typedef struct tctx {
    int tid; uint64_t script_seed, yield_seed; int nops; int yield_pct; bool concurrent;
    int table_kind; uint64_t digest; uint64_t opcount[OP_N]; uint64_t model_mismatch; char first_mismatch[256];
    ival* iv; int niv;
    uint64_t odd_clocks, decodes_without_lang_out, unsupported_inputs, refused_allocations;
    volatile int cur_op;          /* operation in progress (-1: none): read by the watchdog's hang probe only */
} tctx;
static uint64_t g_clk;
static pthread_barrier_t g_bar;

static inline uint64_t tick(void) { return __atomic_fetch_add(&g_clk, 1, __ATOMIC_RELAXED); }

static void* worker(void* p) {
    tctx* c = p;
    pv_world_init(c->script_seed);                      /* thread-local world: the model prediction for this thread does not depend on the others */
    pv_w->yield_pct = c->concurrent ? c->yield_pct : 0;
    pv_rng_seed(&pv_w->yield_rng, c->yield_seed, (uint64_t)c->tid, 7);
    pv_rng r; pv_rng_seed(&r, c->script_seed, 0xc20, (uint64_t)c->tid);
    polyseed_data* S[NSL] = { 0 }; pv_mseed M[NSL];
    char* out = malloc(POLYSEED_STR_SIZE); uint8_t* img = malloc(32); uint8_t* key = malloc(32);
    uint64_t T = 0x20;
    if (c->concurrent) pthread_barrier_wait(&g_bar);
    /* every thread finds the languages itself, and nobody has asked the registry before: whatever the library sets up on the first use
     * of its language registry (or of a language) is set up under contention, in a fresh process */
    const polyseed_lang* lib[PV_MAXLANG] = { 0 };
    { int nl = polyseed_get_num_langs();
      for (int i = 0; i < nl; ++i) { const polyseed_lang* l = polyseed_get_lang(i); const char* en = polyseed_get_lang_name_en(l);
          for (int q = 0; q < pv_nlangs; ++q) if (en && !strcmp(en, pv_langs[q].name_en) && !lib[q]) lib[q] = l; } }
    for (int k = 0; k < c->nops; ++k) {
        uint32_t op = pv_randn(&r, OP_N); int sl = (int)pv_randn(&r, NSL);
        /* Chinese lists are searched linearly (50x slower under TSan): drawn less often */
        int li; do { li = (int)pv_randn(&r, (uint32_t)pv_nlangs); } while (!lib[li] || (!strncmp(pv_langs[li].key, "zh", 2) && pv_randn(&r, 8)));
        pv_mlang* L = &pv_langs[li];
        unsigned coin = pv_gen_coin(&r);
        if ((op == OP_ENCODE || op == OP_STORE || op == OP_CRYPT || op == OP_KEYGEN || op == OP_GETTERS || op == OP_FREE) && !S[sl]) op = OP_CREATE;
        if ((op == OP_CREATE || op == OP_DECODE || op == OP_EXPLICIT || op == OP_LOAD) && S[sl]) { uint64_t c0 = tick(); polyseed_free(S[sl]); uint64_t r0 = tick(); S[sl] = NULL; if (c->iv) c->iv[c->niv++] = (ival){ OP_FREE, c0, r0 }; c->opcount[OP_FREE]++; }
        uint64_t tc = tick();
        c->cur_op = (int)op;
        pv_cur.api = OPN[op];            /* thread-local: lets the crash handler attribute a fault to the library call in progress */
        switch (op) {
        case OP_CREATE: {
            uint8_t script[19]; pv_randbytes(&r, script, 19); pv_set_rand_script(script, 19);
            pv_w->time_value = PV_EPOCH + pv_rand64(&r) % (1024 * PV_STEP);
            /* clocks fail now and then: the error value (time_t)-1, zero, a date before the epoch, far future; a fault in one thread's
             * clock must stay that thread's business */
            if (pv_randn(&r, 16) == 0) { static const uint64_t ODD[] = { UINT64_MAX, 0, 1, PV_EPOCH - 1, 1ull << 63, UINT64_MAX - 1, 0xFFFFFFFFull }; pv_w->time_value = ODD[pv_randn(&r, sizeof ODD / sizeof *ODD)]; c->odd_clocks++; }
            unsigned f = pv_randn(&r, 4);
            if (c->table_kind) pv_in_lib = 1;             /* lets the interposed libc time() return the scripted value */
            int st = polyseed_create(f, &S[sl]);
            pv_in_lib = 0;
            if (c->table_kind) pv_w->time_value = (uint64_t)pv_wrap_time_value;
            T = pv_mix(T, (uint64_t)st);
            /* the feature mask was configured once, by the main thread, before any worker existed: it holds for every thread */
            if (st != POLYSEED_OK && !c->model_mismatch++) snprintf(c->first_mismatch, sizeof c->first_mismatch, "create(%u) -> %s although features 1|2 were enabled before the threads started", f, pv_status_name(st));
            if (st == POLYSEED_OK) { memcpy(M[sl].secret, script, 19); M[sl].secret[18] &= 0x3f; M[sl].birthday = pv_m_birthday_of(pv_w->time_value); M[sl].features = f; } else S[sl] = NULL;
            break; }
        case OP_DECODE: case OP_EXPLICIT: case OP_LOAD: {
            pv_mseed m; pv_gen_mseed(&r, 3, true, &m);
            int st;
            bool pristine = true;
            int expect = POLYSEED_OK;
            if (pv_randn(&r, 10) == 0) { m.features |= 4; expect = POLYSEED_ERR_UNSUPPORTED; c->unsupported_inputs++; }      /* user bit 4 is not enabled in this process: the seed is built, refused and released */
            bool refuse = pv_randn(&r, 12) == 0 && c->table_kind != 2;               /* the injected allocator (tables 0 and 1) refuses the next request */
            if (refuse) { pv_w->fail_countdown = 1 + (long)pv_randn(&r, 3); c->refused_allocations++; }          /* the 1st, 2nd or 3rd request from now */
            if (op == OP_LOAD) { pv_m_image(&m, img); if (pv_randn(&r, 8) == 0) { img[pv_randn(&r, 32)] ^= 2; pristine = false; } st = polyseed_load(img, &S[sl]); }
            else {
                char ph[2048]; pv_m_encode(&m, L, coin, ph, sizeof ph);
                if (pv_randn(&r, 8) == 0) { coin ^= 1; pristine = false; }
                const polyseed_lang* lo = NULL;
                bool want_lang = pv_randn(&r, 2);          /* lang_out is optional */
                if (op == OP_DECODE && !want_lang) c->decodes_without_lang_out++;
                st = op == OP_DECODE ? polyseed_decode(ph, (polyseed_coin)coin, want_lang ? &lo : NULL, &S[sl]) : polyseed_decode_explicit(ph, (polyseed_coin)coin, lib[li], &S[sl]);
                if (st == POLYSEED_OK && op == OP_DECODE && want_lang) T = pv_mix(T, pv_hash_str(polyseed_get_lang_name_en(lo)));
            }
            T = pv_mix(T, (uint64_t)st);
            bool was_refused = refuse && pv_w->fail_countdown == 0; pv_w->fail_countdown = 0;
            if (pristine && was_refused) expect = POLYSEED_ERR_MEMORY;               /* memory comes before unsupported */
            if (pristine && st != expect && !(op == OP_DECODE && st == POLYSEED_ERR_MULT_LANG) && !c->model_mismatch++)
                snprintf(c->first_mismatch, sizeof c->first_mismatch, "%s of a valid %s (features %u, enabled 1|2%s) -> %s, expected %s", OPN[op], op == OP_LOAD ? "image" : "phrase", m.features, was_refused ? ", allocation refused" : "", pv_status_name(st), pv_status_name(expect));
            if (!pristine && st == POLYSEED_OK && !c->model_mismatch++) snprintf(c->first_mismatch, sizeof c->first_mismatch, "%s accepted a corrupted input", OPN[op]);
            if (st == POLYSEED_OK) M[sl] = m; else S[sl] = NULL;
            if (st == POLYSEED_OK) { polyseed_store(S[sl], img); uint8_t mi[32]; pv_m_image(&m, mi); if (memcmp(img, mi, 32) && !c->model_mismatch++) snprintf(c->first_mismatch, sizeof c->first_mismatch, "%s: decoded/loaded seed differs from the model", OPN[op]); T = pv_mix(T, pv_hash(img, 32, 1)); }
            break; }
        case OP_ENCODE: {
            size_t n = polyseed_encode(S[sl], lib[li], (polyseed_coin)coin, out);
            char want[2048]; pv_m_encode(&M[sl], L, coin, want, sizeof want);
            if (strcmp(want, out) && !c->model_mismatch++) snprintf(c->first_mismatch, sizeof c->first_mismatch, "encode (%s): '%.60s...' vs model '%.60s...'", L->name_en, out, want);
            T = pv_mix(T, pv_hash(out, n, 2)); break; }
        case OP_STORE: {
            polyseed_store(S[sl], img); uint8_t mi[32]; pv_m_image(&M[sl], mi);
            if (memcmp(img, mi, 32) && !c->model_mismatch++) snprintf(c->first_mismatch, sizeof c->first_mismatch, "store: image differs from the model");
            T = pv_mix(T, pv_hash(img, 32, 3)); break; }
        case OP_CRYPT: {
            static const char* const PW[4] = { "alpha", "contrase\xc3\xb1""a", "\xe3\x81\xb1\xe3\x81\x99", "" };
            const char* pw = PW[pv_randn(&r, 4)];
            pv_world_begin("polyseed_crypt"); polyseed_crypt(S[sl], pw); pv_world_end();
            if (pv_w->nkdf == 1) { uint8_t mk[32]; memcpy(mk, pv_w->kdf[0].key_written, 32); pv_m_crypt(&M[sl], mk); T = pv_mix(T, pv_hash(pv_w->kdf[0].pw, pv_w->kdf[0].pwlen, 4)); }
            polyseed_store(S[sl], img); T = pv_mix(T, pv_hash(img, 32, 5)); break; }
        case OP_KEYGEN: {
            pv_world_begin("polyseed_keygen"); polyseed_keygen(S[sl], (polyseed_coin)coin, 32, key); pv_world_end();
            T = pv_mix(T, pv_hash(key, 32, 6)); break; }
        case OP_GETTERS: T = pv_mix(T, polyseed_get_birthday(S[sl]) ^ polyseed_get_feature(S[sl], 7) ^ ((uint64_t)polyseed_is_encrypted(S[sl]) << 40)); break;
        case OP_FREE: polyseed_free(S[sl]); S[sl] = NULL; break;
        }
        pv_cur.api = NULL; c->cur_op = -1;
        uint64_t tr = tick();
        if (c->iv) c->iv[c->niv++] = (ival){ op, tc, tr };
        c->opcount[op]++;
        /* this thread's allocator ledger: a block released twice or a pointer it never handed out (with the libc table the ledger sees nothing) */
        if (c->table_kind != 2) for (int q = 0; q < pv_w->nev; ++q) if (pv_w->ev[q].kind == PV_EV_FREE && (pv_w->ev[q].a & (PV_FREE_DOUBLE | PV_FREE_FOREIGN)) && !c->model_mismatch++)
            snprintf(c->first_mismatch, sizeof c->first_mismatch, "%s: the injected free received a block %s", OPN[op], (pv_w->ev[q].a & PV_FREE_DOUBLE) ? "twice" : "that the injected allocator of this thread never handed out");
        /* keep the per-thread event log bounded */
        pv_w->nev = 0; pv_w->nkdf = 0; pv_w->fail_countdown = 0;
    }
    for (int i = 0; i < NSL; ++i) if (S[i]) polyseed_free(S[i]);
    if (c->table_kind != 2 && pv_w->nlive != 0 && !c->model_mismatch++) snprintf(c->first_mismatch, sizeof c->first_mismatch, "%d block(s) of this thread's allocator still allocated after all seeds were freed", pv_w->nlive);
    pv_ledger_reclaim(0);
    c->digest = T;
    free(out); free(img); free(key);
    free(pv_w); pv_w = NULL;
    return NULL;
}

static void init(void) {
    pv_world_init(pv.seed);
    pv_model_init();
    pv_inject_default();           /* once, before any thread exists */
    /* (no pv_model_bind_library here: the main thread never touches the language registry, the workers do - see worker()) */
    pv_api_enable_features(3);
    pv_info("rule", "N threads (8 and 16) x deterministic scripts of create/decode/decode_explicit/load/encode/store/crypt/keygen/getters/free on private seeds, all languages, random "
                    "yields and spins inside the dependency callbacks; several repetitions with different yield seeds. Oracles: ThreadSanitizer reports with a library frame (reported by "
                    "the orchestrator from the TSan log), and per-thread transcript digest == digest of the same script executed alone. non-trivial = a thread script whose concurrent "
                    "digest equalled its solo digest in a round where calls of different threads really overlapped; distinct = distinct (script seed, thread, round)");
}

static tctx* g_workers; static int g_nworkers;
static const char* hang_probe(void) { for (int t = 0; t < g_nworkers; ++t) { int o = g_workers[t].cur_op; if (o >= 0 && o < OP_N) return OPN[o]; } return NULL; }
static int cmp_ev(const void* a, const void* b) { const uint64_t* x = a; const uint64_t* y = b; return (x[0] > y[0]) - (x[0] < y[0]); }

static uint64_t n_rounds(void) { return pv_scaled(3, 5) * 2; }
static void run_rounds(uint64_t idx, pv_rng* rng) {
    int nt = (idx & 1) ? 16 : 8;
    if (pv.tier && idx % 5 == 4) nt = 32;          /* thorough: more threads than cores as well */
    /* which dependency table the threads run under: all entries injected / libc clock / libc clock + malloc + free
     * ("once dependencies are injected" covers every valid table, and the libc fall-backs are library code too) */
    int kind = (int)(idx % 3);
    { polyseed_dependency t; pv_world_table(&t, 0, kind == 0, kind != 2, kind != 2); pv_api_inject(&t); pv_api_enable_features(3);
      pv_wrap_time_scripted = kind != 0; pv_wrap_time_value = (time_t)(PV_EPOCH + 321 * PV_STEP + 12345); }
    static const char* const KN[3] = { "all-entries-injected", "time-NULL(libc-clock)", "time+alloc+free-NULL(libc)" };
    pv_countf(1, "rounds.table.%s", KN[kind]);
    int nops = (int)pv_scaled(4000, 80000); if (nt == 16) nops = nops * 2 / 3;
    static tctx solo[MAXT], conc[MAXT];
    pv_world* mainw = pv_w;
    uint64_t base = pv_rand64(rng);
    /* concurrent execution */
    g_clk = 0;
    pthread_barrier_init(&g_bar, NULL, (unsigned)nt);
    g_workers = conc; g_nworkers = nt; pv_hang_probe = hang_probe;
    pthread_t th[MAXT];
    /* the concurrent phase comes FIRST: every shard is a fresh process, so anything the library initialises lazily is
     * initialised under contention here */
    for (int t = 0; t < nt; ++t) {
        memset(&solo[t], 0, sizeof solo[t]); solo[t].tid = t; solo[t].script_seed = base + (uint64_t)t * 1315423911u; solo[t].nops = nops; solo[t].concurrent = false; solo[t].table_kind = kind;
        conc[t] = solo[t]; conc[t].concurrent = true; conc[t].yield_pct = 20; conc[t].yield_seed = base ^ idx; conc[t].digest = 0; conc[t].model_mismatch = 0; conc[t].odd_clocks = 0; conc[t].decodes_without_lang_out = 0; conc[t].unsupported_inputs = 0; conc[t].refused_allocations = 0; conc[t].cur_op = -1; solo[t].cur_op = -1;
        memset(conc[t].opcount, 0, sizeof conc[t].opcount);
        conc[t].iv = malloc(sizeof(ival) * (size_t)(nops * 2 + 8)); conc[t].niv = 0;
        pthread_create(&th[t], NULL, worker, &conc[t]);
    }
    for (int t = 0; t < nt; ++t) pthread_join(th[t], NULL);
    pthread_barrier_destroy(&g_bar);
    /* solo executions (sequential, same scripts) */
    g_workers = solo;
    for (int t = 0; t < nt; ++t) { pthread_t th1; pthread_create(&th1, NULL, worker, &solo[t]); pthread_join(th1, NULL); }
    g_nworkers = 0;
    pv_w = mainw;
    /* offline: overlapping call pairs of different threads by (op,op) type (sweep over the logical clock) */
    size_t total = 0; for (int t = 0; t < nt; ++t) total += (size_t)conc[t].niv;
    uint64_t (*ev)[4] = malloc(total * 2 * sizeof *ev); size_t ne = 0;
    for (int t = 0; t < nt; ++t) for (int i = 0; i < conc[t].niv; ++i) {
        ev[ne][0] = conc[t].iv[i].c; ev[ne][1] = 0; ev[ne][2] = (uint64_t)t; ev[ne][3] = conc[t].iv[i].op; ++ne;
        ev[ne][0] = conc[t].iv[i].r; ev[ne][1] = 1; ev[ne][2] = (uint64_t)t; ev[ne][3] = conc[t].iv[i].op; ++ne;
    }
    qsort(ev, ne, sizeof *ev, cmp_ev);
    static uint64_t pairs[OP_N][OP_N]; memset(pairs, 0, sizeof pairs);
    int active_op[MAXT]; for (int t = 0; t < nt; ++t) active_op[t] = -1;
    uint64_t overlapping = 0;
    for (size_t i = 0; i < ne; ++i) {
        int t = (int)ev[i][2];
        if (ev[i][1] == 0) { for (int u = 0; u < nt; ++u) if (u != t && active_op[u] >= 0) { pairs[ev[i][3]][active_op[u]]++; ++overlapping; } active_op[t] = (int)ev[i][3]; }
        else active_op[t] = -1;
    }
    free(ev);
    for (int a = 0; a < OP_N; ++a) for (int b = 0; b < OP_N; ++b) if (pairs[a][b]) pv_countf(pairs[a][b], "overlap.%s+%s", OPN[a], OPN[b]);
    pv_countf(overlapping, "overlap.total");
    uint64_t minpair = UINT64_MAX; for (int a = 0; a < OP_N; ++a) { uint64_t s = 0; for (int b = 0; b < OP_N; ++b) s += pairs[a][b] + pairs[b][a]; if (s < minpair) minpair = s; }
    pv_maxf(minpair, "overlap.min_pairs_of_any_op_type.round%llu", (unsigned long long)idx);
    /* verdicts */
    for (int t = 0; t < nt; ++t) {
        PV_COUNT("evaluations", (uint64_t)nops);
        for (int o = 0; o < OP_N; ++o) pv_countf(conc[t].opcount[o], "ops.%s", OPN[o]);
        PV_COUNT("ops.create_with_failing_or_odd_clock", conc[t].odd_clocks); PV_COUNT("ops.decode_with_lang_out_NULL", conc[t].decodes_without_lang_out); PV_COUNT("ops.constructor_with_unsupported_feature", conc[t].unsupported_inputs); PV_COUNT("ops.constructor_with_refused_allocation", conc[t].refused_allocations);
        if (solo[t].model_mismatch) pv_violation("C20/solo-run-differs-from-model", "thread script %d alone: %s", t, solo[t].first_mismatch);
        else if (conc[t].model_mismatch) pv_violation("C20/concurrent-run-differs-from-model", "round %llu, %d threads, thread %d: %s", (unsigned long long)idx, nt, t, conc[t].first_mismatch);
        if (conc[t].digest != solo[t].digest) pv_violation("C20/concurrent-result-differs-from-serial", "round %llu, %d threads, thread %d: transcript digest %016llx concurrently, %016llx alone%s%s",
                (unsigned long long)idx, nt, t, (unsigned long long)conc[t].digest, (unsigned long long)solo[t].digest, conc[t].model_mismatch ? "; first model mismatch: " : "", conc[t].model_mismatch ? conc[t].first_mismatch : "");
        else if (overlapping > 0) { PV_DISTINCT("nontrivial", pv_mix(solo[t].script_seed, idx * 64 + (uint64_t)t)); PV_COUNT("threads.digest_equal_to_solo", 1); }
        free(conc[t].iv);
    }
    pv_wrap_time_scripted = 0;
    pv_countf(1, "rounds.%d_threads", nt);
    pv_sample("round", "round %llu: %d threads x %d operations, %llu overlapping call pairs of different threads, all digests %s", (unsigned long long)idx, nt, nops, (unsigned long long)overlapping, "compared with solo runs");
}

int main(int argc, char** argv) {
    static const pv_section secs[] = { { "rounds", n_rounds, run_rounds } };
    return pv_main(argc, argv, "C20", secs, 1, init, NULL);
}
