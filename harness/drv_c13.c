/* drv_c13 — any sequence of API calls behaves like a simple abstract seed model (DESIGN 3/C13)
 * Lock-step execution: every operation is applied to the library and to the abstract model
 * {slot -> (secret150, birthday10, features5)}, enabled-feature mask, identity of the injected table;
 * every returned status, output buffer, getter value and dependency event is compared immediately, and the
 * other live slots are re-observed after every operation. */
#include "pv.h"
#include <sys/mman.h>

#define NSLOT 6
typedef struct slot { bool live; polyseed_data* s; pv_mseed m; int nblocks; } slot;      /* nblocks: what the constructor kept from the allocator (>= 1; one today) */
static slot S[NSLOT];
static unsigned M_mask; static int M_tag;
static char* g_out; static uint8_t* g_img; static uint8_t* g_key;
static uint64_t g_seqhash; static bool g_state_changed, g_had_ctor, g_bad;
static const uint8_t CSALT[16] = { 'P','O','L','Y','S','E','E','D',' ','m','a','s','k', 0, 0xff, 0xff };

static void vio(const char* op, const char* what, const char* fmt, ...) {
    char key[128], b[3000]; snprintf(key, sizeof key, "C13/%s/%s", op, what);
    va_list ap; va_start(ap, fmt); vsnprintf(b, sizeof b, fmt, ap); va_end(ap);
    pv_violation(key, "%s", b); g_bad = true;
}
static int g_libc_alloc;       /* this walk pairs libc malloc (alloc entry NULL) with an injected free */
static void inject_tag(int tag) { polyseed_dependency t; pv_world_table(&t, tag, true, !g_libc_alloc, true); pv_api_inject(&t); M_tag = tag; }
static void check_tags(const char* op) {
    for (int i = 0; i < pv_w->nev; ++i) if (pv_w->ev[i].tag != M_tag) { vio(op, "stale-dependency", "an event of this call carries the tag of a previously injected table"); return; }
}
static int free_slot(void) { for (int i = 0; i < NSLOT; ++i) if (!S[i].live) return i; return -1; }
static int live_slot(pv_rng* r) { int c[NSLOT], n = 0; for (int i = 0; i < NSLOT; ++i) if (S[i].live) c[n++] = i; return n ? c[pv_randn(r, (uint32_t)n)] : -1; }
static int nlive(void) { int n = 0; for (int i = 0; i < NSLOT; ++i) n += S[i].live; return n; }
static int nblocks_held(void) { int n = 0; for (int i = 0; i < NSLOT; ++i) if (S[i].live) n += S[i].nblocks; return n; }

static void observe_slot(int i, const char* after, bool deep) {
    if (!S[i].live) return;
    if (deep) { const char* mm = pv_seed_mismatch(S[i].s, &S[i].m, (unsigned)i * 331 % 2048); check_tags("observe"); if (mm) vio(after, "slot-differs-from-model", "slot %d after %s: %s (model %s)", i, after, mm, pv_mseed_str(&S[i].m)); }
    else { uint8_t mi[32]; pv_m_image(&S[i].m, mi); pv_api_store(S[i].s, g_img); if (memcmp(g_img, mi, 32)) vio(after, "slot-differs-from-model", "slot %d after %s: image %s, model %s", i, after, pv_hex(g_img, 32), pv_hex(mi, 32)); }
    PV_COUNT("observations", 1);
}
static void observe_others(int except, const char* after, pv_rng* r) {
    for (int i = 0; i < NSLOT; ++i) if (i != except && S[i].live) observe_slot(i, after, pv_randn(r, 8) == 0);
    if (!g_libc_alloc && pv_ledger_live() != nblocks_held()) vio(after, "ledger", "%d blocks live, the %d seeds of the model took %d when they were made", pv_ledger_live(), nlive(), nblocks_held());
}
static void put(int i, polyseed_data* s, const pv_mseed* m) { int before = nblocks_held(); S[i].live = true; S[i].s = s; S[i].m = *m; S[i].nblocks = g_libc_alloc ? 1 : pv_ledger_live() - before; if (S[i].nblocks < 1) S[i].nblocks = 1; g_had_ctor = true; }
static void seq(uint64_t v) { g_seqhash = pv_mix(g_seqhash, v); }

/* ---- operations (each returns after comparing with the model) */
static void op_create(pv_rng* r, unsigned arg, bool armed) {
    int i = free_slot(); if (i < 0) return;
    uint8_t script[19]; pv_randbytes(r, script, 19); pv_set_rand_script(script, 19);
    uint64_t t = pv_randn(r, 6) ? PV_EPOCH + pv_rand64(r) % (1024 * PV_STEP) : pv_rand64(r) >> pv_randn(r, 40);
    pv_w->time_value = t;
    /* a clock moves: should creation read it more than once, the readings differ (a third of the creations); the model then takes
     * the reading the reported birthday belongs to - it must belong to one of them */
    pv_w->time_script_n = 0;
    if (pv_randn(r, 3) == 0) { pv_w->time_script[0] = t; pv_w->time_script[1] = pv_randn(r, 2) ? t + pv_randn(r, (uint32_t)(2 * PV_STEP)) : PV_EPOCH + pv_rand64(r) % (1024 * PV_STEP); pv_w->time_script[2] = pv_randn(r, 2) ? UINT64_MAX : PV_EPOCH - 1 - pv_randn(r, 100000); pv_w->time_script_n = 3; }
    if (armed) pv_w->fail_countdown = 1;
    polyseed_data* s = NULL; int st = pv_api_create(arg, &s);
    pv_w->fail_countdown = 0; pv_set_rand_prng(); pv_w->time_script_n = 0;
    int nreads = pv_w->time_reads; uint64_t seen[8]; memcpy(seen, pv_w->time_seen, sizeof seen);
    check_tags("create"); seq(0x10 + (arg & 7)); PV_COUNT("ops.create", 1);
    unsigned f = arg & 7;
    bool refused = armed && pv_w->alloc_failed_in_call > 0;          /* a request was really refused during this call */
    int want = (f & ~M_mask) ? POLYSEED_ERR_UNSUPPORTED : refused ? POLYSEED_ERR_MEMORY : POLYSEED_OK;
    if (st != want) { vio("create", "status", "create(0x%x) under mask %u%s -> %s, model %s", arg, M_mask, armed ? " (allocator failing)" : "", pv_status_name(st), pv_status_name(want)); if (st == POLYSEED_OK) pv_api_free(s); return; }
    if (st != POLYSEED_OK) return;
    pv_mseed m; memcpy(m.secret, script, 19); m.secret[18] &= 0x3f; m.birthday = pv_m_birthday_of(t); m.features = f;
    if (nreads > 1) { uint64_t B = pv_api_get_birthday(s); bool found = false; for (int q = 0; q < nreads && q < 8; ++q) if (B == pv_m_birthday_time(pv_m_birthday_of(seen[q]))) { m.birthday = pv_m_birthday_of(seen[q]); found = true; break; }
        if (!found) { vio("create", "birthday", "the clock was read %d times (%llu, %llu, ...); the birthday %llu belongs to none of the readings", nreads, (unsigned long long)seen[0], (unsigned long long)seen[1], (unsigned long long)B); pv_api_free(s); return; } }
    put(i, s, &m); observe_slot(i, "create", true); g_state_changed = true;
}
static void op_load(pv_rng* r, bool armed) {
    int i = free_slot(); if (i < 0) return;
    uint8_t b[32]; uint32_t k = pv_randn(r, 5);
    pv_mseed m; pv_gen_mseed(r, 7, true, &m); if (pv_randn(r, 10) == 0) m.features |= 8;
    int j = live_slot(r);
    if (k == 0 && j >= 0) m = S[j].m;
    pv_m_image(&m, b);
    if (k == 2) b[pv_randn(r, 32)] ^= (uint8_t)(1u << pv_randn(r, 8));
    if (k == 3) pv_randbytes(r, b, 32);
    uint8_t* hb = malloc(32); memcpy(hb, b, 32);
    if (armed) pv_w->fail_countdown = 1;
    polyseed_data* s = NULL; int st = pv_api_load(hb, &s);
    pv_w->fail_countdown = 0; free(hb);
    check_tags("load"); seq(0x20 + k); PV_COUNT("ops.load", 1);
    pv_mseed want_seed; int want = pv_m_load(b, M_mask, &want_seed);
    if (armed && pv_w->alloc_failed_in_call > 0) want = POLYSEED_ERR_MEMORY;       /* (a library that validates before it allocates never gets as far as the refusal for a bad image) */
    if (st != want) { vio("load", "status", "load(%s) under mask %u%s -> %s, model %s", pv_hex(b, 32), M_mask, armed ? " (allocator failing)" : "", pv_status_name(st), pv_status_name(want)); if (st == POLYSEED_OK) pv_api_free(s); return; }
    if (st != POLYSEED_OK) return;
    put(i, s, &want_seed); observe_slot(i, "load", pv_randn(r, 4) == 0); g_state_changed = true;
}
static void op_decode(pv_rng* r, bool explicit_, bool armed) {
    int i = free_slot(); if (i < 0) return;
    char* in; unsigned coin; pv_mlang* L; uint32_t k = pv_randn(r, 4); pv_gstr g; g.s = NULL;
    int j = live_slot(r);
    if (k == 0) { pv_gen_string(r, 7, &g); in = g.s; coin = g.coin; L = &pv_langs[g.lang]; if (g.len > 2000) { pv_gstr_free(&g); return; } }
    else {
        pv_mseed m; pv_gen_mseed(r, 7, true, &m); if (k == 1 && j >= 0) m = S[j].m; if (pv_randn(r, 12) == 0) m.features |= 8;
        do { L = &pv_langs[pv_randn(r, (uint32_t)pv_nlangs)]; } while (!L->lib);
        coin = pv_gen_coin(r);
        char ph[2048]; pv_m_encode(&m, L, coin, ph, sizeof ph);
        if (k == 3) coin = pv_randn(r, 2) ? coin ^ 1 : coin;        /* sometimes the wrong coin */
        in = pv_exact_str(ph);
    }
    pv_mdecode md; pv_m_decode(in, coin, explicit_ ? L : NULL, M_mask, &md);
    if (armed) pv_w->fail_countdown = 1;
    polyseed_data* s = NULL; const polyseed_lang* lo = NULL;
    int st = explicit_ ? pv_api_decode_explicit(in, coin, L->lib, &s) : pv_api_decode(in, coin, &lo, &s);
    pv_w->fail_countdown = 0;
    check_tags(explicit_ ? "decode_explicit" : "decode"); seq(0x30 + k + (explicit_ ? 8 : 0)); PV_COUNT("ops.decode", 1);
    int want = md.status;
    if (armed && pv_w->alloc_failed_in_call > 0 && (want == POLYSEED_OK || want == POLYSEED_ERR_UNSUPPORTED)) want = POLYSEED_ERR_MEMORY;
    if (want >= 0 && st != want) vio(explicit_ ? "decode_explicit" : "decode", "status", "'%s' coin %u %s under mask %u%s -> %s, model %s", pv_esc(in), coin, explicit_ ? L->name_en : "(auto)", M_mask, armed ? " (allocator failing)" : "", pv_status_name(st), pv_status_name(want));
    else if (st == POLYSEED_OK && want == POLYSEED_OK) {
        if (!explicit_ && lo != pv_langs[md.lang].lib) vio("decode", "language", "detected language differs from the model");
        put(i, s, &md.seed); s = NULL; observe_slot(i, "decode", pv_randn(r, 4) == 0); g_state_changed = true;
    }
    if (s && st == POLYSEED_OK) pv_api_free(s);
    if (g.s) pv_gstr_free(&g); else free(in);
}
static bool g_arm_next;     /* the next library call finds the allocator refusing one request, whatever the call is */
static void arm(void) { if (g_arm_next) { pv_arm_some_request(); PV_COUNT("ops.non_constructor_with_failing_allocator", 1); } }
static void disarm(void) { pv_w->fail_countdown = 0; g_arm_next = false; }
static void op_crypt(pv_rng* r) {
    int i = live_slot(r); if (i < 0) return;
    const char* cls; char* pw = pv_gen_password(r, &cls);
    char* nf = pv_nfkd_alloc(pw);
    if (strlen(nf) >= POLYSEED_STR_SIZE) { free(nf); free(pw); return; }
    arm(); pv_api_crypt(S[i].s, pw); disarm();
    check_tags("crypt"); seq(0x40); PV_COUNT("ops.crypt", 1);
    uint8_t mask[32]; pv_kdf_mix((const uint8_t*)nf, strlen(nf), CSALT, 16, 10000, mask, 32);     /* what a conforming call makes the KDF stand-in return */
    pv_m_crypt(&S[i].m, mask);
    if (pv_w->nkdf != 1) vio("crypt", "kdf-calls", "%d KDF calls", pv_w->nkdf);
    observe_slot(i, "crypt", true); g_state_changed = true;
    free(nf); free(pw);
}
static void op_encode(pv_rng* r) {
    int i = live_slot(r); if (i < 0) return;
    pv_mlang* L; do { L = &pv_langs[pv_randn(r, (uint32_t)pv_nlangs)]; } while (!L->lib);
    unsigned coin = pv_gen_coin(r);
    arm(); size_t n = pv_api_encode(S[i].s, L->lib, coin, g_out); disarm();
    check_tags("encode"); seq(0x50); PV_COUNT("ops.encode", 1);
    char want[2048]; size_t wn = pv_m_encode(&S[i].m, L, coin, want, sizeof want);
    if (strcmp(want, g_out) || n != wn) vio("encode", "phrase", "slot %d %s coin %u: '%s' vs model '%s'", i, L->name_en, coin, pv_esc(g_out), pv_esc(want));
}
static void op_keygen(pv_rng* r) {
    int i = live_slot(r); if (i < 0) return;
    unsigned coin = pv_gen_coin(r); size_t ks = 1 + pv_randn(r, 64);
    memset(g_key, 0xEE, 64);
    arm(); pv_api_keygen(S[i].s, coin, ks, g_key); disarm();
    check_tags("keygen"); seq(0x60); PV_COUNT("ops.keygen", 1);
    uint8_t pw[32], salt[32], exp[64]; pv_m_password(&S[i].m, pw); pv_m_salt(&S[i].m, coin, salt); pv_kdf_mix(pw, 32, salt, 32, 10000, exp, ks);
    if (memcmp(exp, g_key, ks)) vio("keygen", "key", "slot %d coin %u size %zu: key differs from what the model inputs produce", i, coin, ks);
}
static void op_getters(pv_rng* r) { int i = live_slot(r); if (i < 0) return; observe_slot(i, "getters", true); seq(0x70); PV_COUNT("ops.getters", 1); }
static void op_free(pv_rng* r, bool null) {
    if (null) { pv_api_free(NULL); if (pv_ev_count(PV_EV_FREE) || pv_ev_count(PV_EV_MEMZERO)) vio("free", "null", "free(NULL) reached the dependencies"); seq(0x81); return; }
    int i = live_slot(r); if (i < 0) return;
    pv_api_free(S[i].s); check_tags("free"); seq(0x80); PV_COUNT("ops.free", 1);
    if (g_libc_alloc ? pv_ev_count(PV_EV_FREE) < 1 : pv_ev_count(PV_EV_FREE) != S[i].nblocks) vio("free", "injected-free-not-called", "polyseed_free called the injected free %d times (table: alloc %s, free injected)", pv_ev_count(PV_EV_FREE), g_libc_alloc ? "NULL" : "injected");
    for (int k = 0; k < pv_w->nev; ++k) if (pv_w->ev[k].kind == PV_EV_FREE && !g_libc_alloc && (pv_w->ev[k].a & (PV_FREE_FOREIGN | PV_FREE_DOUBLE))) vio("free", "ledger", "foreign or double free");      /* with libc malloc the ledger knows no block (ASan watches that path) */
    S[i].live = false; S[i].s = NULL; g_state_changed = true;
}
static void op_enable(pv_rng* r, unsigned arg) {
    (void)r; int ret = pv_api_enable_features(arg); seq(0x90 + (arg & 7)); PV_COUNT("ops.enable", 1);
    int want = (int)((arg & 1) + ((arg >> 1) & 1) + ((arg >> 2) & 1));
    if (ret != want) vio("enable_features", "return", "enable_features(0x%x) = %d, model %d", arg, ret, want);
    M_mask = arg & 7; g_state_changed = true;
}
static void op_reinject(void) { inject_tag(1 - M_tag); seq(0xa0); PV_COUNT("ops.reinject", 1); g_state_changed = true; }

/* the library's own static / thread-local storage may change only in polyseed_inject and polyseed_enable_features */
static int g_nranges; static bool g_baseline;
static void guard_begin(void) { if (g_nranges && !g_baseline) { pv_static_snapshot(); g_baseline = true; } pv_static_probe_in_callbacks = g_nranges > 0; }
static void guard_end(const char* op, bool exempt) {
    if (!g_nranges) return;
    PV_COUNT("static_storage.checks", 1);
    pv_static_probe_in_callbacks = false;
    if (exempt) { (void)pv_static_digest(); pv_static_snapshot(); return; }        /* inject / enable_features legitimately change polyseed_deps / the feature mask: new baseline */
    if (pv_static_digest() != 0) { vio(op, "hidden-static-state", "the library's static storage changed during %s: %s", op, pv_static_diff()); pv_static_snapshot(); }
}

static void reset_all(void) {
    for (int i = 0; i < NSLOT; ++i) if (S[i].live) { pv_api_free(S[i].s); S[i].live = false; }
    if (pv_ledger_live() != 0) { pv_ledger_reclaim(0); }
    inject_tag(0);
    pv_api_enable_features(0); M_mask = 0;
    g_seqhash = 0; g_state_changed = false; g_had_ctor = false; g_bad = false;
    g_baseline = false;
}

static void init(void) {
    pv_world_init(pv.seed);
    pv_model_init();
    pv_inject_default();
    pv_model_bind_library();
    g_out = malloc(POLYSEED_STR_SIZE); g_img = malloc(32); g_key = malloc(64);
    g_nranges = pv_static_init();
    pv_maxf((uint64_t)g_nranges, "static_storage.ranges_of_library_objects_monitored");
    pv_info("rule", "(a) random walks of 50-200 operations over up to 6 live seeds: create(any unsigned), load(valid/other slot/mutated/random), decode and decode_explicit (model phrase, "
                    "another slot's phrase, grammar string, wrong coin), crypt, encode, keygen, getters, free, free(NULL), enable_features(any), re-injection of a second stub set, armed "
                    "allocation failure; model-guided, boundary-biased arguments; junk-filling allocator. (b) every sequence up to length 4 (5 in thorough) over the alphabet {create0, create1, "
                    "enable0, enable1, load, decode, crypt, observe, free, reinject}. After every operation the outputs are compared with the model and all other live slots are re-observed. "
                    "non-trivial = a sequence with a state-changing operation after its first constructor that matched the model throughout; distinct = distinct operation-sequence hashes");
}

/* ---------------------------------------------------------------- (a) random walks */
static uint64_t n_walks(void) { return pv_scaled(4000, 150000); }
static void run_walks(uint64_t idx, pv_rng* rng) {
    reset_all();                                         /* frees what the previous walk left, under the previous table */
    g_libc_alloc = (idx % 8 == 5); pv_w->foreign_passthrough = g_libc_alloc;
    if (g_libc_alloc) { inject_tag(0); PV_COUNT("walks.with_libc_malloc_and_injected_free", 1); }
    pv_w->reuse_mode = (int)(idx & 1);         /* every other walk: the allocator hands the most recently freed block out again */
    if (pv_w->reuse_mode) PV_COUNT("walks.with_address_reusing_allocator", 1);
    pv_w->align8_mode = (int)((idx >> 1) & 1);
    if (pv_w->align8_mode) PV_COUNT("walks.with_8_byte_aligned_blocks", 1);
    int steps = 50 + (int)pv_randn(rng, 151);
    bool after_ctor_change = false;
    for (int k = 0; k < steps && !g_bad; ++k) {
        uint32_t op = pv_randn(rng, 100); bool armed = pv_randn(rng, 25) == 0 && !g_libc_alloc;      /* libc malloc cannot be told to fail */
        bool had = g_had_ctor; g_state_changed = false;
        int target = -2;
        g_arm_next = armed && op >= 42 && op < 70;
        guard_begin();
        if (op < 10) op_create(rng, pv_randn(rng, 3) ? pv_randn(rng, 8) : (unsigned)pv_rand64(rng), armed);
        else if (op < 22) op_load(rng, armed);
        else if (op < 32) op_decode(rng, false, armed);
        else if (op < 42) op_decode(rng, true, armed);
        else if (op < 54) op_crypt(rng);
        else if (op < 64) op_encode(rng);
        else if (op < 70) op_keygen(rng);
        else if (op < 76) op_getters(rng);
        else if (op < 86) op_free(rng, false);
        else if (op < 88) op_free(rng, true);
        else if (op < 96) op_enable(rng, pv_randn(rng, 4) ? pv_randn(rng, 8) : (unsigned)pv_rand64(rng));
        else op_reinject();
        guard_end("walk-step", op >= 88);
        PV_COUNT("evaluations", 1);
        if (had && g_state_changed) after_ctor_change = true;
        observe_others(target, "step", rng);
    }
    if (g_libc_alloc) { for (int i = 0; i < NSLOT; ++i) if (S[i].live) { pv_api_free(S[i].s); S[i].live = false; } g_libc_alloc = 0; pv_w->foreign_passthrough = 0; inject_tag(0); }
    pv_w->align8_mode = 0; pv_w->reuse_mode = 0; if (pv_w->cache_ptr) { free(pv_w->cache_base); pv_w->cache_ptr = NULL; }
    if (!g_bad && after_ctor_change) { PV_DISTINCT("nontrivial", g_seqhash); PV_COUNT("walks.matched_model", 1); }
    if (idx < 3) pv_sample("walk", "%d operations, %d seeds live at the end, enabled mask %u, table %c", steps, nlive(), M_mask, 'A' + M_tag);
}

/* ---------------------------------------------------------------- (a') endurance: one operation repeated far beyond any 8- or 16-bit counter
 * A walk is 50-200 steps; state that accumulates per seed or per process (a use counter, a generation number, an index into a
 * ring) would only show after 2^8 or 2^16 repetitions of the same operation.  Each case repeats one operation N times
 * (300 or 70 000) in lock-step with the model, with a full observation every 64th repetition and at the end. */
static uint64_t n_endur(void) { return 7 * pv_scaled(4, 40); }
static void run_endur(uint64_t idx, pv_rng* rng) {
    reset_all();
    pv_case_watchdog(300);
    int kind = (int)(idx % 7); long N = (idx / 7) % 2 ? ((kind == 0 || kind == 3 || kind == 4) ? 66000 : 1100) : 300;      /* beyond 2^16 where one repetition is cheap, beyond 2^10 elsewhere */
    op_enable(rng, 7);
    { pv_mseed m0; pv_gen_mseed(rng, 7, true, &m0); polyseed_data* s0 = pv_seed_from_model(&m0); if (!s0) { vio("load", "status", "cannot load %s", pv_mseed_str(&m0)); return; } put(0, s0, &m0); }
    unsigned coin = pv_gen_coin(rng); pv_mlang* L; do { L = &pv_langs[pv_randn(rng, (uint32_t)pv_nlangs)]; } while (!L->lib || !strncmp(L->key, "zh", 2));
    static const char* const KN[] = { "crypt", "encode", "keygen+getters", "decode+free", "create+free", "enable_features", "load+free" };
    char want[2048]; pv_m_encode(&S[0].m, L, coin, want, sizeof want);
    for (long k = 0; k < N && !g_bad; ++k) {
        bool look = (k % 64 == 63) || k == N - 1 || k == 255 || k == 256 || k == 65535 || k == 65536;
        guard_begin();
        switch (kind) {
        case 0: { const char* pw = (k & 1) ? "endurance" : "\xc3\xa9ndurance";      /* alternating passwords: the seed keeps changing */
            pv_api_crypt(S[0].s, pw); char* nf = pv_nfkd_alloc(pw); uint8_t mask[32]; pv_kdf_mix((const uint8_t*)nf, strlen(nf), CSALT, 16, 10000, mask, 32); free(nf); pv_m_crypt(&S[0].m, mask);
            if (pv_w->nkdf != 1) vio("crypt", "kdf-calls", "%d KDF calls at repetition %ld", pv_w->nkdf, k); break; }
        case 1: { size_t n = pv_api_encode(S[0].s, L->lib, coin, g_out); if (n != strlen(want) || strcmp(g_out, want)) vio("encode", "phrase", "repetition %ld of the same encode: '%s' vs model '%s'", k, pv_esc(g_out), pv_esc(want)); break; }
        case 2: { memset(g_key, 0xEE, 64); pv_api_keygen(S[0].s, coin, 32, g_key); uint8_t pw[32], salt[32], exp[32]; pv_m_password(&S[0].m, pw); pv_m_salt(&S[0].m, coin, salt); pv_kdf_mix(pw, 32, salt, 32, 10000, exp, 32);
            if (memcmp(exp, g_key, 32)) vio("keygen", "key", "repetition %ld of the same keygen differs from the model", k);
            if (pv_api_get_birthday(S[0].s) != pv_m_birthday_time(S[0].m.birthday) || pv_api_get_feature(S[0].s, 7) != (S[0].m.features & 7)) vio("getters", "value", "repetition %ld", k); break; }
        case 3: { polyseed_data* d = NULL; const polyseed_lang* lo = NULL; bool au = (k % 257) == 1;      /* auto-detection walks the slow Chinese lists: now and then only */
            int st = au ? pv_api_decode(want, coin, &lo, &d) : pv_api_decode_explicit(want, coin, L->lib, &d);
            pv_mdecode md; if (k < 2) { pv_m_decode(want, coin, au ? NULL : L, 7, &md); if (md.status >= 0 && st != md.status) vio("decode", "status", "%s, model %s", pv_status_name(st), pv_status_name(md.status)); }
            if (st == POLYSEED_OK) { if (look) { pv_api_store(d, g_img); uint8_t mi[32]; pv_m_image(&S[0].m, mi); if (memcmp(g_img, mi, 32)) vio("decode", "seed", "repetition %ld of the same decode gives another seed", k); } pv_api_free(d); }
            else if (st != POLYSEED_ERR_MULT_LANG) vio("decode", "status", "repetition %ld of the same decode -> %s", k, pv_status_name(st));
            break; }
        case 4: { uint8_t script[19]; pv_randbytes(rng, script, 19); pv_set_rand_script(script, 19); pv_w->time_value = PV_EPOCH + (uint64_t)k * 977;
            polyseed_data* d = NULL; int st = pv_api_create((unsigned)k & 7, &d); pv_set_rand_prng();
            if (st != POLYSEED_OK) vio("create", "status", "repetition %ld -> %s", k, pv_status_name(st));
            else { if (look) { pv_api_store(d, g_img); script[18] &= 0x3f; if (memcmp(g_img + 10, script, 19)) vio("create", "secret", "repetition %ld: secret differs from the random output", k); } pv_api_free(d); }
            break; }
        case 5: { unsigned a = (unsigned)pv_randn(rng, 8); int ret = pv_api_enable_features(a); M_mask = a; if (ret != (int)((a & 1) + ((a >> 1) & 1) + ((a >> 2) & 1))) vio("enable_features", "return", "repetition %ld", k);
            if (look) { polyseed_data* d = NULL; int st = pv_api_create(7, &d); int w = (7 & ~M_mask) ? POLYSEED_ERR_UNSUPPORTED : POLYSEED_OK; if (st != w) vio("enable_features", "mask", "after %ld enabling calls (last 0x%x): create(7) -> %s", k + 1, a, pv_status_name(st)); if (st == POLYSEED_OK) pv_api_free(d); }
            break; }
        default: { uint8_t* b = malloc(32); pv_m_image(&S[0].m, b); polyseed_data* d = NULL; int st = pv_api_load(b, &d); free(b);
            if (st != POLYSEED_OK) vio("load", "status", "repetition %ld of the same load -> %s", k, pv_status_name(st)); else { if (look) { pv_api_store(d, g_img); uint8_t mi[32]; pv_m_image(&S[0].m, mi); if (memcmp(g_img, mi, 32)) vio("load", "seed", "repetition %ld", k); } pv_api_free(d); }
            break; }
        }
        guard_end("endurance-step", kind == 5);
        PV_COUNT("evaluations", 1);
        if (look && kind != 5) observe_slot(0, KN[kind], (k % 1024) == 1023 || k == N - 1);
        if (!g_libc_alloc && look && pv_ledger_live() != nblocks_held()) vio(KN[kind], "ledger", "%d blocks live after %ld repetitions, the seeds of the model took %d", pv_ledger_live(), k + 1, nblocks_held());
    }
    if (!g_bad) { pv_countf(1, "endurance.%s.%ld_repetitions", KN[kind], N); PV_DISTINCT("nontrivial", pv_mix(0xe0d, idx)); }
    M_mask = M_mask & 7; op_enable(rng, 0);
}

/* ---------------------------------------------------------------- (b) exhaustive short sequences */
enum { X_CREATE0, X_CREATE1, X_ENABLE0, X_ENABLE1, X_LOAD, X_DECODE, X_CRYPT, X_OBSERVE, X_FREE, X_REINJECT, X_N };
static const char* const XN[] = { "create0", "create1", "enable0", "enable1", "load", "decode", "crypt", "observe", "free", "reinject" };
static int xlen(void) { return pv.tier ? 5 : 4; }
static uint64_t n_exh(void) { uint64_t n = 0, p = 1; for (int l = 1; l <= xlen(); ++l) { p *= X_N; n += p; } return n; }
static void run_exh(uint64_t idx, pv_rng* rng) {
    if (pv.scale_pct < 100 && idx % 20 != pv.seed % 20) return;      /* reduced-scale runs (assertion-enabled build: every injection re-runs the self-test) take a stripe */
    int len = 1; uint64_t p = X_N, k = idx;
    while (k >= p) { k -= p; p *= X_N; ++len; }
    int sym[8]; for (int i = 0; i < len; ++i) { sym[i] = (int)(k % X_N); k /= X_N; }
    reset_all();
    bool after = false; char desc[128]; size_t dl = 0;
    for (int i = 0; i < len && !g_bad; ++i) {
        bool had = g_had_ctor; g_state_changed = false;
        guard_begin();
        switch (sym[i]) {
        case X_CREATE0: op_create(rng, 0, false); break;
        case X_CREATE1: op_create(rng, 1, false); break;
        case X_ENABLE0: op_enable(rng, 0); break;
        case X_ENABLE1: op_enable(rng, 1); break;
        case X_LOAD: op_load(rng, false); break;
        case X_DECODE: op_decode(rng, i & 1, false); break;
        case X_CRYPT: op_crypt(rng); break;
        case X_OBSERVE: op_getters(rng); op_encode(rng); op_keygen(rng); break;
        case X_FREE: op_free(rng, false); break;
        case X_REINJECT: op_reinject(); break;
        }
        guard_end(XN[sym[i]], sym[i] == X_ENABLE0 || sym[i] == X_ENABLE1 || sym[i] == X_REINJECT);
        seq(0x1000 + (uint64_t)sym[i]);
        PV_COUNT("evaluations", 1);
        if (had && g_state_changed) after = true;
        observe_others(-2, XN[sym[i]], rng);
        dl += (size_t)snprintf(desc + dl, sizeof desc - dl, "%s%s", i ? "," : "", XN[sym[i]]);
    }
    PV_COUNT("exhaustive.sequences", 1);
    if (!g_bad && after) PV_DISTINCT("nontrivial", pv_mix(0xe4, idx));
    if (idx % 2500 == 1111) pv_sample("exhaustive", "[%s]", desc);
}

/* ---------------------------------------------------------------- (c) the public header as a caller's compiler sees it
 * Queries and mutations are made by direct API calls inside ONE function of this (optimised) translation unit, on the
 * same pointer value: whatever the declarations in polyseed.h promise to the optimiser (attributes, qualifiers) must be
 * true, otherwise the second query is folded into the first one. */
__attribute__((noinline)) static void direct_sequence(polyseed_data* s, const char* pw, int* e0, int* e1, unsigned* f0, unsigned* f1, uint64_t* b0, uint64_t* b1, uint8_t* img0, uint8_t* img1) {
    *e0 = polyseed_is_encrypted(s); *f0 = polyseed_get_feature(s, 7); *b0 = polyseed_get_birthday(s); polyseed_store(s, img0);
    polyseed_crypt(s, pw);
    *e1 = polyseed_is_encrypted(s); *f1 = polyseed_get_feature(s, 7); *b1 = polyseed_get_birthday(s); polyseed_store(s, img1);
}
__attribute__((noinline)) static void direct_reuse(unsigned fa, unsigned fb, uint64_t ta, uint64_t tb, unsigned* qa, unsigned* qb, uint64_t* ba, uint64_t* bb, int* same_address) {
    polyseed_data* s = NULL; *qa = *qb = 99; *ba = *bb = 0; *same_address = 0;
    pv_w->time_value = ta;
    if (polyseed_create(fa, &s) != POLYSEED_OK) return;
    polyseed_data* first = s;
    *qa = polyseed_get_feature(s, 7); *ba = polyseed_get_birthday(s);
    polyseed_free(s);
    pv_w->time_value = tb;
    if (polyseed_create(fb, &s) != POLYSEED_OK) return;
    *same_address = (s == first);
    *qb = polyseed_get_feature(s, 7); *bb = polyseed_get_birthday(s);
    polyseed_free(s);
}
static uint64_t n_direct(void) { return pv_scaled(3000, 100000); }
static void run_direct(uint64_t idx, pv_rng* rng) {
    reset_all();
    pv_api_enable_features(7); M_mask = 7;
    pv_mseed m; pv_gen_mseed(rng, 7, true, &m);
    polyseed_data* s = pv_seed_from_model(&m);
    if (!s) return;
    int e0, e1; unsigned f0, f1; uint64_t b0, b1; uint8_t* i0 = malloc(32); uint8_t* i1 = malloc(32);
    pv_world_begin("direct-sequence"); direct_sequence(s, "direct", &e0, &e1, &f0, &f1, &b0, &b1, i0, i1); pv_world_end();
    PV_COUNT("evaluations", 1); PV_COUNT("direct.sequences", 1);
    if (e0 != (int)((m.features >> 4) & 1) || e1 != !e0) vio("direct-calls", "stale-or-wrong-query", "is_encrypted before/after a direct polyseed_crypt call in the same function: %d then %d (seed features %u)", e0, e1, m.features);
    if (f0 != (m.features & 7) || f1 != f0 || b0 != pv_m_birthday_time(m.birthday) || b1 != b0) vio("direct-calls", "stale-or-wrong-query", "get_feature %u/%u, get_birthday %llu/%llu around crypt (model features %u)", f0, f1, (unsigned long long)b0, (unsigned long long)b1, m.features & 7);
    if (!memcmp(i0 + 10, i1 + 10, 19) && !(idx & 0)) { /* a mask of all zero is astronomically unlikely with the argument-mixing KDF */ vio("direct-calls", "store-folded", "polyseed_store output identical before and after crypt"); }
    pv_api_free(s); free(i0); free(i1);
    /* the same pointer VALUE holding two different seeds one after the other (address-reusing allocator) */
    pv_w->reuse_mode = 1;
    unsigned fa = pv_randn(rng, 8), fb = (fa + 1 + pv_randn(rng, 7)) & 7, qa, qb; uint64_t ba, bb; int same;
    uint64_t ta = pv_m_birthday_time(pv_randn(rng, 1024)) + 3, tb = pv_m_birthday_time(pv_randn(rng, 1024)) + 3;
    pv_world_begin("direct-reuse"); direct_reuse(fa, fb, ta, tb, &qa, &qb, &ba, &bb, &same); pv_world_end();
    pv_w->reuse_mode = 0; if (pv_w->cache_ptr) { free(pv_w->cache_base); pv_w->cache_ptr = NULL; }
    PV_COUNT("evaluations", 1); if (same) PV_COUNT("direct.same_address_two_seeds", 1);
    if (qa != fa || qb != fb || ba != pv_m_birthday_time(pv_m_birthday_of(ta)) || bb != pv_m_birthday_time(pv_m_birthday_of(tb)))
        vio("direct-calls", "stale-or-wrong-query", "two seeds created one after the other%s: features asked %u,%u got %u,%u; birthdays %llu,%llu", same ? " at the same address" : "", fa, fb, qa, qb, (unsigned long long)ba, (unsigned long long)bb);
    else PV_DISTINCT("nontrivial", pv_mix(pv_mseed_hash(&m), idx ^ 0xd12ec7));
}


/* ---------------------------------------------------------------- one operation with an argument of more than 2^32 bytes
 * "every finite sequence of API operations": a decode whose string is a valid phrase followed by one endless token, of a total
 * length that is exactly "the phrase" modulo 2^32, sits between ordinary operations on live seeds; the model says NUM_WORDS,
 * leaves every live seed as it was, and the following operations behave as ever */
static uint64_t n_hugeop(void) { return pv.scale_pct >= 100 ? 1 : 0; }
static void run_hugeop(uint64_t idx, pv_rng* rng) {
    (void)idx;
    pv_case_watchdog(600);
    pv_api_enable_features(3);
    pv_mseed m; pv_gen_mseed(rng, 3, true, &m); unsigned coin = pv_gen_coin(rng); pv_mlang* L = pv_lang_by_name("English");
    polyseed_data* live = pv_seed_from_model(&m); if (!live) return;
    char ph[2048]; size_t pl = pv_m_encode(&m, L, coin, ph, sizeof ph);
    uint64_t n = (1ull << 32) + pl, maplen = 0; char* big = pv_map_repeated(n, &maplen);
    if (!big) { PV_COUNT("hugeop.skipped(no address space)", 1); pv_api_free(live); return; }
    memcpy(big, ph, pl); big[pl] = ' ';
    pv_cur.in_ptr = NULL;
    for (int which = 0; which < 2; ++which) {
        polyseed_data* s = NULL; const polyseed_lang* lo = NULL; int st;
        if (which == 0) { pv_world_begin("polyseed_decode"); st = polyseed_decode(big, (polyseed_coin)coin, &lo, &s); pv_world_end(); }
        else { pv_world_begin("polyseed_decode_explicit"); st = polyseed_decode_explicit(big, (polyseed_coin)coin, L->lib, &s); pv_world_end(); }
        PV_COUNT("evaluations", 1);
        if (st != POLYSEED_ERR_NUM_WORDS) { pv_violation("C13/huge-argument/status-differs-from-model", "%s of a %llu-byte string (a valid phrase followed by one endless token): %s, model ERR_NUM_WORDS", which ? "decode_explicit" : "decode", (unsigned long long)n, pv_status_name(st)); if (st == POLYSEED_OK) pv_api_free(s); }
        else PV_COUNT("hugeop.status_equals_model", 1);
    }
    munmap(big, maplen);
    /* the live seed and the library behave as before */
    uint8_t a[32], b[32]; pv_api_store(live, a); pv_m_image(&m, b);
    char* out = malloc(POLYSEED_STR_SIZE); pv_api_encode(live, L->lib, coin, out);
    if (memcmp(a, b, 32) || strcmp(out, ph)) pv_violation("C13/huge-argument/later-operations-differ", "after the huge decode a live seed stores/encodes differently from the model");
    else { PV_COUNT("hugeop.later_operations_equal_model", 1); PV_DISTINCT("nontrivial", pv_mix(0x4096e, n)); }
    free(out); pv_api_free(live);
}
static void fini(void) { reset_all(); if (pv.scale_pct >= 100) pv_set_flag(pv.tier ? "exhaustive.all_sequences_up_to_length_5" : "exhaustive.all_sequences_up_to_length_4", true); }
int main(int argc, char** argv) {
    static const pv_section secs[] = { { "walks", n_walks, run_walks }, { "endurance", n_endur, run_endur }, { "exhaustive", n_exh, run_exh }, { "direct", n_direct, run_direct }, { "hugeop", n_hugeop, run_hugeop } };
    return pv_main(argc, argv, "C13", secs, 5, init, fini);
}
