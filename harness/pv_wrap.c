/* pv_wrap.c — link-time interposition (-Wl,--wrap=...) of the libc entry points the library could reach.
 * Calls are counted only while a library call is in progress (pv_in_lib); the monitors' own libc use is not. */
#define _GNU_SOURCE
#include "pv.h"
#include <time.h>
#include <sys/time.h>
#include <sys/types.h>

uint64_t pv_wrap_count[PV_WRAP_N];
int pv_wrap_time_scripted; time_t pv_wrap_time_value;
static const char* const NAMES[PV_WRAP_N] = { "malloc", "free", "calloc", "realloc", "time", "clock_gettime", "gettimeofday", "getrandom", "getentropy", "rand", "random", "open", "fopen", "clock",
    "mktime", "timegm", "gmtime", "gmtime_r", "localtime", "localtime_r" };
const char* pv_wrap_name(int i) { return NAMES[i]; }
#define HIT(i) do { if (pv_in_lib) __atomic_fetch_add(&pv_wrap_count[i], 1, __ATOMIC_RELAXED); } while (0)

void* __real_malloc(size_t); void __real_free(void*); void* __real_calloc(size_t, size_t); void* __real_realloc(void*, size_t);
time_t __real_time(time_t*); int __real_clock_gettime(clockid_t, struct timespec*); int __real_gettimeofday(struct timeval*, void*);
ssize_t __real_getrandom(void*, size_t, unsigned); int __real_getentropy(void*, size_t); int __real_rand(void); long __real_random(void);
int __real_open(const char*, int, ...); FILE* __real_fopen(const char*, const char*); clock_t __real_clock(void);

/* the libc allocator can run out of memory too: when armed, the k-th malloc/calloc/realloc made inside a library call returns NULL */
long pv_wrap_malloc_fail_countdown; uint64_t pv_wrap_malloc_refused;
static int refuse(void) { if (pv_in_lib && pv_wrap_malloc_fail_countdown > 0 && --pv_wrap_malloc_fail_countdown == 0) { ++pv_wrap_malloc_refused; return 1; } return 0; }
void* __wrap_malloc(size_t n) { HIT(PV_WRAP_MALLOC); if (refuse()) return NULL; return __real_malloc(n); }
void __wrap_free(void* p) { HIT(PV_WRAP_FREE); __real_free(p); }
void* __wrap_calloc(size_t a, size_t b) { HIT(PV_WRAP_CALLOC); if (refuse()) return NULL; return __real_calloc(a, b); }
void* __wrap_realloc(void* p, size_t n) { HIT(PV_WRAP_REALLOC); if (refuse()) return NULL; return __real_realloc(p, n); }
time_t __wrap_time(time_t* t) {
    HIT(PV_WRAP_TIME);
    if (pv_in_lib && pv_wrap_time_scripted) { if (t) *t = pv_wrap_time_value; return pv_wrap_time_value; }
    return __real_time(t);
}
int __wrap_clock_gettime(clockid_t c, struct timespec* ts) { HIT(PV_WRAP_CLOCK_GETTIME); return __real_clock_gettime(c, ts); }
int __wrap_gettimeofday(struct timeval* tv, void* tz) { HIT(PV_WRAP_GETTIMEOFDAY); return __real_gettimeofday(tv, tz); }
ssize_t __wrap_getrandom(void* b, size_t n, unsigned f) { HIT(PV_WRAP_GETRANDOM); return __real_getrandom(b, n, f); }
int __wrap_getentropy(void* b, size_t n) { HIT(PV_WRAP_GETENTROPY); return __real_getentropy(b, n); }
int __wrap_rand(void) { HIT(PV_WRAP_RAND); return __real_rand(); }
long __wrap_random(void) { HIT(PV_WRAP_RANDOM); return __real_random(); }
int __wrap_open(const char* p, int fl, ...) { HIT(PV_WRAP_OPEN); va_list ap; va_start(ap, fl); int mode = va_arg(ap, int); va_end(ap); return __real_open(p, fl, mode); }
FILE* __wrap_fopen(const char* p, const char* m) { HIT(PV_WRAP_FOPEN); return __real_fopen(p, m); }
clock_t __wrap_clock(void) { HIT(PV_WRAP_CLOCK); return __real_clock(); }

/* calendar conversions: they bring the process environment (TZ, zone database) into the result */
time_t __real_mktime(struct tm*); time_t __real_timegm(struct tm*); struct tm* __real_gmtime(const time_t*); struct tm* __real_gmtime_r(const time_t*, struct tm*);
struct tm* __real_localtime(const time_t*); struct tm* __real_localtime_r(const time_t*, struct tm*);
time_t __wrap_mktime(struct tm* t) { HIT(PV_WRAP_MKTIME); return __real_mktime(t); }
time_t __wrap_timegm(struct tm* t) { HIT(PV_WRAP_TIMEGM); return __real_timegm(t); }
struct tm* __wrap_gmtime(const time_t* t) { HIT(PV_WRAP_GMTIME); return __real_gmtime(t); }
struct tm* __wrap_gmtime_r(const time_t* t, struct tm* r) { HIT(PV_WRAP_GMTIME_R); return __real_gmtime_r(t, r); }
struct tm* __wrap_localtime(const time_t* t) { HIT(PV_WRAP_LOCALTIME); return __real_localtime(t); }
struct tm* __wrap_localtime_r(const time_t* t, struct tm* r) { HIT(PV_WRAP_LOCALTIME_R); return __real_localtime_r(t, r); }
