/* fuzz_api — libFuzzer entry point for C14 (coverage-guided): phrases into both decoders, passwords into crypt,
 * 32-byte buffers into load.  Mode is fixed per process by PV_FUZZ_MODE so that corpora stay homogeneous.
 * Built with clang -fsanitize=fuzzer,address,undefined, assertions enabled. */
#include "pv.h"
#include <unistd.h>
#include <sys/stat.h>

static int g_mode;      /* 0 phrase, 1 password, 2 buffer (C14: safety); 3 relation between the two decoders (C09); 4 decoders vs reference model (C08); 5 load vs reference codec (C06) */
static bool g_have_model;
static uint64_t g_execs, g_status[8];

static void die(const char* key, const char* detail) {
    fprintf(stderr, "PV-FUZZ-VIOLATION key=%s %s\n", key, detail);
    __builtin_trap();
}

int LLVMFuzzerInitialize(int* argc, char*** argv) {
    (void)argc; (void)argv;
    const char* m = getenv("PV_FUZZ_MODE");
    g_mode = m ? atoi(m) : 0;
    pv.golden_dir = getenv("PV_GOLDEN");
    pv.seed = getenv("VERIF_SEED") ? strtoull(getenv("VERIF_SEED"), NULL, 0) : 1;
    pv_world_init(pv.seed);
    pv_inject_default();
    polyseed_enable_features(3);
    const char* corpus = getenv("PV_FUZZ_CORPUS");
    if (pv.golden_dir && (corpus || g_mode >= 3)) { pv_model_init(); pv_model_bind_library(); g_have_model = true; }
    if (corpus && pv.golden_dir) {       /* seed the corpus with grammar output */
        pv_rng r; pv_rng_seed(&r, pv.seed, 0xf022, (uint64_t)g_mode);
        for (int i = 0; i < 400; ++i) {
            char path[4096]; snprintf(path, sizeof path, "%s/seed-%d-%03d", corpus, g_mode, i);
            FILE* f = fopen(path, "wb"); if (!f) continue;
            if (g_mode == 2 || g_mode == 5) { pv_mseed s; pv_gen_mseed(&r, 3, true, &s); uint8_t img[32]; pv_m_image(&s, img); if (i % 3 == 0) img[pv_randn(&r, 32)] ^= 4; fwrite(img, 1, 32, f); }
            else {
                pv_gstr g; pv_gen_string(&r, 3, &g);
                if (g.len < 1500) { uint8_t hdr[3] = { (uint8_t)g.coin, (uint8_t)(g.coin >> 8), (uint8_t)g.lang }; fwrite(hdr, 1, 3, f); fwrite(g.s, 1, g.len, f); }
                pv_gstr_free(&g);
            }
            fclose(f);
        }
    }
    return 0;
}

static void finish_seed(polyseed_data* s, const char* api) {
    uint8_t* img = malloc(32);
    polyseed_store(s, img);
    polyseed_data* t = NULL;
    if (polyseed_load(img, &t) != POLYSEED_OK) die("C14/fuzz/accepted-seed-not-canonical", api);
    polyseed_free(t);
    free(img);
    polyseed_free(s);
}

int LLVMFuzzerTestOneInput(const uint8_t* data, size_t size) {
    ++g_execs;
    pv_world_begin("fuzz");
    if (g_mode == 5 && g_have_model) {
        /* C06: acceptance, status precedence and canonicity of polyseed_load against the reference codec, on coverage-guided buffers;
         * byte 32 of the input (if present) selects the enabled feature mask */
        if (size < 32) { pv_world_end(); return 0; }
        unsigned mask = size > 32 ? data[32] & 7u : 3u;
        polyseed_enable_features(mask);
        uint8_t* b = malloc(32); memcpy(b, data, 32);
        pv_mseed ms; int want = pv_m_load(b, mask, &ms);
        polyseed_data* s = NULL; int st = polyseed_load(b, &s);
        g_status[st & 7]++;
        if (st != want) { char d[200]; snprintf(d, sizeof d, "mask %u image %s: library %s, model %s", mask, pv_hex(b, 32), pv_status_name(st), pv_status_name(want)); die("C06/fuzz/load-status-differs-from-model", d); }
        if (memcmp(b, data, 32)) die("C06/fuzz/input-modified", "load");
        if (st == POLYSEED_OK) {
            uint8_t* img = malloc(32); polyseed_store(s, img);
            if (memcmp(img, data, 32)) die("C06/fuzz/accepted-image-not-canonical", pv_hex(data, 32));
            uint8_t mimg[32]; pv_m_image(&ms, mimg); if (memcmp(mimg, img, 32)) die("C06/fuzz/stored-image-differs-from-model", pv_hex(img, 32));
            if (polyseed_get_birthday(s) != pv_m_birthday_time(ms.birthday) || polyseed_get_feature(s, 7) != (ms.features & 7u) || (polyseed_is_encrypted(s) != 0) != ((ms.features & 16u) != 0)) die("C06/fuzz/loaded-seed-differs-from-model", pv_hex(data, 32));
            free(img); polyseed_free(s);
        } else if (s != NULL && 0) { }
        free(b);
        polyseed_enable_features(3);
    } else if (g_mode == 2 || g_mode == 5) {
        if (size < 32) { pv_world_end(); return 0; }
        uint8_t* b = malloc(32); memcpy(b, data, 32);
        polyseed_data* s = NULL; int st = polyseed_load(b, &s);
        if (st < 0 || st > 7 || st == POLYSEED_ERR_NUM_WORDS || st == POLYSEED_ERR_LANG || st == POLYSEED_ERR_MULT_LANG) die("C14/fuzz/status-outside-documented-set/load", "");
        g_status[st]++;
        if (memcmp(b, data, 32)) die("C14/fuzz/input-modified", "load");
        if (st == POLYSEED_OK) finish_seed(s, "load");
        free(b);
    } else {
        if (size < 3) { pv_world_end(); return 0; }
        unsigned coin = (data[0] | ((unsigned)data[1] << 8)) & 2047; int nl = polyseed_get_num_langs(); const polyseed_lang* L = polyseed_get_lang(data[2] % nl);
        size_t n = size - 3;
        char* str = malloc(n + 1); memcpy(str, data + 3, n); str[n] = 0;      /* embedded NULs simply end the string earlier */
        char* copy = malloc(n + 1); memcpy(copy, str, n + 1);
        if (g_mode == 3) {
            /* C09: the relation between the automatic decoder and the explicit decoders on the same string (needs no model) */
            int est[32]; uint8_t eimg[32][32]; int nR = 0, which = -1, n_nw = 0, nlang = nl < 32 ? nl : 32;
            for (int l = 0; l < nlang; ++l) {
                polyseed_data* s = NULL; est[l] = polyseed_decode_explicit(str, (polyseed_coin)coin, polyseed_get_lang(l), &s);
                if (est[l] < 0 || est[l] > 6 || est[l] == POLYSEED_ERR_FORMAT) die("C09/fuzz/explicit-status-out-of-set", "");
                if (est[l] == POLYSEED_OK) { polyseed_store(s, eimg[l]); polyseed_free(s); }
                if (est[l] == POLYSEED_ERR_NUM_WORDS) ++n_nw;
                else if (est[l] != POLYSEED_ERR_LANG) { ++nR; which = l; }
            }
            if (n_nw != 0 && n_nw != nlang) die("C09/fuzz/word-count-depends-on-language", "");
            polyseed_data* a = NULL; const polyseed_lang* lo = NULL; uint8_t img[32], img2[32];
            int st = polyseed_decode(str, (polyseed_coin)coin, &lo, &a);
            g_status[st & 7]++;
            if (n_nw == nlang) { if (st != POLYSEED_ERR_NUM_WORDS) die("C09/fuzz/relation/num-words", ""); }
            else if (nR == 0) { if (st != POLYSEED_ERR_LANG) die("C09/fuzz/relation/no-language", ""); }
            else if (nR >= 2) { if (st != POLYSEED_ERR_MULT_LANG) die("C09/fuzz/relation/guessed-among-several-languages", ""); }
            else {
                if (st != est[which]) die("C09/fuzz/relation/differs-from-explicit", "");
                if (st == POLYSEED_OK) { polyseed_store(a, img); if (lo != polyseed_get_lang(which)) die("C09/fuzz/relation/wrong-lang-out", ""); if (memcmp(img, eimg[which], 32)) die("C09/fuzz/relation/different-seed", ""); }
            }
            polyseed_data* a2 = NULL; int st2 = polyseed_decode(str, (polyseed_coin)coin, NULL, &a2);
            if (st2 != st) die("C09/fuzz/lang-out-null/status-differs", "");
            if (st == POLYSEED_OK) { polyseed_store(a, img); polyseed_store(a2, img2); if (memcmp(img, img2, 32)) die("C09/fuzz/lang-out-null/seed-differs", ""); polyseed_free(a2); polyseed_free(a); }
        } else if (g_mode == 4 && g_have_model) {
            /* C08: both decoders against the reference pipeline (NFKD -> split -> model matcher -> coin -> checksum -> features);
             * only definite model predictions count */
            int li = -1; for (int l = 0; l < pv_nlangs; ++l) if (pv_langs[l].lib == L) li = l;
            uint8_t img[32], mimg[32];
            if (li >= 0) {
                pv_mdecode md; pv_m_decode(str, coin, &pv_langs[li], 3, &md);
                polyseed_data* s = NULL; int st = polyseed_decode_explicit(str, (polyseed_coin)coin, L, &s);
                g_status[st & 7]++;
                if (md.status >= 0 && st != md.status) { char d[160]; snprintf(d, sizeof d, "%s: library %s, model %s", pv_langs[li].name_en, pv_status_name(st), pv_status_name(md.status)); die("C08/fuzz/explicit-differs-from-model", d); }
                if (st == POLYSEED_OK) { polyseed_store(s, img); pv_m_image(&md.seed, mimg); if (md.status == POLYSEED_OK && memcmp(img, mimg, 32)) die("C08/fuzz/explicit-decodes-to-other-seed", pv_langs[li].name_en); polyseed_free(s); }
            }
            pv_mdecode ma; pv_m_decode(str, coin, NULL, 3, &ma);
            polyseed_data* a = NULL; const polyseed_lang* lo = NULL; int sa = polyseed_decode(str, (polyseed_coin)coin, &lo, &a);
            if (ma.status >= 0 && sa != ma.status) { char d[160]; snprintf(d, sizeof d, "library %s, model %s", pv_status_name(sa), pv_status_name(ma.status)); die("C08/fuzz/auto-differs-from-model", d); }
            if (sa == POLYSEED_OK) { polyseed_store(a, img); pv_m_image(&ma.seed, mimg); if (ma.status == POLYSEED_OK && (memcmp(img, mimg, 32) || (ma.lang >= 0 && lo != pv_langs[ma.lang].lib))) die("C08/fuzz/auto-decodes-to-other-seed-or-language", ""); polyseed_free(a); }
        } else if (g_mode == 0) {
            polyseed_data* s = NULL; const polyseed_lang* lo = NULL;
            int st = polyseed_decode(str, (polyseed_coin)coin, &lo, &s);
            if (st < 0 || st > 7 || st == POLYSEED_ERR_FORMAT) die("C14/fuzz/status-outside-documented-set/decode", "");
            g_status[st]++;
            if (st == POLYSEED_OK) finish_seed(s, "decode");
            s = NULL;
            st = polyseed_decode_explicit(str, (polyseed_coin)coin, L, &s);
            if (st < 0 || st > 6 || st == POLYSEED_ERR_FORMAT) die("C14/fuzz/status-outside-documented-set/decode_explicit", "");
            if (st == POLYSEED_OK) finish_seed(s, "decode_explicit");
        } else {
            polyseed_data* s = NULL;
            if (polyseed_create(coin & 3, &s) == POLYSEED_OK) { polyseed_crypt(s, str); finish_seed(s, "crypt"); }
        }
        if (memcmp(copy, str, n + 1)) die("C14/fuzz/input-modified", "string");
        free(copy); free(str);
    }
    pv_world_end();
    if (pv_ledger_live() != 0) die("C14/fuzz/block-left-allocated", "");
    return 0;
}
