/* pv_gen.c — grammar-based string generator shared by C09, C13, C14, C19 (DESIGN 2.4) */
#include "pv.h"

static const char* const CLS[] = {
    "valid", "abbreviated", "accent-edit", "token-edit", "foreign-word", "empty-token", "separator-edit", "count-edit",
    "length-edit", "unicode", "raw-bytes", "ambiguous", "wrong-checksum", "reserved-feature", "trailing-space", "case-edit", "byte-edit", "invisible-affix", "token-count-2^8",
};
enum { G_VALID, G_ABBREV, G_ACCENT, G_TOKEN, G_FOREIGN, G_EMPTY, G_SEP, G_COUNT, G_LENGTH, G_UNICODE, G_BYTES, G_AMBIG, G_CHECKSUM, G_RESERVED, G_TRAIL, G_CASE, G_BYTEEDIT, G_AFFIX, G_MANYTOK, G_N };
/* code points whose UTF-8 encodings are the byte-wise neighbours of the combining-mark block U+0300-U+036F (CC 80 .. CD AF) */
static const uint32_t EDGE_CP[] = { 0x2ff, 0x300, 0x33f, 0x340, 0x34f, 0x36f, 0x370, 0x371, 0x37e, 0x37f, 0x380, 0x2c0, 0x3b1 };
#define N_EDGE_CP (sizeof EDGE_CP / sizeof *EDGE_CP)

typedef struct tokv { char* t[40]; int n; } tokv;
static void tv_free(tokv* v) { for (int i = 0; i < v->n; ++i) free(v->t[i]); v->n = 0; }
static char* cp_to_utf8(const uint32_t* cp, int n) {
    char* s = pv_xmalloc((size_t)n * 4 + 1); int k = 0;
    for (int i = 0; i < n; ++i) k += pv_utf8_encode(cp[i], s + k);
    s[k] = 0; return s;
}
static void words_of(const pv_mlang* L, const unsigned d[16], tokv* v) {
    v->n = 16;
    for (int i = 0; i < 16; ++i) v->t[i] = pv_exact_str(L->word[d[i]]);
}
/* prefix of k letters (accents following a kept letter are kept or dropped by `keep_accents`) */
static char* abbreviate(const pv_mlang* L, const char* w, int k, bool keep_accents) {
    uint32_t cp[128], out[128]; int n = pv_utf8_decode(w, cp, 128), m = 0, letters = 0;
    if (n < 0) return pv_exact_str(w);
    for (int i = 0; i < n; ++i) {
        bool acc = L->accents && pv_is_accent(cp[i]);
        if (!acc) { if (letters == k) break; ++letters; out[m++] = cp[i]; }
        else if (keep_accents) out[m++] = cp[i];
    }
    return cp_to_utf8(out, m);
}
static int letters_of(const pv_mlang* L, const char* w) {
    uint32_t cp[128]; int n = pv_utf8_decode(w, cp, 128), k = 0;
    for (int i = 0; i < n; ++i) if (!(L->accents && pv_is_accent(cp[i]))) ++k;
    return k;
}
static char* join_v(const tokv* v, const char* sep) {
    size_t n = 1, sl = strlen(sep);
    for (int i = 0; i < v->n; ++i) n += strlen(v->t[i]) + sl;
    char* s = pv_xmalloc(n); size_t k = 0;
    for (int i = 0; i < v->n; ++i) { size_t l = strlen(v->t[i]); memcpy(s + k, v->t[i], l); k += l; if (i + 1 < v->n) { memcpy(s + k, sep, sl); k += sl; } }
    s[k] = 0; return s;
}
static uint32_t rand_cp(pv_rng* r) {
    for (;;) {
        uint32_t k = pv_randn(r, 13), c;
        switch (k) {
        case 12: c = EDGE_CP[pv_randn(r, N_EDGE_CP)]; break;
        case 0: c = 0x20 + pv_randn(r, 0x5f); break;
        case 1: c = 0xa0 + pv_randn(r, 0x160); break;              /* Latin-1 / Latin Extended */
        case 2: c = 0x300 + pv_randn(r, 0x70); break;              /* combining marks */
        case 3: c = 0x3040 + pv_randn(r, 0xc0); break;             /* kana */
        case 4: c = 0xac00 + pv_randn(r, 11172); break;            /* Hangul syllables */
        case 5: c = 0x1100 + pv_randn(r, 0x100); break;            /* jamo */
        case 6: c = 0x4e00 + pv_randn(r, 0x5200); break;           /* CJK */
        case 7: c = 0xff00 + pv_randn(r, 0xf0); break;             /* fullwidth / halfwidth */
        case 8: { static const uint32_t sp[] = { 0x3000, 0xa0, 0x2003, 0x09, 0x0a, 0x200b, 0xfeff, 0x2028 }; c = sp[pv_randn(r, 8)]; break; }
        case 9: c = 0x10000 + pv_randn(r, 0x20000); break;
        case 10: c = 1 + pv_randn(r, 0x1f); break;                 /* control characters */
        default: c = 1 + pv_randn(r, 0xfffe); break;
        }
        if (c >= 0xd800 && c <= 0xdfff) continue;
        if (c == 0) continue;
        return c;
    }
}

void pv_gen_string(pv_rng* r, unsigned enabled, pv_gstr* g) {
    memset(g, 0, sizeof *g);
    int cls = (int)pv_randn(r, G_N);
    int li; do { li = (int)pv_randn(r, (uint32_t)pv_nlangs); } while (!pv_langs[li].lib);
    /* the slow linear-search languages are drawn a little less often */
    pv_mlang* L = &pv_langs[li];
    g->lang = li; g->coin = pv_gen_coin(r); g->cls = CLS[cls];
    pv_gen_mseed(r, enabled, true, &g->seed);
    if (cls == G_RESERVED) g->seed.features |= 8;
    unsigned d[16]; pv_m_coeffs(&g->seed, g->coin, d);
    if (cls == G_AMBIG) {
        int b = (int)pv_randn(r, (uint32_t)pv_nlangs);
        if (b == li || !pv_gen_ambiguous(r, li, b, g->coin, enabled, d, &g->seed)) { cls = G_VALID; g->cls = CLS[cls]; }
    }
    if (cls == G_CHECKSUM) { int p = (int)pv_randn(r, 16); d[p] = (d[p] + 1 + pv_randn(r, 2046)) & 2047; }
    tokv v; words_of(L, d, &v);
    const char* sep = " ";
    bool compose = L->compose && pv_randn(r, 2);
    if (!strcmp(L->key, "jp") && pv_randn(r, 2)) sep = L->sep;
    switch (cls) {
    case G_ABBREV:
        for (int i = 0; i < 16; ++i) if (pv_randn(r, 2)) {
            int nl = letters_of(L, v.t[i]); int k = 1 + (int)pv_randn(r, (uint32_t)nl);
            if (pv_randn(r, 3)) k = k < 4 ? 4 : k;                /* mostly permitted abbreviations */
            char* a = abbreviate(L, v.t[i], k, pv_randn(r, 2)); free(v.t[i]); v.t[i] = a;
        }
        break;
    case G_ACCENT:
        for (int i = 0; i < 16; ++i) if (i == 0 || pv_randn(r, 2)) {
            uint32_t cp[128], out[160]; int n = pv_utf8_decode(v.t[i], cp, 128), m = 0;
            if (pv_randn(r, 6) == 0) out[m++] = pv_randn(r, 4) ? 0x300 + pv_randn(r, 5) : EDGE_CP[pv_randn(r, N_EDGE_CP)];          /* a stray mark in front of the first letter (dead key typed first) */
            for (int k = 0; k < n; ++k) {
                if (pv_is_accent(cp[k]) && pv_randn(r, 2)) continue;             /* drop */
                out[m++] = cp[k];
                if (!pv_is_accent(cp[k]) && pv_randn(r, 12) == 0) out[m++] = pv_randn(r, 4) ? 0x300 + pv_randn(r, 5) : EDGE_CP[pv_randn(r, N_EDGE_CP)];   /* add */
            }
            free(v.t[i]); v.t[i] = cp_to_utf8(out, m);
        }
        break;
    case G_TOKEN: {
        int i = (int)pv_randn(r, 16); uint32_t cp[128], out[160]; int n = pv_utf8_decode(v.t[i], cp, 128), m = 0;
        int at = (int)pv_randn(r, (uint32_t)n + 1), how = (int)pv_randn(r, 3);
        for (int k = 0; k <= n; ++k) {
            if (k == at) { if (how == 0) out[m++] = 'a' + pv_randn(r, 26); else if (how == 1) { out[m++] = pv_randn(r, 2) ? rand_cp(r) : 'a' + pv_randn(r, 26); if (k < n) continue; } else if (k < n) continue; }
            if (k < n) out[m++] = cp[k];
        }
        free(v.t[i]); v.t[i] = cp_to_utf8(out, m);
        break; }
    case G_FOREIGN: {
        int i = (int)pv_randn(r, 16); int lo = (int)pv_randn(r, (uint32_t)pv_nlangs);
        free(v.t[i]); v.t[i] = pv_exact_str(pv_langs[lo].word[pv_randn(r, 2048)]);
        break; }
    case G_EMPTY: { int i = (int)pv_randn(r, 16); free(v.t[i]); v.t[i] = pv_exact_str(""); break; }
    case G_COUNT: {
        static const int counts[] = { 0, 1, 2, 15, 17, 18, 32, 33 };
        int want = counts[pv_randn(r, 8)];
        while (v.n > want) { free(v.t[--v.n]); }
        while (v.n < want && v.n < 40) { v.t[v.n] = pv_exact_str(L->word[pv_randn(r, 2048)]); v.n++; }
        break; }
    case G_CASE: { int i = (int)pv_randn(r, 16); if (v.t[i][0] >= 'a' && v.t[i][0] <= 'z') v.t[i][0] = (char)(v.t[i][0] - 32); break; }
    default: break;
    }
    char* s = join_v(&v, sep);
    tv_free(&v);
    if (cls == G_SEP) {
        /* rebuild with one edited separator */
        size_t n = strlen(s); char* t = pv_xmalloc(n + 16); size_t k = 0; int which = (int)pv_randn(r, 17), seen = 0, how = (int)pv_randn(r, 7);
        static const char* const alt[] = { "  ", "\xe3\x80\x80", "\xc2\xa0", "\t", "\n", "\xe3\x80\x80 ", "" };
        if (which == 16) { if (how & 1) { t[k++] = ' '; } memcpy(t + k, s, n); k += n; if (!(how & 1)) { t[k++] = ' '; t[k++] = ' '; } }
        else for (size_t i = 0; i < n; ++i) {
            if (s[i] == ' ' && seen++ == which) { size_t al = strlen(alt[how]); memcpy(t + k, alt[how], al); k += al; }
            else t[k++] = s[i];
        }
        t[k] = 0; free(s); s = t;
    }
    if (cls == G_BYTEEDIT) {
        /* one to three raw bytes inserted into / written over an otherwise valid phrase: lead bytes without continuation,
         * stray continuation bytes, the lead bytes of the combining-mark block in front of a letter, a space or the terminator */
        static const uint8_t RAW[] = { 0xCC, 0xCD, 0xCB, 0xCE, 0x80, 0xBF, 0xAF, 0xB0, 0xC3, 0xC2, 0xE3, 0xEA, 0xF0, 0xFF, 0xC0, 0xED, 0xA0 };
        size_t n = strlen(s); char* t = pv_xmalloc(n + 8); int edits = 1 + (int)pv_randn(r, 3);
        memcpy(t, s, n + 1);
        for (int e = 0; e < edits; ++e) {
            size_t len = strlen(t), at = pv_randn(r, 5) == 0 ? len : pv_randn(r, (uint32_t)len + 1);
            uint8_t b = RAW[pv_randn(r, sizeof RAW)];
            if (pv_randn(r, 2) && at < len) t[at] = (char)b;                                  /* overwrite */
            else { memmove(t + at + 1, t + at, len - at + 1); t[at] = (char)b; }              /* insert */
        }
        free(s); s = t;
    }
    if (cls == G_MANYTOK) {
        /* token counts around 2^8 (and 2^8 + 16, 2 * 2^8 + 16): N empty or one-letter tokens in front of or behind a valid phrase; a count
         * kept in eight bits turns 272 tokens into 16 */
        static const int NS[] = { 239, 240, 241, 255, 256, 257, 271, 272, 273, 496, 512 - 16, 512, 528 - 16 };
        int N = NS[pv_randn(r, sizeof NS / sizeof *NS)]; size_t n = strlen(s);
        bool letters = pv_randn(r, 3) == 0 && n + 2 * (size_t)N < POLYSEED_STR_SIZE - 1;
        if (!letters && n + (size_t)N >= POLYSEED_STR_SIZE - 1) N = (int)(POLYSEED_STR_SIZE - 2 - n);
        size_t add = (size_t)N * (letters ? 2 : 1); char* t = pv_xmalloc(n + add + 1); size_t k = 0; bool front = pv_randn(r, 2);
        if (!front) { memcpy(t, s, n); k = n; }
        for (int i = 0; i < N; ++i) { if (letters) { if (front) { t[k++] = (char)('a' + i % 26); t[k++] = ' '; } else { t[k++] = ' '; t[k++] = (char)('a' + i % 26); } } else t[k++] = ' '; }
        if (front) { memcpy(t + k, s, n); k += n; }
        t[k] = 0; free(s); s = t;
    }
    if (cls == G_AFFIX) {
        /* what editors, terminals, chat programs and copy-and-paste put around or into a phrase without the user seeing it: byte-order
         * mark, zero-width and directional marks, no-break and ideographic spaces, soft hyphen, tab, CR, LF, quotes.  None of them
         * belongs to a word or is the separator, so the decoders must treat them like any other foreign character */
        static const char* const INV[] = { "\xef\xbb\xbf", "\xe2\x80\x8b", "\xe2\x80\x8c", "\xe2\x80\x8d", "\xe2\x80\x8e", "\xe2\x80\x8f", "\xe2\x81\xa0", "\xc2\xa0", "\xc2\xad",
                                           "\t", "\r", "\n", "\r\n", "\xe3\x80\x80", "\"", "'", "\xe2\x80\x9c", "\xe2\x80\xa8", "\xef\xbf\xbe", "\x7f", "\x01", "\xef\xbb", "\xbb\xbf" };
        size_t n = strlen(s); int cnt = 1 + (int)pv_randn(r, 2); char* t = pv_xmalloc(n + 16);
        memcpy(t, s, n + 1);
        for (int e = 0; e < cnt; ++e) {
            const char* a = INV[pv_randn(r, sizeof INV / sizeof *INV)]; size_t al = strlen(a), len = strlen(t), at;
            uint32_t where = pv_randn(r, 4);
            if (where <= 1) at = 0; else if (where == 2) at = len; else { at = pv_randn(r, (uint32_t)len + 1); while (at < len && ((uint8_t)t[at] & 0xC0) == 0x80) ++at; }
            memmove(t + at + al, t + at, len - at + 1); memcpy(t + at, a, al);
        }
        free(s); s = t;
    }
    if (cls == G_TRAIL) { size_t n = strlen(s); char* t = pv_xmalloc(n + 8); memcpy(t, s, n); const char* tail = pv_randn(r, 2) ? " " : (pv_randn(r, 2) ? "\xe3\x80\x80" : "\xc2\xa0"); strcpy(t + n, tail); free(s); s = t; }
    if (cls == G_LENGTH) {
        /* pad towards the buffer boundary, or far beyond it */
        static const long targets[] = { -3, -2, -1, 0, 1, 2 };
        size_t n = strlen(s), want; uint32_t k = pv_randn(r, 10);
        if (k < 7) want = (size_t)((long)POLYSEED_STR_SIZE + targets[pv_randn(r, 6)]); else if (k < 9) want = 2 * POLYSEED_STR_SIZE + pv_randn(r, 64); else want = 65536;
        bool ascii = pv_randn(r, 2); int where = (int)pv_randn(r, 3);
        if (want > n) {
            size_t padn = want - n; char* pad = pv_xmalloc(padn + 4); size_t k2 = 0;
            while (k2 < padn) { if (ascii || padn - k2 < 2) pad[k2++] = (pv_randn(r, 9) == 0) ? ' ' : (char)('a' + pv_randn(r, 26)); else { pad[k2++] = (char)0xc3; pad[k2++] = (char)(0xa0 + pv_randn(r, 30)); } }
            pad[k2] = 0;
            char* t = pv_xmalloc(n + k2 + 2);
            if (where == 0) { memcpy(t, pad, k2); memcpy(t + k2, s, n + 1); }
            else if (where == 1) { memcpy(t, s, n); memcpy(t + n, pad, k2 + 1); }
            else { memcpy(t, s, n); t[n] = ' '; memcpy(t + n + 1, pad, k2 + 1); }
            free(pad); free(s); s = t;
        }
    }
    if (cls == G_UNICODE) {
        free(s); int n = 1 + (int)pv_randn(r, 120); uint32_t cp[130];
        for (int i = 0; i < n; ++i) cp[i] = pv_randn(r, 5) == 0 ? 0x20 : rand_cp(r);
        s = cp_to_utf8(cp, n);
    }
    if (cls == G_BYTES) {
        free(s); size_t n = pv_randn(r, 10) == 0 ? 300 + pv_randn(r, 700) : pv_randn(r, 200);
        s = pv_xmalloc(n + 1);
        for (size_t i = 0; i < n; ++i) { uint8_t b = (uint8_t)pv_rand64(r); if (pv_randn(r, 6) == 0) b = ' '; s[i] = (char)(b ? b : 0x80); }
        s[n] = 0;
    }
    if (compose && cls != G_BYTES && cls != G_BYTEEDIT && cls != G_AFFIX && cls != G_MANYTOK) { char* c = pv_nfc_alloc(s); free(s); s = c; }
    g->s = pv_exact_str(s);          /* exact-size block: a read past the terminator hits a red zone */
    free(s);
    g->len = strlen(g->s);
}
void pv_gstr_free(pv_gstr* g) { free(g->s); g->s = NULL; }

/* passwords for C12/C19/C14: ASCII, accented (NFC / NFD), Hangul syllables vs jamo, kana with dakuten, fullwidth, empty, long */
char* pv_gen_password(pv_rng* r, const char** cls_out) {
    static const char* const base[] = {
        "", "password", "correct horse battery staple", "contrase\xc3\xb1""a", "mot de passe \xc3\xa9t\xc3\xa9", "Stra\xc3\x9f""e\xc3\xbc\xc3\xb6",
        "\xed\x95\x9c\xea\xb5\xad\xec\x96\xb4 \xeb\xb9\x84\xeb\xb0\x80", "\xe3\x81\xb1\xe3\x81\x99\xe3\x82\x8f\xe3\x83\xbc\xe3\x81\xa9\xe3\x81\x8c", "\xef\xbd\x90\xef\xbd\x81\xef\xbd\x93\xef\xbd\x93\xef\xbc\x91",
        "\xe5\xaf\x86\xe7\xa0\x81\xe4\xb8\xad\xe6\x96\x87", "na\xc3\xafve caf\xc3\xa9 \xc3\x85ngstr\xc3\xb6m", "\xef\xac\x81nance \xe2\x84\xab \xc7\x86",
    };
    static const char* const names[] = { "empty", "ascii", "ascii-long", "spanish", "french", "german", "hangul", "kana-dakuten", "fullwidth", "chinese", "mixed-accents", "compat-ligatures" };
    int k = (int)pv_randn(r, 14);
    char* s;
    if (k < 12) { s = pv_exact_str(base[k]); if (cls_out) *cls_out = names[k]; }
    else if (k == 12) {       /* random Unicode */
        int n = 1 + (int)pv_randn(r, 40); uint32_t cp[48]; for (int i = 0; i < n; ++i) cp[i] = rand_cp(r);
        s = cp_to_utf8(cp, n); if (cls_out) *cls_out = "random-unicode";
    } else {                  /* long, up to what the buffer can hold after decomposition */
        int n = 20 + (int)pv_randn(r, (POLYSEED_STR_SIZE - 1) / 3 - 20); s = pv_xmalloc((size_t)n * 2 + 1); int m = 0;
        for (int i = 0; i < n; ++i) { if (pv_randn(r, 4) == 0) { s[m++] = (char)0xc3; s[m++] = (char)0xa9; } else s[m++] = (char)('a' + pv_randn(r, 26)); }
        s[m] = 0; if (cls_out) *cls_out = "long";
    }
    uint32_t form = pv_randn(r, 3);
    if (form == 1) { char* t = pv_nfc_alloc(s); free(s); s = t; }
    else if (form == 2) { char* t = pv_nfkd_alloc(s); free(s); s = t; }
    char* e = pv_exact_str(s); free(s);
    return e;
}
