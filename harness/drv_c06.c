/* drv_c06 — serialized seeds are lossless, canonical and strictly validated (DESIGN 3/C06) */
#define _GNU_SOURCE
#include "pv.h"
#include <sys/mman.h>
#include <unistd.h>

static unsigned g_mask = 7;
static unsigned g_maskcalls;
/* "only the least significant 3 bits are used": half of the enabling calls carry arbitrary higher bits (the internal bit 3 among them) */
static void set_mask(unsigned m) { if (m != g_mask) { static const unsigned HI[] = { 0, 8, 0x18, 0xf8, 0xfffffff8u, 0x100, 0x80000008u }; pv_api_enable_features(m | HI[g_maskcalls++ % (sizeof HI / sizeof *HI)]); g_mask = m; } }

static void init(void) {
    pv_world_init(pv.seed);
    pv_model_init();
    pv_inject_default();
    pv_model_bind_library();
    pv_api_enable_features(7);
    pv_info("rule", "round trip store/load on boundary-biased seeds; acceptance around valid images: exhaustive sweeps of bytes 8-9 (2^16, with stale and with recomputed check value), "
                    "each header byte, byte 28, byte 29 and bytes 30-31 (2^16), 1-8 random bit flips, random buffers with and without valid framing, under rotating feature masks. "
                    "Oracle: load_spec of the model (first applicable of FORMAT, CHECKSUM, UNSUPPORTED); accepted buffers must satisfy store(load(b)) == b; no block may stay allocated "
                    "after a failed load. non-trivial = buffer whose status equalled the model's; distinct = distinct 32-byte buffers");
}

/* one load of an exact-size 32-byte heap buffer, judged against the model */
/* buffers are exact-size heap blocks that END at the block's end (red zone right behind) and START at every alignment
 * 0..7 in turn: the storage type is a byte array, callers may keep it at any address (e.g. inside a packed record) */
static unsigned g_align;
static uint8_t* buf_alloc(uint8_t** base) { unsigned off = g_align++ % 8; *base = malloc(32 + off); pv_countf(1, "buffers.alignment_mod8.%u", (unsigned)((uintptr_t)(*base + off) % 8)); return *base + off; }
/* the storage argument of polyseed_load is const: every 16th buffer lives on a read-only page and ends at an inaccessible one
 * (a write to it, or a read past its 32nd byte, faults) */
static uint8_t* g_rop; static long g_ps;
static uint8_t* ro_place(const uint8_t buf[32], unsigned off) {
    if (!g_rop) { g_ps = sysconf(_SC_PAGESIZE); g_rop = mmap(NULL, (size_t)g_ps * 2, PROT_READ | PROT_WRITE, MAP_PRIVATE | MAP_ANONYMOUS, -1, 0); if (g_rop == MAP_FAILED) pv_fatal("C06: mmap"); mprotect(g_rop + g_ps, (size_t)g_ps, PROT_NONE); }
    mprotect(g_rop, (size_t)g_ps, PROT_READ | PROT_WRITE);
    uint8_t* b = g_rop + g_ps - 32 - (off % 4) * 0;     /* ends exactly at the guard page */
    memcpy(b, buf, 32);
    mprotect(g_rop, (size_t)g_ps, PROT_READ);
    return b;
}
static void judge(const uint8_t buf[32], const char* cls) {
    static unsigned nth; bool ro = (++nth % 16) == 7;
    uint8_t* bbase = NULL; uint8_t* b;
    if (ro) { b = ro_place(buf, nth); PV_COUNT("buffers.on_a_read_only_page_before_a_guard_page", 1); }
    else { b = buf_alloc(&bbase); memcpy(b, buf, 32); }
    pv_mseed want; int ws = pv_m_load(b, g_mask, &want);
    int live0 = pv_ledger_live();
    polyseed_data* s = NULL;
    int st = pv_api_load(b, &s);
    PV_COUNT("evaluations", 1);
    pv_countf(1, "load.%s.%s", cls, pv_status_name(st));
    bool ok = true;
    if (memcmp(b, buf, 32)) { ok = false; pv_violation("C06/input-modified", "[%s] load changed its input buffer", cls); }
    if (st != ws) {
        ok = false;
        char key[128]; snprintf(key, sizeof key, "C06/status/%s-instead-of-%s", pv_status_name(st), pv_status_name(ws));
        pv_violation(key, "[%s] mask %u buffer %s: load -> %s, specification %s", cls, g_mask, pv_hex(buf, 32), pv_status_name(st), pv_status_name(ws));
    }
    if (st == POLYSEED_OK) {
        if (ws == POLYSEED_OK) {
            const char* mm = pv_seed_mismatch(s, &want, 0);
            if (mm) { ok = false; pv_violation("C06/loaded-seed-differs", "[%s] buffer %s: %s", cls, pv_hex(buf, 32), mm); }
        }
        uint8_t* obase; uint8_t* o = buf_alloc(&obase); pv_api_store(s, o);
        if (memcmp(o, buf, 32)) { ok = false; pv_violation("C06/not-canonical", "[%s] accepted buffer %s is stored back as %s", cls, pv_hex(buf, 32), pv_hex(o, 32)); }
        free(obase);
        pv_api_free(s);
    }
    if (pv_ledger_live() != live0) { ok = false; pv_violation("C06/seed-left-allocated", "[%s] %d blocks live after load -> %s and free", cls, pv_ledger_live() - live0, pv_status_name(st)); }
    if (ok) PV_DISTINCT("nontrivial", pv_hash(buf, 32, g_mask));
    free(bbase);
}

/* ---------------------------------------------------------------- round trip */
static uint64_t n_round(void) { return pv_scaled(60000, 15000000); }
static void run_round(uint64_t idx, pv_rng* rng) {
    set_mask((unsigned)(idx % 8));
    pv_mseed m; pv_gen_mseed(rng, g_mask, true, &m);
    uint8_t img[32]; pv_m_image(&m, img);
    polyseed_data* s = pv_seed_from_model(&m);
    PV_COUNT("evaluations", 1);
    if (!s) { pv_violation("C06/valid-image-rejected", "mask %u seed %s image %s", g_mask, pv_mseed_str(&m), pv_hex(img, 32)); return; }
    uint8_t* obase; uint8_t* o = buf_alloc(&obase);
    bool other = idx % 5 == 0;      /* storing does not depend on which features are enabled at the moment */
    if (other) { polyseed_enable_features(pv_randn(rng, 8)); PV_COUNT("roundtrip.stored_under_other_feature_mask", 1); }
    pv_api_store(s, o);
    if (other) polyseed_enable_features(g_mask);
    if (memcmp(o, img, 32)) pv_violation("C06/store-bytes", "seed %s: store %s, specification %s", pv_mseed_str(&m), pv_hex(o, 32), pv_hex(img, 32));
    else {
        polyseed_data* t = NULL; int st = pv_api_load(o, &t);
        if (st != POLYSEED_OK) pv_violation("C06/roundtrip", "load(store(s)) -> %s", pv_status_name(st));
        else { const char* mm = pv_seed_mismatch(t, &m, pv_randn(rng, 2048)); if (mm) pv_violation("C06/roundtrip", "load(store(s)) differs: %s", mm); else { PV_COUNT("roundtrip.ok", 1); PV_DISTINCT("nontrivial", pv_hash(img, 32, 99)); } pv_api_free(t); }
    }
    /* a seed created by the library (not by load) stores to the model image as well */
    if (idx % 4 == 0 && !(m.features & 16)) {
        uint8_t script[19]; memcpy(script, m.secret, 19); pv_set_rand_script(script, 19);
        pv_w->time_value = pv_m_birthday_time(m.birthday) + 17;
        polyseed_data* c = NULL;
        if (pv_api_create(m.features, &c) == POLYSEED_OK) { pv_api_store(c, o); if (memcmp(o, img, 32)) pv_violation("C06/store-bytes", "created seed %s: store %s, specification %s", pv_mseed_str(&m), pv_hex(o, 32), pv_hex(img, 32)); else PV_COUNT("roundtrip.created_ok", 1); pv_api_free(c); }
        pv_set_rand_prng();
    }
    /* created while the clock is outside the 1024-month range (a wallet used after 2107, a broken clock): the image must still
     * be the canonical image of what the getters report, and it must load */
    if (idx % 16 == 5 && !(m.features & 16)) {
        static const uint64_t ODD[] = { 0, 1, PV_EPOCH - 1, PV_EPOCH + 1024 * PV_STEP, PV_EPOCH + 1024 * PV_STEP + 1, PV_EPOCH + 1025 * PV_STEP, PV_EPOCH + 2047 * PV_STEP + 5, 1ull << 32, (1ull << 32) + PV_EPOCH, 1ull << 33, 1ull << 63, (1ull << 63) - 1, UINT64_MAX, UINT64_MAX - 1, 0xFFFFFFFF80000000ull };
        uint64_t t = ODD[(idx / 16) % (sizeof ODD / sizeof *ODD)];
        uint8_t script[19]; memcpy(script, m.secret, 19); pv_set_rand_script(script, 19); pv_w->time_value = t;
        polyseed_data* c = NULL;
        if (pv_api_create(m.features, &c) == POLYSEED_OK) {
            pv_mseed mc = m; mc.birthday = pv_m_birthday_of(t); uint8_t ci[32]; pv_m_image(&mc, ci);
            pv_api_store(c, o);
            if (memcmp(o, ci, 32)) pv_violation("C06/store-bytes", "seed created at clock %llu: store %s, specification %s", (unsigned long long)t, pv_hex(o, 32), pv_hex(ci, 32));
            else { polyseed_data* t2 = NULL; int st = pv_api_load(o, &t2); if (st != POLYSEED_OK) pv_violation("C06/roundtrip", "seed created at clock %llu: load(store(s)) -> %s", (unsigned long long)t, pv_status_name(st)); else { pv_api_free(t2); PV_COUNT("roundtrip.created_with_out_of_range_clock_ok", 1); } }
            pv_api_free(c);
        }
        pv_set_rand_prng();
    }
    /* "a seed" is whatever the library hands out, by whatever path: restored from a phrase, encrypted and decrypted again, kept
     * encrypted on disk and decrypted after loading, or just encrypted - each must store to the canonical image of its abstract
     * value and load again (a check value or padding left stale by one of these paths shows here and nowhere else) */
    if (idx % 3 == 1) {
        int how = 2 + (int)((idx / 3) % 4);      /* decoded, crypt-twice, decrypted-copy, encrypted-once */
        pv_path_mask = g_mask;
        pv_mseed mp = m; polyseed_data* ps = NULL; const char* hn;
        if (how < PV_NPATHS) { ps = pv_seed_by_path(rng, &m, how, pv_gen_coin(rng)); hn = pv_path_name[how]; }
        else { hn = "encrypted-once"; ps = pv_seed_from_model(&m); if (ps) { pv_api_crypt(ps, pv_randn(rng, 2) ? "pass" : "p\xc3\xa4ss \xef\xac\x81"); if (pv_w->nkdf == 1) { uint8_t mk[32]; memcpy(mk, pv_w->kdf[0].key_written, 32); pv_m_crypt(&mp, mk); } else { pv_api_free(ps); ps = NULL; } } }
        PV_COUNT("evaluations", 1);
        if (!ps) pv_violation("C06/cannot-obtain-seed", "[%s] %s under mask %u", hn, pv_mseed_str(&m), g_mask);
        else {
            uint8_t pi[32]; pv_m_image(&mp, pi);
            pv_api_store(ps, o);
            if (memcmp(o, pi, 32)) pv_violation("C06/store-bytes", "[%s] seed %s: store %s, specification %s", hn, pv_mseed_str(&mp), pv_hex(o, 32), pv_hex(pi, 32));
            else {
                polyseed_data* t = NULL; int st = pv_api_load(o, &t);
                if (st != POLYSEED_OK) pv_violation("C06/roundtrip", "[%s] load(store(s)) -> %s", hn, pv_status_name(st));
                else { const char* mm = pv_seed_mismatch(t, &mp, pv_randn(rng, 2048)); if (mm) pv_violation("C06/roundtrip", "[%s] load(store(s)) differs: %s", hn, mm); else pv_countf(1, "roundtrip.path.%s", hn); pv_api_free(t); }
            }
            pv_api_free(ps);
        }
    }
    if (idx < 3) pv_sample("roundtrip", "seed %s <-> %s", pv_mseed_str(&m), pv_hex(img, 32));
    free(obase); pv_api_free(s);
}

/* ---------------------------------------------------------------- exhaustive field sweeps around valid images */
#define SW_V1_STALE 0
#define SW_V1_FIXED 1
#define SW_FOOTER 2
#define SW_BYTES 3
static uint64_t n_fields(void) { return pv_scaled(3, 200) * (3 * 256 + 11); }
static void fix_check(uint8_t b[32]) {     /* recompute the check value for whatever the buffer now says (features/birthday/secret) */
    pv_mseed m; memset(&m, 0, sizeof m);
    unsigned v1 = b[8] | ((unsigned)b[9] << 8);
    m.birthday = v1 & 1023; m.features = (v1 >> 10) & 31; memcpy(m.secret, b + 10, 19); m.secret[18] &= 0x3f;
    unsigned c[16]; pv_m_pack(&m, c);
    unsigned v2 = 0x7000 | c[0]; b[30] = (uint8_t)v2; b[31] = (uint8_t)(v2 >> 8);
}
static void run_fields(uint64_t idx, pv_rng* rng) {
    uint64_t per = 3 * 256 + 11; uint64_t seed_i = idx / per; uint64_t k = idx % per;
    set_mask((unsigned)((seed_i * 3 + 7) % 8));
    pv_rng sr; pv_rng_seed(&sr, pv.seed, 0xc06, seed_i);
    pv_mseed m; pv_gen_mseed(&sr, g_mask, true, &m);
    (void)rng;
    uint8_t img[32]; pv_m_image(&m, img);
    uint8_t b[32];
    if (k < 768) {                       /* 256 values of the high byte x all 256 low bytes, three sweeps */
        int sweep = (int)(k / 256); unsigned hi = (unsigned)(k % 256);
        for (unsigned lo = 0; lo < 256; ++lo) {
            memcpy(b, img, 32);
            if (sweep == SW_V1_STALE) { b[8] = (uint8_t)lo; b[9] = (uint8_t)hi; judge(b, "bytes8-9.stale-check"); }
            else if (sweep == SW_V1_FIXED) { b[8] = (uint8_t)lo; b[9] = (uint8_t)hi; fix_check(b); judge(b, "bytes8-9.recomputed-check"); }
            else { b[30] = (uint8_t)lo; b[31] = (uint8_t)hi; judge(b, "bytes30-31"); }
        }
        PV_COUNT("fields.16bit_rows", 1);
    } else {
        int which = (int)(k - 768);      /* 0..7 header bytes, 8 = byte 28, 9 = byte 29, 10 = byte 28 with recomputed check */
        int pos = which < 8 ? which : which == 9 ? 29 : 28;
        for (unsigned v = 0; v < 256; ++v) {
            memcpy(b, img, 32); b[pos] = (uint8_t)v;
            if (which == 10) fix_check(b);
            judge(b, which < 8 ? "header-byte" : which == 9 ? "byte29" : which == 8 ? "byte28.stale-check" : "byte28.recomputed-check");
        }
        PV_COUNT("fields.8bit_rows", 1);
    }
}

/* ---------------------------------------------------------------- mutations and random buffers */
static uint64_t n_mutate(void) { return pv_scaled(150000, 40000000); }
static void run_mutate(uint64_t idx, pv_rng* rng) {
    set_mask((unsigned)(idx % 8));
    uint8_t b[32];
    uint32_t k = pv_randn(rng, 6);
    pv_mseed m; pv_gen_mseed(rng, 7, true, &m);      /* features drawn from all user bits: some are unsupported under the current mask */
    if (pv_randn(rng, 8) == 0) m.features |= 8;
    pv_m_image(&m, b);
    const char* cls;
    if (k == 0) { cls = "valid-or-unsupported"; }
    else if (k == 1) { cls = "bit-flips"; int n = 1 + (int)pv_randn(rng, 8); for (int i = 0; i < n; ++i) b[pv_randn(rng, 32)] ^= (uint8_t)(1u << pv_randn(rng, 8)); }
    else if (k == 2) { cls = "bit-flips+recomputed-check"; int n = 1 + (int)pv_randn(rng, 4); for (int i = 0; i < n; ++i) b[8 + pv_randn(rng, 21)] ^= (uint8_t)(1u << pv_randn(rng, 8)); fix_check(b); }
    else if (k == 3) { cls = "random"; pv_randbytes(rng, b, 32); }
    else if (k == 4) { cls = "random-with-framing"; pv_randbytes(rng, b + 8, 21); b[29] = 0xff; unsigned v2 = 0x7000 | pv_randn(rng, 2048); b[30] = (uint8_t)v2; b[31] = (uint8_t)(v2 >> 8); }
    else { cls = "random-with-framing+recomputed-check"; pv_randbytes(rng, b + 8, 21); b[9] &= 0x7f; b[28] &= 0x3f; b[29] = 0xff; fix_check(b); if (pv_randn(rng, 3) == 0) b[28] |= (uint8_t)(0x40 << pv_randn(rng, 2)); }
    judge(b, cls);
    if (idx < 6) pv_sample("mutate", "[%s] mask %u %s", cls, g_mask, pv_hex(b, 32));
}

/* ---------------------------------------------------------------- the same clauses while other threads load and store their own seeds */
static bool conc_iter(pv_rng* r, int iter, void* user, char* err, size_t errsz) {
    (void)iter; (void)user;
    uint8_t b[32], o[32]; pv_mseed m; pv_gen_mseed(r, 7, true, &m);
    pv_m_image(&m, b);
    uint32_t k = pv_randn(r, 4);
    if (k == 1) b[pv_randn(r, 32)] ^= (uint8_t)(1u << pv_randn(r, 8));
    else if (k == 2) { b[8 + pv_randn(r, 21)] ^= (uint8_t)(1u << pv_randn(r, 8)); }
    pv_mseed want; int ws = pv_m_load(b, 7, &want);
    uint8_t* in = malloc(32); memcpy(in, b, 32);
    polyseed_data* s = NULL; int st = pv_api_load(in, &s);
    bool ok = true;
    if (st != ws) { ok = false; snprintf(err, errsz, "load(%s) -> %s, specification %s", pv_hex(b, 32), pv_status_name(st), pv_status_name(ws)); }
    else if (st == POLYSEED_OK) {
        pv_api_store(s, o);
        if (memcmp(o, b, 32)) { ok = false; snprintf(err, errsz, "store(load(b)) = %s for b = %s", pv_hex(o, 32), pv_hex(b, 32)); }
        else { const char* mm = pv_seed_mismatch(s, &want, pv_randn(r, 2048)); if (mm) { ok = false; snprintf(err, errsz, "%s", mm); } }
    }
    if (memcmp(in, b, 32)) { ok = false; snprintf(err, errsz, "load modified its input"); }
    if (st == POLYSEED_OK) pv_api_free(s);
    free(in);
    return ok;
}
static uint64_t n_conc(void) { return pv_scaled(3, 100); }
static void run_conc(uint64_t idx, pv_rng* rng) {
    (void)idx; set_mask(7);
    enum { NT = 8, IT = 4000 }; static pv_conc_result res[NT];
    uint64_t seed = pv_rand64(rng);
    pv_concurrent(NT, IT, seed, 35, conc_iter, NULL, res);
    if (pv_concurrent_verdict(res, NT, IT, "C06/differs-under-concurrency", "concurrent.loads_equal_specification")) PV_DISTINCT("nontrivial", seed);
}

static void fini(void) { pv_set_flag("exhaustive.field_sweeps(bytes 8-9, 30-31, header, 28, 29 around sampled valid images)", true); }
int main(int argc, char** argv) {
    static const pv_section secs[] = { { "round", n_round, run_round }, { "fields", n_fields, run_fields }, { "mutate", n_mutate, run_mutate }, { "concurrent", n_conc, run_conc } };
    return pv_main(argc, argv, "C06", secs, 4, init, fini);
}
