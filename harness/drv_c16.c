/* drv_c16 — secret material is wiped from freed seeds and from temporaries (DESIGN 3/C16)
 *
 * (i)  at the moment the injected free receives a seed block it must be all-zero and covered by a logged memzero
 *      call of the same API call (verdict bits computed by the ledger in pv_world.c);
 * (ii) every monitored API call runs on a dedicated thread whose stack this driver owns (pre-filled with 0xA5);
 *      after the thread has been joined the dead stack below the trampoline frame is searched for needles derived
 *      from the model (secret bytes, phrase text, password, mask, runs of word indices).
 * Built without sanitizers (they change frame layout) at several optimisation levels, linked -z now. */
#define _GNU_SOURCE
#include "pv.h"
#include <pthread.h>
#include <sys/mman.h>
#include <unistd.h>

#define STK_SIZE (512 * 1024)
static uint8_t* stk;

enum { A_CREATE, A_ENCODE, A_DECODE, A_DECODE_EXPLICIT, A_LOAD, A_CRYPT, A_KEYGEN, A_STORE, A_FREE, A_GETTERS, A_NAPI };
static const char* const API_NAME[] = { "polyseed_create", "polyseed_encode", "polyseed_decode", "polyseed_decode_explicit", "polyseed_load",
                                        "polyseed_crypt", "polyseed_keygen", "polyseed_store", "polyseed_free", "getters" };
/* paths */
enum { P_OK, P_NUM_WORDS, P_LANG, P_MULT_LANG, P_CHECKSUM, P_MEMORY, P_UNSUPPORTED, P_FORMAT, P_LONG, P_BADUTF, P_NPATH };
static const char* const PATH_NAME[] = { "OK", "NUM_WORDS", "LANG", "MULT_LANG", "CHECKSUM", "MEMORY", "UNSUPPORTED", "FORMAT", "OVERLONG", "INVALID-UTF8(normaliser answers with an empty string)" };

typedef struct job {
    int api, path, lang;
    /* inputs (heap) */
    polyseed_data* seed; unsigned coin; unsigned features;
    char* str; uint8_t* buf32; char* out_str; uint8_t* key; size_t keylen;
    const polyseed_lang* liblang;
    bool arm_fail, bad_utf;
    /* outputs */
    int status; polyseed_data* seed_out; const polyseed_lang* lang_out; size_t ret;
    /* trampoline */
    void* frame_lo; pv_world* world;
} job;

static void job_run(job* j) {
    if (j->arm_fail) pv_w->fail_countdown = 1;
    /* evidence must survive the monitors: here the normalisers write their result and nothing else */
    { static unsigned rot; pv_w->norm_gentle = 1 + (int)(rot++ & 1); } pv_w->norm_invalid_empty = j->bad_utf;
    switch (j->api) {
    case A_CREATE: j->status = pv_api_create(j->features, &j->seed_out); break;
    case A_ENCODE: j->ret = pv_api_encode(j->seed, j->liblang, j->coin, j->out_str); break;
    case A_DECODE: j->status = pv_api_decode(j->str, j->coin, &j->lang_out, &j->seed_out); break;
    case A_DECODE_EXPLICIT: j->status = pv_api_decode_explicit(j->str, j->coin, j->liblang, &j->seed_out); break;
    case A_LOAD: j->status = pv_api_load(j->buf32, &j->seed_out); break;
    case A_CRYPT: pv_api_crypt(j->seed, j->str); break;
    case A_KEYGEN: pv_api_keygen(j->seed, j->coin, j->keylen, j->key); break;
    case A_STORE: pv_api_store(j->seed, j->buf32); break;
    case A_FREE: pv_api_free(j->seed); j->seed = NULL; break;
    case A_GETTERS: j->ret = pv_api_get_birthday(j->seed) + pv_api_get_feature(j->seed, 7) + (unsigned)pv_api_is_encrypted(j->seed); break;
    }
    pv_w->fail_countdown = 0; pv_w->norm_gentle = 0; pv_w->norm_invalid_empty = 0;
}
static void* trampoline(void* p) {
    job* j = p;
    pv_w = j->world;
    j->frame_lo = __builtin_frame_address(0);
    job_run(j);
    return NULL;
}
static void run_on_owned_stack(job* j) {
    memset(stk, 0xA5, STK_SIZE);
    pthread_attr_t a; pthread_attr_init(&a);
    if (pthread_attr_setstack(&a, stk, STK_SIZE)) pv_fatal("C16: pthread_attr_setstack failed");
    j->world = pv_w; j->frame_lo = NULL;
    pthread_t t;
    if (pthread_create(&t, &a, trampoline, j)) pv_fatal("C16: pthread_create failed");
    pthread_join(t, NULL);
    pthread_attr_destroy(&a);
    if (!j->frame_lo || (uint8_t*)j->frame_lo < stk || (uint8_t*)j->frame_lo > stk + STK_SIZE) pv_fatal("C16: trampoline frame outside the owned stack");
}

/* ---------------------------------------------------------------- needles */
enum { N_SECRET, N_PHRASE, N_PASSWORD, N_MASK, N_INDICES, N_WORDPTR, N_NKIND };
static const char* const NKIND[] = { "secret-bytes", "phrase-text", "password", "mask", "word-indices", "word-pointers" };
typedef struct needle { uint8_t b[160]; int n; int kind; int variant, cstart, crun, cwidth; } needle;
#define MAXNEEDLE 1024
typedef struct nset { needle v[MAXNEEDLE]; int n; unsigned coeff[4][16]; bool have_coeff; } nset;

static void add(nset* S, int kind, const void* b, int n) {
    if (S->n >= MAXNEEDLE || n > 160 || n <= 0) return;
    needle* x = &S->v[S->n++]; memset(x, 0, sizeof *x);
    memcpy(x->b, b, (size_t)n); x->n = n; x->kind = kind;
}
static void add_windows(nset* S, int kind, const uint8_t* b, int len, int win) {
    for (int i = 0; i + win <= len; ++i) {
        bool allzero = true; for (int k = 0; k < win; ++k) if (b[i + k]) allzero = false;
        if (!allzero) add(S, kind, b + i, win);
    }
}
/* the secret in the shapes that word-wise processing leaves behind: 8- and 4-byte groups loaded big-endian (bytes
 * reversed within the group, at every starting offset), and the bit string shifted by 1..7 bits (re-packing into
 * 10-bit shares walks through such intermediate values) */
static void add_secret_transforms(nset* S, const uint8_t* sec, int len) {
    uint8_t b[8];
    for (int i = 0; i + 8 <= len; ++i) {
        bool zero = true; for (int k = 0; k < 8; ++k) if (sec[i + k]) zero = false;
        if (zero) continue;
        for (int k = 0; k < 8; ++k) b[k] = sec[i + 7 - k]; add(S, N_SECRET, b, 8);                                   /* one reversed 8-byte group */
        for (int k = 0; k < 4; ++k) { b[k] = sec[i + 3 - k]; b[4 + k] = sec[i + 7 - k]; } add(S, N_SECRET, b, 8);     /* two reversed 4-byte groups */
    }
    for (int sh = 1; sh < 8; ++sh) for (int i = 0; i + 9 <= len; i += 2) {
        for (int k = 0; k < 8; ++k) b[k] = (uint8_t)((sec[i + k] << sh) | (sec[i + k + 1] >> (8 - sh)));
        bool zero = true; for (int k = 0; k < 8; ++k) if (b[k]) zero = false;
        if (!zero) add(S, N_SECRET, b, 8);
    }
}
static void add_phrase(nset* S, const char* phrase_nfkd_spaces) {
    /* tokens of >= 6 bytes and adjacent pairs joined by ' ', NUL, U+3000 — in NFKD and NFC form */
    for (int form = 0; form < 2; ++form) {
        char* s = form ? pv_nfc_alloc(phrase_nfkd_spaces) : pv_exact_str(phrase_nfkd_spaces);
        char* tok[64]; int nt = 0;
        for (char* p = strtok(s, " "); p && nt < 64; p = strtok(NULL, " ")) tok[nt++] = p;
        for (int i = 0; i < nt; ++i) {
            int l = (int)strlen(tok[i]);
            if (l >= 6) add(S, N_PHRASE, tok[i], l);
            if (i + 1 < nt) {
                int l2 = (int)strlen(tok[i + 1]);
                uint8_t b[160];
                static const char* const joins[3] = { " ", "\0", "\xe3\x80\x80" }; static const int jl[3] = { 1, 1, 3 };
                for (int jn = 0; jn < 3; ++jn) {
                    if (l + jl[jn] + l2 > 160) continue;
                    memcpy(b, tok[i], (size_t)l); memcpy(b + l, joins[jn], (size_t)jl[jn]); memcpy(b + l + jl[jn], tok[i + 1], (size_t)l2);
                    if (l + jl[jn] + l2 >= 7) add(S, N_PHRASE, b, l + jl[jn] + l2);
                }
            }
        }
        free(s);
    }
}
static int enc_run(const unsigned* c, int start, int run, int width, uint8_t* out) {
    int n = 0;
    for (int i = 0; i < run; ++i) { uint64_t v = c[start + i]; for (int k = 0; k < width; ++k) out[n++] = (uint8_t)(v >> (8 * k)); }
    return n;
}
static void add_coeffs(nset* S, const unsigned with_coin[16], const unsigned without_coin[16]) {
    memcpy(S->coeff[0], with_coin, sizeof S->coeff[0]); memcpy(S->coeff[1], without_coin, sizeof S->coeff[1]); S->have_coeff = true;
    /* variants 2 and 3: the 10 secret bits each word carries, i.e. the index shifted right by one ("shares"): an unpacked copy of the
     * secret in that form is the secret just as well */
    for (int i = 0; i < 16; ++i) { S->coeff[2][i] = with_coin[i] >> 1; S->coeff[3][i] = without_coin[i] >> 1; }
    static const int W[3] = { 8, 4, 2 }, RUN[3] = { 2, 2, 4 };
    for (int var = 0; var < 4; ++var) for (int w = 0; w < 3; ++w) for (int st = (var >= 2 ? 1 : 0); st + RUN[w] <= 16; ++st) {
        const unsigned* c = S->coeff[var];
        bool zero = false; for (int i = 0; i < RUN[w]; ++i) if (c[st + i] == 0) zero = true;
        if (zero) continue;
        if ((var & 1) && (st > 1 || st + RUN[w] <= 1)) continue;       /* identical to the with-coin variant unless the run covers word 2 */
        if (S->n >= MAXNEEDLE) return;
        needle* x = &S->v[S->n++]; memset(x, 0, sizeof *x);
        x->n = enc_run(c, st, RUN[w], W[w], x->b); x->kind = N_INDICES; x->variant = var; x->cstart = st; x->crun = RUN[w]; x->cwidth = W[w];
    }
}

/* pointers into the library's word tables are as good as the indices: for every word of the phrase the addresses of
 * its string(s) inside the read-only mappings of this executable are looked up and searched for as 8-byte values */
static struct { uint8_t* lo; uint8_t* hi; } g_img[16]; static int g_nimg = -1;
static void image_ranges(void) {
    g_nimg = 0;
    char exe[512]; ssize_t k = readlink("/proc/self/exe", exe, sizeof exe - 1); if (k <= 0) return; exe[k] = 0;
    FILE* f = fopen("/proc/self/maps", "r"); if (!f) return;
    char line[1024];
    while (fgets(line, sizeof line, f) && g_nimg < 16) {
        unsigned long a, b; char perms[8], path[600] = "";
        if (sscanf(line, "%lx-%lx %7s %*s %*s %*s %599s", &a, &b, perms, path) >= 3 && perms[0] == 'r' && perms[1] == '-' && !strcmp(path, exe)) { g_img[g_nimg].lo = (uint8_t*)a; g_img[g_nimg].hi = (uint8_t*)b; ++g_nimg; }
    }
    fclose(f);
}
static int word_addresses(const char* word, uint64_t out[4]) {
    if (g_nimg < 0) image_ranges();
    char pat[128]; size_t wl = strlen(word); if (wl + 2 > sizeof pat) return 0;
    pat[0] = 0; memcpy(pat + 1, word, wl); pat[wl + 1] = 0;
    int n = 0;
    for (int i = 0; i < g_nimg && n < 4; ++i) {
        uint8_t* p = g_img[i].lo;
        while (n < 4 && (size_t)(g_img[i].hi - p) >= wl + 2 && (p = memmem(p, (size_t)(g_img[i].hi - p), pat, wl + 2)) != NULL) { out[n++] = (uint64_t)(uintptr_t)(p + 1); p += 1; }
    }
    return n;
}
static void add_wordptrs(nset* S, const pv_mlang* L, const unsigned d[16]) {
    for (int i = 0; i < 16; ++i) {
        uint64_t a[4]; int n = word_addresses(L->word[d[i]], a);
        for (int k = 0; k < n && S->n < MAXNEEDLE; ++k) { needle* x = &S->v[S->n++]; memset(x, 0, sizeof *x); memcpy(x->b, &a[k], 8); x->n = 8; x->kind = N_WORDPTR; x->cstart = i; }
    }
}
typedef struct hit { int kind; long offset; needle nd; } hit;
static uint64_t g_bytes_scanned, g_needles_searched, g_static_scanned, g_tls_scanned;
static int scan(const job* j, const nset* S, hit* hits, int cap) {
    uint8_t* lo = stk; uint8_t* hi = (uint8_t*)j->frame_lo;
    while (lo < hi && *lo == 0xA5) ++lo;                 /* untouched part of the stack */
    lo -= (lo - stk) >= 64 ? 64 : (lo - stk);
    size_t len = (size_t)(hi - lo);
    g_bytes_scanned += len; g_needles_searched += (uint64_t)S->n;
    int nh = 0;
    for (int i = 0; i < S->n; ++i) {
        const needle* x = &S->v[i];
        uint8_t* p = lo;
        while (nh < cap && (size_t)(hi - p) >= (size_t)x->n && (p = memmem(p, (size_t)(hi - p), x->b, (size_t)x->n)) != NULL) {
            hits[nh].kind = x->kind; hits[nh].offset = (long)(hi - p); hits[nh].nd = *x; ++nh;
            p += 1;
        }
    }
    return nh;
}

/* ---------------------------------------------------------------- case construction */
static unsigned g_enabled = 3;      /* user features 1|2 enabled; 4 stays reserved so that create can fail with UNSUPPORTED */

static void hi_entropy_seed(pv_rng* r, pv_mseed* m, bool reserved) {
    pv_randbytes(r, m->secret, 19); m->secret[18] &= 0x3f;
    m->birthday = pv_randn(r, 1024); m->features = pv_randn(r, 4) & g_enabled;
    if (reserved) m->features |= pv_randn(r, 2) ? 8 : 4;
}
static void join_tokens(char* out, const pv_mlang* L, const unsigned d[16], const char* sep, int ntok, int bad_at) {
    size_t n = 0;
    for (int i = 0; i < ntok; ++i) {
        const char* w = (i == bad_at) ? "qqxqqxq" : L->word[d[i % 16]];
        size_t l = strlen(w); memcpy(out + n, w, l); n += l;
        if (i + 1 < ntok) { l = strlen(sep); memcpy(out + n, sep, l); n += l; }
    }
    out[n] = 0;
}

typedef struct shape { int api, path, lang; } shape;

/* builds the job and its needle set for a shape; returns false if the shape cannot be built (counted) */
static bool build(const shape* sh, pv_rng* r, job* j, nset* S) {
    memset(j, 0, sizeof *j); S->n = 0; S->have_coeff = false;
    j->api = sh->api; j->path = sh->path; j->lang = sh->lang;
    pv_mlang* L = &pv_langs[sh->lang];
    j->liblang = L->lib;
    if (!L->lib) return false;
    j->coin = pv_randn(r, 2048);
    pv_mseed m; hi_entropy_seed(r, &m, sh->path == P_UNSUPPORTED && sh->api != A_CREATE);
    unsigned c[16], d[16];
    pv_m_pack(&m, c); memcpy(d, c, sizeof d); d[1] ^= j->coin;
    j->arm_fail = sh->path == P_MEMORY;
    switch (sh->api) {
    case A_CREATE: {
        uint8_t script[19]; memcpy(script, m.secret, 19);
        pv_set_rand_script(script, 19);
        pv_w->time_value = pv_m_birthday_time(m.birthday) + 5;
        j->features = sh->path == P_UNSUPPORTED ? 4 : m.features;
        m.features = j->features & 7; pv_m_pack(&m, c);
        add_windows(S, N_SECRET, m.secret, 19, 8); add_secret_transforms(S, m.secret, 19);
        if (sh->path == P_OK) add_coeffs(S, c, c);
        return true; }
    case A_ENCODE: case A_KEYGEN: case A_STORE: case A_FREE: case A_GETTERS: case A_CRYPT: {
        if (sh->path != P_OK) return false;
        j->seed = pv_seed_from_model(&m);
        if (!j->seed) pv_fatal("C16: cannot load seed");
        add_windows(S, N_SECRET, m.secret, 19, 8); add_secret_transforms(S, m.secret, 19);
        if (sh->api == A_ENCODE) {
            j->out_str = malloc(POLYSEED_STR_SIZE);
            char ph[2048]; pv_m_join_space(L, d, ph, sizeof ph);
            add_phrase(S, ph); add_coeffs(S, d, c); add_wordptrs(S, L, d);
        }
        if (sh->api == A_KEYGEN) { j->keylen = 32; j->key = malloc(32); }
        if (sh->api == A_STORE) j->buf32 = malloc(32);
        if (sh->api == A_FREE || sh->api == A_GETTERS) add_coeffs(S, c, c);
        if (sh->api == A_CRYPT) {
            /* high-entropy password with non-ASCII characters in half of the cases (takes the NFKD path) */
            char pw[128]; int n = 0;
            for (int i = 0; i < 20; ++i) {
                uint32_t k = pv_randn(r, 40);
                if ((sh->lang & 1) && i % 4 == 1) { static const char* const acc[4] = { "\xc3\xa9", "\xc3\xb1", "\xe3\x81\x8c", "\xea\xb0\x80" }; const char* a = acc[k % 4]; memcpy(pw + n, a, strlen(a)); n += (int)strlen(a); }
                else pw[n++] = (char)('A' + k);
            }
            pw[n] = 0;
            j->str = pv_exact_str(pw);
            char* nf = pv_nfkd_alloc(pw);
            add_windows(S, N_PASSWORD, (const uint8_t*)pw, n, 8);
            add_windows(S, N_PASSWORD, (const uint8_t*)nf, (int)strlen(nf), 8);
            free(nf);
            pv_w->kdf_mode = 1; pv_randbytes(r, pv_w->kdf_mask, 32);
            add_windows(S, N_MASK, pv_w->kdf_mask, 32, 8);
            pv_mseed e = m; pv_m_crypt(&e, pv_w->kdf_mask);
            add_windows(S, N_SECRET, e.secret, 19, 8); add_secret_transforms(S, e.secret, 19);
            unsigned ce[16]; pv_m_pack(&e, ce); add_coeffs(S, ce, ce);
        }
        return true; }
    case A_LOAD: {
        j->buf32 = malloc(32);
        pv_m_image(&m, j->buf32);
        if (sh->path == P_FORMAT) {
            /* FORMAT is one status with five reasons, and the image is refused at a different depth for each: header, reserved bit of
             * the feature field, excess bits of the last secret byte, the extra byte, the footer nibble.  For all but the first the
             * library may already have copied the 19 secret bytes somewhere (a damaged image is still somebody's seed) */
            static unsigned kind; unsigned k = kind++ % 5;
            if (k == 0) j->buf32[pv_randn(r, 8)] ^= 0x20;
            else if (k == 1) j->buf32[9] |= 0x80;
            else if (k == 2) j->buf32[28] |= (uint8_t)(0x40 << pv_randn(r, 2));
            else if (k == 3) j->buf32[29] ^= (uint8_t)(1u << pv_randn(r, 8));
            else j->buf32[31] ^= (uint8_t)(0x10 << pv_randn(r, 4));
            pv_countf(1, "load.format_reason.%s", k == 0 ? "header" : k == 1 ? "reserved-feature-bit" : k == 2 ? "secret-excess-bits" : k == 3 ? "extra-byte" : "footer");
            add_windows(S, N_SECRET, j->buf32 + 10, 19, 8);
        }
        else if (sh->path == P_CHECKSUM) j->buf32[30] ^= 1;
        else if (sh->path == P_UNSUPPORTED || sh->path == P_OK || sh->path == P_MEMORY) { }
        else return false;
        add_windows(S, N_SECRET, m.secret, 19, 8); add_secret_transforms(S, m.secret, 19);
        if (sh->path != P_FORMAT && sh->path != P_MEMORY) add_coeffs(S, c, c);
        return true; }
    case A_DECODE: case A_DECODE_EXPLICIT: {
        char ph[4096];
        /* typed with ideographic spaces (every language accepts them: they normalise to the ASCII space) the phrase is longer than its
         * normalised form, so a normaliser working in place leaves its last words behind the terminator of the result */
        const char* sep = ((pv_randn(r, 2) && !strcmp(L->key, "jp")) || pv_randn(r, 3) == 0) ? "\xe3\x80\x80" : " ";
        if (sh->path == P_MULT_LANG) {
            if (sh->api != A_DECODE) return false;
            int b = -1;
            for (int k = 0; k < pv_nlangs; ++k) if (k != sh->lang && pv_overlap(sh->lang, k, NULL) >= 600) b = k;
            if (b < 0 || !pv_gen_ambiguous(r, sh->lang, b, j->coin, g_enabled, d, &m)) return false;
            memcpy(c, d, sizeof c); c[1] ^= j->coin;
        }
        if (sh->path == P_CHECKSUM) { int p = (int)pv_randn(r, 16); d[p] = (d[p] + 1 + pv_randn(r, 2046)) & 2047; }
        int ntok = 16, bad = -1;
        if (sh->path == P_NUM_WORDS) ntok = pv_randn(r, 2) ? 15 : 17;
        if (sh->path == P_LANG) bad = 8 + (int)pv_randn(r, 8);
        join_tokens(ph, L, d, sep, ntok, bad);
        if (sh->path == P_LONG) {          /* a valid phrase followed by blanks / short tokens up to and beyond the size of the internal buffer (whatever exit that takes) */
            size_t n = strlen(ph), want = (size_t)POLYSEED_STR_SIZE - 8 + pv_randn(r, 80); uint32_t kind = pv_randn(r, 3);
            while (n < want && n < sizeof ph - 4) { if (kind == 0) ph[n++] = ' '; else if (kind == 1) { ph[n++] = ' '; ph[n++] = 'x'; } else { ph[n++] = ' '; ph[n++] = (char)0xc3; ph[n++] = (char)0xa9; } }
            ph[n] = 0;
        }
        if (sh->path == P_BADUTF) {        /* a valid phrase with one stray Latin-1 byte behind it: a normaliser built on a strict converter answers with an empty string,
                                             * and whatever the library had copied before asking it (the ASCII part of the phrase, say) must be gone afterwards as well */
            size_t n = strlen(ph); static const uint8_t STRAY[] = { 0xE9, 0xA0, 0xFF, 0xC3 }; ph[n] = (char)STRAY[pv_randn(r, 4)]; ph[n + 1] = 0;
            j->bad_utf = true;
        }
        char* in = (L->compose && pv_randn(r, 2) && sh->path != P_BADUTF) ? pv_nfc_alloc(ph) : pv_exact_str(ph);
        j->str = pv_exact_str(in); free(in);
        char nfk[4096]; join_tokens(nfk, L, d, " ", ntok, bad);
        add_phrase(S, nfk);
        if (sh->path != P_NUM_WORDS) add_coeffs(S, d, sh->path == P_CHECKSUM ? d : c);
        if (sh->path != P_NUM_WORDS && sh->path != P_LANG) add_wordptrs(S, L, d);
        if (sh->path == P_OK || sh->path == P_UNSUPPORTED) { add_windows(S, N_SECRET, m.secret, 19, 8); add_secret_transforms(S, m.secret, 19); }
        if (sh->path == P_CHECKSUM) {       /* the bits of a mistyped phrase are still (all but ten of) somebody's secret: what the 16 words unpack to */
            unsigned u[16]; memcpy(u, d, sizeof u); u[1] ^= j->coin; pv_mseed w; pv_m_unpack(u, &w);
            add_windows(S, N_SECRET, w.secret, 19, 8); add_secret_transforms(S, w.secret, 19);
        }
        return true; }
    }
    return false;
}
static void dispose(job* j) {
    if (j->seed) pv_api_free(j->seed);
    if (j->seed_out && j->status == POLYSEED_OK && (j->api == A_CREATE || j->api == A_DECODE || j->api == A_DECODE_EXPLICIT || j->api == A_LOAD)) pv_api_free(j->seed_out);
    free(j->str); free(j->buf32); free(j->out_str); free(j->key);
    pv_w->kdf_mode = 0; pv_set_rand_prng();
}
static int expected_status(const shape* sh) {
    static const int st[P_NPATH] = { POLYSEED_OK, POLYSEED_ERR_NUM_WORDS, POLYSEED_ERR_LANG, POLYSEED_ERR_MULT_LANG, POLYSEED_ERR_CHECKSUM,
                                     POLYSEED_ERR_MEMORY, POLYSEED_ERR_UNSUPPORTED, POLYSEED_ERR_FORMAT, POLYSEED_ERR_NUM_WORDS, POLYSEED_ERR_NUM_WORDS };
    return st[sh->path];
}
static bool has_status(int api) { return api == A_CREATE || api == A_DECODE || api == A_DECODE_EXPLICIT || api == A_LOAD; }

/* the list of shapes: every API x every exit path it has x languages (where a language is involved) */
static shape g_shapes[512]; static int g_nshapes;
static void make_shapes(void) {
    static const int dec_paths[] = { P_OK, P_NUM_WORDS, P_LANG, P_MULT_LANG, P_CHECKSUM, P_MEMORY, P_UNSUPPORTED, P_LONG, P_BADUTF };
    static const int load_paths[] = { P_OK, P_FORMAT, P_CHECKSUM, P_UNSUPPORTED, P_MEMORY };
    static const int create_paths[] = { P_OK, P_UNSUPPORTED, P_MEMORY };
    for (int l = 0; l < pv_nlangs; ++l) {
        for (unsigned k = 0; k < sizeof dec_paths / sizeof *dec_paths; ++k) {
            g_shapes[g_nshapes++] = (shape){ A_DECODE, dec_paths[k], l };
            if (dec_paths[k] != P_MULT_LANG) g_shapes[g_nshapes++] = (shape){ A_DECODE_EXPLICIT, dec_paths[k], l };
        }
        g_shapes[g_nshapes++] = (shape){ A_ENCODE, P_OK, l };
        g_shapes[g_nshapes++] = (shape){ A_CRYPT, P_OK, l };           /* language index only varies the password alphabet */
    }
    for (unsigned k = 0; k < sizeof load_paths / sizeof *load_paths; ++k) g_shapes[g_nshapes++] = (shape){ A_LOAD, load_paths[k], 0 };
    for (unsigned k = 0; k < sizeof create_paths / sizeof *create_paths; ++k) g_shapes[g_nshapes++] = (shape){ A_CREATE, create_paths[k], 0 };
    g_shapes[g_nshapes++] = (shape){ A_KEYGEN, P_OK, 0 };
    g_shapes[g_nshapes++] = (shape){ A_STORE, P_OK, 0 };
    g_shapes[g_nshapes++] = (shape){ A_FREE, P_OK, 0 };
    g_shapes[g_nshapes++] = (shape){ A_GETTERS, P_OK, 0 };
}

static void report(bool control, const shape* sh, const char* what, const char* fmt, ...) {
    char b[2048]; va_list ap; va_start(ap, fmt); vsnprintf(b, sizeof b, fmt, ap); va_end(ap);
    if (control) { pv_countf(1, "control.hits.%s", API_NAME[sh->api]); pv_countf(1, "control.hits.kind.%s", what); PV_COUNT("control.hits.total", 1); return; }
    char key[200]; snprintf(key, sizeof key, "C16/stack-residue/%s/%s", API_NAME[sh->api], what);
    pv_violation(key, "%s path=%s lang=%s: %s", API_NAME[sh->api], PATH_NAME[sh->path], pv_langs[sh->lang].name_en, b);
}

static void one_case(const shape* sh, pv_rng* rng, bool control) {
    static job* jp; static nset* Sp; static hit* hits;
    if (!jp) { jp = malloc(sizeof *jp); Sp = malloc(sizeof *Sp); hits = malloc(64 * sizeof *hits); }
#define j (*jp)
#define S (*Sp)
    if (!build(sh, rng, &j, &S)) { pv_countf(1, "shape.unbuildable.%s.%s", API_NAME[sh->api], PATH_NAME[sh->path]); return; }
    pv_w->memzero_mode = control ? 1 : 0;
    run_on_owned_stack(&j);
    pv_w->memzero_mode = 0;
    PV_COUNT("evaluations", 1);
    /* count the call under the exit path it actually took (status agreement with the model is the business of
     * C01/C09/C15, not of this check); coverage minima are enforced on these counters by the orchestrator */
    bool on_path = !has_status(sh->api) || j.status == expected_status(sh);
    pv_countf(1, "%scalls.%s.%s", control ? "control." : "", API_NAME[sh->api], on_path ? PATH_NAME[sh->path] : "(other-path)");
    /* (i) blocks released during this call */
    for (int i = 0; i < pv_w->nev; ++i) if (pv_w->ev[i].kind == PV_EV_FREE && pv_w->ev[i].ptr) {
        uint64_t v = pv_w->ev[i].a;
        PV_COUNT("free.blocks_inspected", 1);
        if (control) { if (v & PV_FREE_NOTZERO) PV_COUNT("control.free_notzero", 1); continue; }
        if (v & PV_FREE_NOTZERO) { char key[128]; snprintf(key, sizeof key, "C16/freed-block-not-zero/%s", API_NAME[sh->api]); pv_violation(key, "%s path=%s: block handed to free still holds data", API_NAME[sh->api], PATH_NAME[sh->path]); }
        else if (v & PV_FREE_NOWIPE) { char key[128]; snprintf(key, sizeof key, "C16/freed-block-not-wiped-through-memzero/%s", API_NAME[sh->api]); pv_violation(key, "%s path=%s: no injected memzero call of this API call covers the freed block", API_NAME[sh->api], PATH_NAME[sh->path]); }
    }
    /* (iii) static storage of the whole program (the library has no business keeping copies there either); the
     * harness keeps its own copies of inputs and needles on the heap, so anything found here was put there by the library */
    {
        extern char __data_start[], _end[];
        uint8_t* lo = (uint8_t*)__data_start; uint8_t* hi = (uint8_t*)_end;
        g_static_scanned += (uint64_t)(hi - lo);
        /* single pass with a tiny hash index over the first 6 bytes of every byte-needle */
        enum { HT = 1024 };
        static int16_t head[HT]; static int16_t nextn[MAXNEEDLE];
        for (int i = 0; i < HT; ++i) head[i] = -1;
        int nbyte = 0;
        for (int i = 0; i < S.n; ++i) {
            const needle* x = &S.v[i];
            if (x->kind == N_INDICES || x->kind == N_WORDPTR || x->n < 6) continue;      /* small integers are meaningless in static data without the offset confirmation; the word tables themselves are static pointers */
            uint64_t k = 0; memcpy(&k, x->b, 6);
            unsigned h = (unsigned)((k * 0x9e3779b97f4a7c15ull) >> 54) & (HT - 1);
            nextn[i] = head[h]; head[h] = (int16_t)i; ++nbyte;
        }
        const needle* found = NULL; uint8_t* at = NULL;
        const uint8_t* skip_lo = (const uint8_t*)pv_langs; const uint8_t* skip_hi = skip_lo + sizeof pv_langs;     /* the model's word tables: pointers and lengths only, 1.8 MB */
        if (nbyte) for (uint8_t* p = lo; p + 6 <= hi && !found; ++p) {
            if (p >= skip_lo && p < skip_hi) { p = (uint8_t*)skip_hi - 1; continue; }
            uint64_t k = 0; memcpy(&k, p, 6);
            unsigned h = (unsigned)((k * 0x9e3779b97f4a7c15ull) >> 54) & (HT - 1);
            for (int i = head[h]; i >= 0; i = nextn[i]) {
                const needle* x = &S.v[i];
                if ((size_t)(hi - p) >= (size_t)x->n && !memcmp(p, x->b, (size_t)x->n)) { found = x; at = p; break; }
            }
        }
        if (found) {
            if (control) PV_COUNT("control.static_hits", 1);
            else {
                char key[200]; snprintf(key, sizeof key, "C16/static-residue/%s/%s", API_NAME[sh->api], NKIND[found->kind]);
                pv_violation(key, "%s path=%s lang=%s: %d-byte needle %s found in static storage at data+%ld after the call returned", API_NAME[sh->api], PATH_NAME[sh->path], pv_langs[sh->lang].name_en, found->n, pv_hex(found->b, (size_t)found->n), (long)(at - lo));
            }
        }
    }
    /* (iv) the monitored thread's own thread-local storage: glibc places the TLS block and the thread descriptor at the top
     * of the stack we supplied, above the trampoline frame; after the join it is dead memory we own */
    {
        uint8_t* lo = (uint8_t*)j.frame_lo; uint8_t* hi = stk + STK_SIZE;
        g_tls_scanned += (uint64_t)(hi - lo);
        for (int i = 0; i < S.n; ++i) {
            const needle* x = &S.v[i];
            if (x->kind == N_INDICES || x->kind == N_WORDPTR || x->n < 6) continue;
            uint8_t* p = memmem(lo, (size_t)(hi - lo), x->b, (size_t)x->n);
            if (p) {
                if (control) { PV_COUNT("control.tls_hits", 1); break; }
                char key[200]; snprintf(key, sizeof key, "C16/thread-local-residue/%s/%s", API_NAME[sh->api], NKIND[x->kind]);
                pv_violation(key, "%s path=%s lang=%s: %d-byte needle %s found in the thread's TLS/descriptor area, %ld bytes above the call frame", API_NAME[sh->api], PATH_NAME[sh->path], pv_langs[sh->lang].name_en, x->n, pv_hex(x->b, (size_t)x->n), (long)(p - lo));
                break;
            }
        }
    }
    /* (ii) dead stack */
    int nh = scan(&j, &S, hits, 64);
    bool distinct_done = false;
    /* word pointers: three or more different words of the phrase addressed from the dead stack, confirmed with another phrase */
    {
        int np = 0; long off[64]; int pos[64]; bool seen[16] = { false }; int distinct = 0;
        for (int h = 0; h < nh; ++h) if (hits[h].kind == N_WORDPTR && np < 64) { off[np] = hits[h].offset; pos[np] = hits[h].nd.cstart; if (!seen[pos[np]]) { seen[pos[np]] = true; ++distinct; } ++np; }
        if (distinct >= 3) {
            PV_COUNT("wordptr.candidates", 1);
            static job* j3p; static nset* S3p; if (!j3p) { j3p = malloc(sizeof *j3p); S3p = malloc(sizeof *S3p); }
            pv_rng r3; pv_rng_seed(&r3, pv_rand64(rng), 0x9017, 1);
            if (build(sh, &r3, j3p, S3p)) {
                pv_w->memzero_mode = control ? 1 : 0; run_on_owned_stack(j3p); pv_w->memzero_mode = 0;
                int agree = 0;
                for (int q = 0; q < np; ++q) {
                    uint64_t v; uint8_t* at = (uint8_t*)j3p->frame_lo - off[q];
                    if (at < stk) continue;
                    memcpy(&v, at, 8);
                    for (int i = 0; i < S3p->n; ++i) if (S3p->v[i].kind == N_WORDPTR && S3p->v[i].cstart == pos[q] && !memcmp(S3p->v[i].b, &v, 8)) { ++agree; break; }
                }
                dispose(j3p);
                if (agree >= 3) { PV_COUNT("wordptr.confirmed", 1); report(control, sh, NKIND[N_WORDPTR], "%d slots of the dead stack point at the words of the phrase (positions incl. %d), and at the words of an independent phrase in a second run", agree, pos[0] + 1); }
                else PV_COUNT("wordptr.dismissed", 1);
            }
        }
    }
    for (int h = 0; h < nh; ++h) {
        if (hits[h].kind == N_WORDPTR) continue;
        if (hits[h].kind != N_INDICES) {
            report(control, sh, NKIND[hits[h].kind], "%d-byte needle %s found %ld bytes below the call frame", hits[h].nd.n, pv_hex(hits[h].nd.b, (size_t)hits[h].nd.n), hits[h].offset);
            continue;
        }
        /* candidate: confirm with an independent seed of the same shape at the same stack offset */
        PV_COUNT("indices.candidates", 1);
        bool confirmed = false;
        for (int rep = 0; rep < 2 && !confirmed; ++rep) {
            static job* j2p; static nset* S2p; if (!j2p) { j2p = malloc(sizeof *j2p); S2p = malloc(sizeof *S2p); }
#define j2 (*j2p)
#define S2 (*S2p)
            pv_rng r2; pv_rng_seed(&r2, pv_rand64(rng), 0xc0f1, (uint64_t)rep);
            if (!build(sh, &r2, &j2, &S2) || !S2.have_coeff) break;
            pv_w->memzero_mode = control ? 1 : 0;
            run_on_owned_stack(&j2);
            pv_w->memzero_mode = 0;
            uint8_t want[64]; int wn = enc_run(S2.coeff[hits[h].nd.variant], hits[h].nd.cstart, hits[h].nd.crun, hits[h].nd.cwidth, want);
            bool zero = false; for (int i = 0; i < hits[h].nd.crun; ++i) if (S2.coeff[hits[h].nd.variant][hits[h].nd.cstart + i] == 0) zero = true;
            uint8_t* at = (uint8_t*)j2.frame_lo - hits[h].offset;
            if (!zero && at >= stk && !memcmp(at, want, (size_t)wn) && memcmp(want, hits[h].nd.b, (size_t)wn)) confirmed = true;
            dispose(&j2);
        }
        if (confirmed) {
            PV_COUNT("indices.confirmed", 1);
            report(control, sh, NKIND[N_INDICES], "word indices %d..%d (width %d) of the phrase found %ld bytes below the call frame, and again for an independent seed",
                   hits[h].nd.cstart, hits[h].nd.cstart + hits[h].nd.crun - 1, hits[h].nd.cwidth, hits[h].offset);
        } else PV_COUNT("indices.dismissed(coincidence)", 1);
    }
    if (!control && !distinct_done) PV_DISTINCT("nontrivial", pv_mix(pv_mix((uint64_t)sh->api * 16 + (uint64_t)sh->path, (uint64_t)sh->lang), pv_hash(S.v, sizeof(needle) * (size_t)(S.n < 8 ? S.n : 8), 0)));
    if (!control && pv_randn(rng, 400) == 0) pv_sample(API_NAME[sh->api], "%s path=%s lang=%s: %d needles searched in the dead stack, %d hits", API_NAME[sh->api], PATH_NAME[sh->path], pv_langs[sh->lang].name_en, S.n, nh);
    dispose(&j);
#undef j
#undef S
#undef j2
#undef S2
}

static uint64_t n_scan(void) { return (uint64_t)g_nshapes * pv_scaled(12, 600); }
static void run_scan(uint64_t idx, pv_rng* rng) { one_case(&g_shapes[idx % (uint64_t)g_nshapes], rng, false); }
static uint64_t n_control(void) { return (uint64_t)g_nshapes * 2; }
static void run_control(uint64_t idx, pv_rng* rng) { one_case(&g_shapes[idx % (uint64_t)g_nshapes], rng, true); }

static void init(void) {
    pv_world_init(pv.seed);
    pv_model_init();
    pv_inject_default();
    pv_model_bind_library();
    pv_api_enable_features(g_enabled);
    stk = mmap(NULL, STK_SIZE, PROT_READ | PROT_WRITE, MAP_PRIVATE | MAP_ANONYMOUS | MAP_STACK, -1, 0);
    if (stk == MAP_FAILED) pv_fatal("C16: mmap");
    make_shapes();
    /* warm-up: one call of every shape so that nothing is resolved or initialised lazily inside a monitored call */
    pv_rng r; pv_rng_seed(&r, 1, 2, 3);
    { job* wj = malloc(sizeof *wj); nset* wS = malloc(sizeof *wS);
      for (int i = 0; i < g_nshapes; ++i) if (build(&g_shapes[i], &r, wj, wS)) { run_on_owned_stack(wj); dispose(wj); }
      free(wj); free(wS); }
    pv_info("rule", "every API function x every exit path x language, high-entropy inputs; each call runs on a driver-owned, pre-patterned thread stack which is "
                    "searched afterwards for 8-byte windows of secret/password/mask, phrase tokens and token pairs (NFKD and NFC), and runs of word indices (confirmed with an "
                    "independent seed at the same offset); every block reaching the injected free is inspected. non-trivial = a call that took the intended exit path and whose "
                    "dead stack was scanned; distinct = distinct (api, path, language, needle set)");
}
static void fini(void) {
    pv_countf(g_bytes_scanned, "scan.bytes");
    pv_countf(g_needles_searched, "scan.needles");
    pv_countf(g_static_scanned, "scan.static_bytes");
    pv_countf(g_tls_scanned, "scan.thread_local_area_bytes");
}
int main(int argc, char** argv) {
    static const pv_section secs[] = { { "scan", n_scan, run_scan }, { "control", n_control, run_control } };
    return pv_main(argc, argv, "C16", secs, 2, init, fini);
}
