/* drv_c07 — word lists frozen, distinct, every word decodes to its own index (DESIGN 3/C07)
 * Words are harvested through the API (polyseed_encode of model-built seeds); golden/ is the reference. */
#include "pv.h"

#define NPOS 16
#define BLK 256
#define NBLK (PV_NWORDS / BLK)

static const char* const TEN[] = { "English", "Japanese", "Korean", "Spanish", "French", "Italian", "Czech", "Portuguese",
                                   "Chinese (Simplified)", "Chinese (Traditional)" };

static void init(void) {
    pv_world_init(pv.seed);
    pv_model_init();
    pv_inject_default();
    pv_model_bind_library();
    pv_api_enable_features(7);
    pv_info("rule", "exhaustive sweep of language x index x phrase position in both directions: a case is one (language, index, position, direction); "
                    "non-trivial = the word was actually emitted by polyseed_encode / accepted by the decoders at that position and compared with golden/; "
                    "distinct = distinct (language,index,position,direction) tuples");
}

/* ---------------------------------------------------------------- first use of a language in a process, with the allocator failing
 * Runs first, in forked children of a process that has not looked up a single word yet: the very first call that touches
 * language L happens while the allocator refuses its k-th request (whatever the library might set up on first use has to cope);
 * afterwards every word of L and of two other lists must still decode to its own index. */
typedef struct fu_arg { int lang, entry, k; uint64_t seed; } fu_arg;
static int fu_child(void* p) {
    fu_arg* a = p; pv_mlang* L = &pv_langs[a->lang];
    pv_rng r; pv_rng_seed(&r, a->seed, 0xf1, (uint64_t)a->lang * 8 + (uint64_t)a->entry * 4 + (uint64_t)a->k);
    unsigned d[16]; pv_mseed m; unsigned coin = pv_gen_coin(&r);
    pv_gen_mseed(&r, 7, true, &m); pv_m_coeffs(&m, coin, d);
    char raw[2048]; pv_m_join_space(L, d, raw, sizeof raw);
    polyseed_data* s = NULL; const polyseed_lang* lo = NULL;
    pv_w->fail_countdown = a->k;
    int st = a->entry ? pv_api_decode_explicit(raw, coin, L->lib, &s) : pv_api_decode(raw, coin, &lo, &s);
    pv_w->fail_countdown = 0;
    if (st == POLYSEED_OK) pv_api_free(s);
    else if (st != POLYSEED_ERR_MEMORY && st != POLYSEED_ERR_MULT_LANG) return 10 + st;          /* a valid phrase: only success, "no memory" or a genuine ambiguity */
    /* everything must still work: the words of this list and of two others */
    for (int round = 0; round < 3; ++round) {
        pv_mlang* M = round == 0 ? L : &pv_langs[(a->lang + round * 3) % pv_nlangs];
        if (!M->lib) continue;
        for (unsigned blk = 0; blk < 2048; blk += 15) {
            unsigned c[16]; for (int i = 1; i < 16; ++i) c[i] = (blk + (unsigned)i - 1) & 2047;
            /* (the reserved feature bit may end up set: the model then predicts UNSUPPORTED, which still proves that all words were recognised) */
            c[0] = pv_m_checkvalue(c);
            unsigned e[16]; memcpy(e, c, sizeof e);             /* coin 0 */
            pv_m_join_space(M, e, raw, sizeof raw);
            pv_mdecode md; pv_m_decode(raw, 0, M, 7, &md);
            s = NULL; st = pv_api_decode_explicit(raw, 0, M->lib, &s);
            if (st == POLYSEED_OK) pv_api_free(s);
            if (md.status >= 0 && st != md.status) return 40 + round * 10 + (st & 7);
        }
    }
    return 0;
}
static uint64_t n_firstuse(void) { return (uint64_t)pv_nlangs * 2 * 3; }
static void run_firstuse(uint64_t idx, pv_rng* rng) {
    fu_arg a = { (int)(idx / 6), (int)(idx / 3 % 2), 1 + (int)(idx % 3), pv_rand64(rng) };
    if (!pv_langs[a.lang].lib) return;
    pv_cur.note = "forked child: first use of a language with a failing allocator";
    int rc = pv_fork_case(fu_child, &a, 300);
    PV_COUNT("evaluations", 137 * 3 + 1);
    const char* en = a.entry ? "decode_explicit" : "decode";
    if (rc == 0) { PV_COUNT("firstuse.children_ok", 1); PV_DISTINCT("nontrivial", pv_mix(0xf1, idx)); }
    else if (rc >= 40 && rc < 80) pv_violation("C07/first-use/words-no-longer-recognised", "%s: the first %s of the process ran while the allocator refused its request no. %d; afterwards a phrase of %s decodes with status %s instead of the model's",
                                            pv_langs[a.lang].name_en, en, a.k, (rc - 40) / 10 == 0 ? "the same list" : "another list", pv_status_name((rc - 40) % 10));
    else if (rc >= 10 && rc < 20) pv_violation("C07/first-use/valid-phrase-rejected", "%s: the first %s of the process (allocator refusing request no. %d) -> %s", pv_langs[a.lang].name_en, en, a.k, pv_status_name(rc - 10));
    else if (rc == -1000) pv_violation("C07/first-use/hang", "%s: child did not finish", pv_langs[a.lang].name_en);
    else pv_violation("C07/first-use/crash", "%s: first %s with a failing allocator: child ended with %d", pv_langs[a.lang].name_en, en, rc);
}

/* ---------------------------------------------------------------- registry */
static uint64_t n_registry(void) { return 1; }
static void run_registry(uint64_t idx, pv_rng* rng) {
    (void)idx; (void)rng;
    int n = polyseed_get_num_langs();
    PV_COUNT("evaluations", 1);
    if (n < 10) pv_violation("C07/registry/too-few-languages", "polyseed_get_num_langs() = %d", n);
    for (int i = 0; i < 10; ++i) {
        pv_mlang* L = pv_lang_by_name(TEN[i]);
        if (!L || !L->lib) { pv_violation("C07/registry/missing-language", "language '%s' not found in the registry", TEN[i]); continue; }
        /* a language is its word list (that is what the sweeps below compare); its labels are not part of the property and are only noted */
        const char* nm = polyseed_get_lang_name(L->lib); const char* en0 = polyseed_get_lang_name_en(L->lib);
        if (!nm || strcmp(nm, L->name) || !en0 || strcmp(en0, L->name_en)) PV_COUNT("registry.languages_identified_by_content_under_another_label", 1);
        for (int j = 0; j < i; ++j) { pv_mlang* M = pv_lang_by_name(TEN[j]); if (M && M->lib == L->lib) pv_violation("C07/registry/duplicate-handle", "%s and %s share a handle", TEN[i], TEN[j]); }
        PV_COUNT("registry.languages_found", 1);
    }
    for (int i = 0; i < n; ++i) {       /* an entry that is none of the ten published lists is an additional language: nothing forbids it */
        const polyseed_lang* l = polyseed_get_lang(i); bool known = false;
        for (int q = 0; q < pv_nlangs; ++q) if (pv_langs[q].lib == l) known = true;
        if (!known) PV_COUNT("registry.additional_languages(not one of the ten published lists)", 1);
    }
}

/* ---------------------------------------------------------------- encode sweep (harvest) */
static uint64_t n_sweep(void) { return (uint64_t)pv_nlangs * NPOS * NBLK; }
static void decomp(uint64_t idx, int* l, int* p, int* blk) { *blk = (int)(idx % NBLK); idx /= NBLK; *p = (int)(idx % NPOS); *l = (int)(idx / NPOS); }

/* token p of an NFKD string (single-space separated); returns malloc'd copy or NULL */
static char* token_at(const char* nfkd, int p, int* ntok) {
    char* s = pv_exact_str(nfkd); char* tok[17];
    int n = pv_m_split(s, tok, 17);
    *ntok = n;
    char* r = (n == 16) ? pv_exact_str(tok[p]) : NULL;
    free(s);
    return r;
}

/* reduced-scale runs (second compiler) take a stripe of the sweep; the full-scale run enumerates everything */
static bool striped_out(uint64_t idx) { uint64_t k = pv.scale_pct >= 100 ? 1 : 100 / (pv.scale_pct ? pv.scale_pct : 1); return k > 1 && idx % k != pv.seed % k; }
static void run_encode(uint64_t idx, pv_rng* rng) {
    if (striped_out(idx)) return;
    int l, p, blk; decomp(idx, &l, &p, &blk);
    pv_mlang* L = &pv_langs[l];
    if (!L->lib) return;
    char* out = malloc(POLYSEED_STR_SIZE);
    for (unsigned i = (unsigned)blk * BLK; i < (unsigned)(blk + 1) * BLK; ++i) {
        unsigned coin = pv_gen_coin(rng), d[16]; pv_mseed m;
        if (!pv_gen_place(rng, p, i, coin, true, 7, d, &m)) { PV_COUNT("encode.inadmissible(reserved-bit)", 1); continue; }
        polyseed_data* s = pv_seed_from_model(&m);
        if (!s) { pv_violation("C07/harvest/load-failed", "cannot load model seed %s", pv_mseed_str(&m)); continue; }
        size_t n = pv_api_encode(s, L->lib, coin, out);
        PV_COUNT("evaluations", 1); PV_COUNT("encode.calls", 1);
        if (n != strlen(out)) pv_violation("C07/harvest/length", "%s: encode returned %zu, strlen %zu", L->name_en, n, strlen(out));
        char* nf = pv_nfkd_alloc(out);
        int nt; char* tok = token_at(nf, p, &nt);
        if (!tok) pv_violation("C07/separator", "%s: phrase does not split into 16 tokens after NFKD (%d): '%s'", L->name_en, nt, pv_esc(out));
        else if (strcmp(tok, L->word[i])) {
            pv_violation(p == 0 ? "C07/list-changed/check-word" : "C07/list-changed", "%s index %u position %d: library emits '%s', published '%s'", L->name_en, i, p, pv_esc(tok), L->word[i]);
        } else {
            PV_DISTINCT("nontrivial", pv_mix(pv_mix(1, (uint64_t)l), ((uint64_t)i << 8) | (unsigned)p));
            pv_countf(1, "encode.ok.%s", L->key);
        }
        /* normalisation clauses on every phrase of the run */
        char raw[2048]; pv_m_join_space(L, d, raw, sizeof raw);
        if (strcmp(nf, raw)) {
            if (tok && !strcmp(tok, L->word[i])) pv_violation("C07/phrase-not-stable", "%s: NFKD(output) '%s' != words joined by spaces '%s'", L->name_en, pv_esc(nf), pv_esc(raw));
        }
        char* nfc = pv_nfc_alloc(out); char* nf2 = pv_nfkd_alloc(nfc);
        if (strcmp(nf2, nf)) pv_violation("C07/phrase-not-stable", "%s: NFKD(NFC(phrase)) differs from NFKD(phrase)", L->name_en);
        if (L->compose && strcmp(nfc, out)) pv_violation("C07/not-composed", "%s: output is not NFC", L->name_en);
        free(nfc); free(nf2);
        if (i % 512 == 7 && p == 3) pv_sample("encode", "%s idx=%u pos=%d coin=%u seed=%s -> '%s'", L->name_en, i, p, coin, pv_mseed_str(&m), out);
        free(tok); free(nf);
        pv_api_free(s);
    }
    free(out);
}

/* ---------------------------------------------------------------- decode sweep */
static void run_decode(uint64_t idx, pv_rng* rng) {
    if (striped_out(idx)) return;
    int l, p, blk; decomp(idx, &l, &p, &blk);
    pv_mlang* L = &pv_langs[l];
    if (!L->lib) return;
    uint8_t* img = malloc(32);
    for (unsigned i = (unsigned)blk * BLK; i < (unsigned)(blk + 1) * BLK; ++i) {
        unsigned coin = pv_gen_coin(rng), d[16]; pv_mseed m;
        pv_gen_place(rng, p, i, coin, false, 7, d, &m);
        char raw[2048];
        /* input form varies: language separator or ASCII space, composed or decomposed */
        bool use_sep = pv_randn(rng, 2); bool nfc = L->compose && pv_randn(rng, 2);
        if (use_sep) pv_m_join(L, d, raw, sizeof raw); else pv_m_join_space(L, d, raw, sizeof raw);
        char* in = nfc ? pv_nfc_alloc(raw) : pv_exact_str(raw);
        int want = pv_m_supported(m.features, 7) ? POLYSEED_OK : POLYSEED_ERR_UNSUPPORTED;
        uint8_t mimg[32]; pv_m_image(&m, mimg);
        /* explicit */
        polyseed_data* s = NULL;
        int st = pv_api_decode_explicit(in, coin, L->lib, &s);
        PV_COUNT("evaluations", 1); PV_COUNT("decode_explicit.calls", 1);
        pv_countf(1, "decode_explicit.status.%s", pv_status_name(st));
        if (st != want) {
            pv_violation(strlen(raw) >= POLYSEED_STR_SIZE ? "phrase-exceeds-str-size" : st == POLYSEED_ERR_LANG ? "C07/word-not-recognised" : "C07/word-decodes-to-other-index",
                         "%s index %u ('%s') at position %d: decode_explicit -> %s, expected %s; phrase '%s'", L->name_en, i, L->word[i], p, pv_status_name(st), pv_status_name(want), pv_esc(in));
        } else if (st == POLYSEED_OK) {
            pv_api_store(s, img);
            if (memcmp(img, mimg, 32)) pv_violation("C07/word-decodes-to-other-index", "%s index %u at position %d decodes to a different seed: %s vs model %s", L->name_en, i, p, pv_hex(img, 32), pv_hex(mimg, 32));
            else PV_DISTINCT("nontrivial", pv_mix(pv_mix(2, (uint64_t)l), ((uint64_t)i << 8) | (unsigned)p));
            pv_api_free(s);
        } else PV_DISTINCT("nontrivial", pv_mix(pv_mix(2, (uint64_t)l), ((uint64_t)i << 8) | (unsigned)p));
        /* auto-detect: same seed + same language, or MULT_LANG when the model matcher finds a second language */
        pv_mdecode md; pv_m_decode(in, coin, NULL, 7, &md);
        const polyseed_lang* lo = NULL; s = NULL;
        st = pv_api_decode(in, coin, &lo, &s);
        PV_COUNT("evaluations", 1); PV_COUNT("decode_auto.calls", 1);
        pv_countf(1, "decode_auto.status.%s", pv_status_name(st));
        if (md.status >= 0) {
            if (st != md.status) pv_violation("C07/auto-detect", "%s index %u pos %d: decode -> %s, model %s (recognising languages %d); phrase '%s'", L->name_en, i, p, pv_status_name(st), pv_status_name(md.status), md.nrecognising, pv_esc(in));
            else if (st == POLYSEED_OK) {
                pv_api_store(s, img);
                if (memcmp(img, mimg, 32) || lo != L->lib) pv_violation("C07/auto-detect", "%s index %u pos %d: auto-detect gives another seed or language", L->name_en, i, p);
                else PV_DISTINCT("nontrivial", pv_mix(pv_mix(3, (uint64_t)l), ((uint64_t)i << 8) | (unsigned)p));
            } else if (st == POLYSEED_ERR_MULT_LANG) PV_COUNT("decode_auto.mult_lang_expected", 1);
        }
        if (st == POLYSEED_OK) pv_api_free(s);
        if (i % 512 == 9 && p == 0) pv_sample("decode", "%s idx=%u pos=%d coin=%u in='%s' -> explicit %s", L->name_en, i, p, coin, pv_esc(in), pv_status_name(want));
        free(in);
    }
    free(img);
}

/* ---------------------------------------------------------------- per-language list clauses on harvested words */
static uint64_t n_lists(void) { return (uint64_t)pv_nlangs; }
static int cmp_str(const void* a, const void* b) { return strcmp(*(char* const*)a, *(char* const*)b); }
static void run_lists(uint64_t idx, pv_rng* rng) {
    pv_mlang* L = &pv_langs[idx];
    if (!L->lib) return;
    static char* hw[PV_NWORDS];
    char* out = malloc(POLYSEED_STR_SIZE);
    int got = 0;
    for (unsigned i = 0; i < PV_NWORDS; ++i) {
        unsigned d[16]; pv_mseed m;
        pv_gen_place(rng, 15, i, 0, true, 7, d, &m);
        polyseed_data* s = pv_seed_from_model(&m);
        hw[i] = NULL;
        if (!s) continue;
        pv_api_encode(s, L->lib, 0, out);
        PV_COUNT("evaluations", 1);
        char* nf = pv_nfkd_alloc(out); int nt;
        hw[i] = token_at(nf, 15, &nt);
        free(nf);
        pv_api_free(s);
        if (hw[i]) ++got;
    }
    free(out);
    if (got != PV_NWORDS) { pv_violation("C07/harvest/incomplete", "%s: harvested %d words", L->name_en, got); goto done; }
    /* separator normalises to one ASCII space (observed: 16 tokens after NFKD in every phrase above); words are NFKD-stable */
    for (unsigned i = 0; i < PV_NWORDS; ++i) {
        char* nf = pv_nfkd_alloc(hw[i]);
        if (strcmp(nf, hw[i])) pv_violation("C07/word-not-nfkd", "%s index %u", L->name_en, i);
        free(nf);
        if (strchr(hw[i], ' ') || !*hw[i]) pv_violation("C07/word-has-space-or-empty", "%s index %u", L->name_en, i);
    }
    /* distinct */
    {
        char* sorted[PV_NWORDS]; memcpy(sorted, hw, sizeof sorted);
        qsort(sorted, PV_NWORDS, sizeof(char*), cmp_str);
        for (unsigned i = 1; i < PV_NWORDS; ++i) if (!strcmp(sorted[i], sorted[i - 1])) pv_violation("C07/duplicate-word", "%s: '%s' appears twice", L->name_en, pv_esc(sorted[i]));
        PV_COUNT("lists.distinct_checked", 1);
    }
    /* pairwise clauses through the model matcher on the harvested words (all ordered pairs): a word, or the
     * 4-letter abbreviation of a word, must be recognised as that word only */
    uint64_t string_prefix_pairs = 0, evals = 0;
    for (unsigned a = 0; a < PV_NWORDS; ++a) {
        uint32_t cp[128]; int n = pv_utf8_decode(hw[a], cp, 128);
        int idxm = -1, nm = 0;
        int r = pv_m_match_cp(L, cp, n, &idxm, &nm); evals += PV_NWORDS;
        if (r != PV_ACCEPT || nm != 1 || idxm != (int)a) pv_violation("C07/word-ambiguous", "%s: full word %u '%s' matches %d words (first %d)", L->name_en, a, pv_esc(hw[a]), nm, idxm);
        if (L->prefix) {
            /* first four accent-stripped letters unique */
            uint32_t st[128]; int sn = 0;
            for (int k = 0; k < n; ++k) if (!(L->accents && pv_is_accent(cp[k]))) st[sn++] = cp[k];
            if (sn >= 4) {
                r = pv_m_match_cp(L, st, 4, &idxm, &nm); evals += PV_NWORDS;
                if (r != PV_ACCEPT || nm != 1 || idxm != (int)a) pv_violation("C07/shared-4-letter-prefix", "%s: first four letters of word %u '%s' match %d words", L->name_en, a, pv_esc(hw[a]), nm);
            }
            for (unsigned b = 0; b < PV_NWORDS; ++b) if (a != b && !strncmp(hw[a], hw[b], strlen(hw[a]))) ++string_prefix_pairs;
        }
    }
    PV_COUNT("lists.matcher_evaluations", evals);
    if (L->prefix) pv_countf(string_prefix_pairs, "info.string_prefix_pairs(all shorter than 4 letters).%s", L->key);
    /* ... and through the API: the 4-letter accent-stripped abbreviation of every word decodes to the same seed */
    if (L->prefix) {
        uint8_t* img = malloc(32);
        for (unsigned a = 0; a < PV_NWORDS; ++a) {
            uint32_t cp[128]; int n = pv_utf8_decode(hw[a], cp, 128);
            char abbr[64]; int k = 0, letters = 0;
            for (int j = 0; j < n && letters < 4; ++j) { if (L->accents && pv_is_accent(cp[j])) continue; k += pv_utf8_encode(cp[j], abbr + k); ++letters; }
            abbr[k] = 0;
            int p = 1 + (int)(a % 15); unsigned d[16]; pv_mseed m;
            if (!pv_gen_place(rng, p, a, 5, true, 7, d, &m)) { p = 15; pv_gen_place(rng, p, a, 5, true, 7, d, &m); }
            char phrase[2048]; size_t pos = 0;
            for (int w = 0; w < 16; ++w) { const char* t = (w == p) ? abbr : L->word[d[w]]; size_t tl = strlen(t); memcpy(phrase + pos, t, tl); pos += tl; if (w < 15) phrase[pos++] = ' '; }
            phrase[pos] = 0;
            char* in = pv_exact_str(phrase);
            polyseed_data* s = NULL; int st = pv_api_decode_explicit(in, 5, L->lib, &s);
            PV_COUNT("evaluations", 1); PV_COUNT("lists.abbreviation_decodes", 1);
            uint8_t mimg[32]; pv_m_image(&m, mimg);
            if (st != POLYSEED_OK) pv_violation("C07/abbreviation-not-own-index", "%s: abbreviation '%s' of word %u at position %d -> %s", L->name_en, pv_esc(abbr), a, p, pv_status_name(st));
            else { pv_api_store(s, img); if (memcmp(img, mimg, 32)) pv_violation("C07/abbreviation-not-own-index", "%s: abbreviation '%s' of word %u decodes to another seed", L->name_en, pv_esc(abbr), a); pv_api_free(s); }
            free(in);
        }
        free(img);
    }
    pv_countf(1, "lists.done.%s", L->key);
done:
    for (unsigned i = 0; i < PV_NWORDS; ++i) free(hw[i]);
}

/* ---------------------------------------------------------------- phrases whose 16 words all have the same byte length
 * (e.g. sixteen 3-letter English words): any shortcut that classifies a phrase by the shape of its words shows here */
static uint64_t n_homog(void) { return (uint64_t)pv_nlangs * 40 * pv_scaled(6, 100); }
static void run_homog(uint64_t idx, pv_rng* rng) {
    if (striped_out(idx)) return;
    int l = (int)(idx % (uint64_t)pv_nlangs); pv_mlang* L = &pv_langs[l];
    int len = (int)((idx / (uint64_t)pv_nlangs) % 40);
    if (!L->lib) return;
    unsigned set[PV_NWORDS]; int n = 0;
    for (unsigned i = 0; i < PV_NWORDS; ++i) if (L->len[i] == len) set[n++] = i;
    if (n < 24) return;
    unsigned coin = pv_gen_coin(rng), d[16]; pv_mseed m;
    if (!pv_gen_from_set(rng, set, n, coin, 7, d, &m)) { PV_COUNT("homogeneous.not_constructible", 1); return; }
    char raw[2048]; pv_m_join_space(L, d, raw, sizeof raw);
    char* in = (L->compose && pv_randn(rng, 2)) ? pv_nfc_alloc(raw) : pv_exact_str(raw);
    uint8_t mimg[32]; pv_m_image(&m, mimg); uint8_t* img = malloc(32);
    polyseed_data* s = NULL; int st = pv_api_decode_explicit(in, coin, L->lib, &s);
    PV_COUNT("evaluations", 1);
    if (st != POLYSEED_OK) pv_violation("C07/word-not-recognised", "%s: phrase of sixteen %d-byte words -> decode_explicit %s; '%s'", L->name_en, len, pv_status_name(st), pv_esc(in));
    else { pv_api_store(s, img); if (memcmp(img, mimg, 32)) pv_violation("C07/word-decodes-to-other-index", "%s: phrase of sixteen %d-byte words decodes to another seed", L->name_en, len); pv_api_free(s); }
    pv_mdecode md; pv_m_decode(in, coin, NULL, 7, &md);
    const polyseed_lang* lo = NULL; s = NULL; st = pv_api_decode(in, coin, &lo, &s);
    PV_COUNT("evaluations", 1);
    if (md.status >= 0 && st != md.status) pv_violation("C07/auto-detect", "%s: phrase of sixteen %d-byte words: decode -> %s, model %s; '%s'", L->name_en, len, pv_status_name(st), pv_status_name(md.status), pv_esc(in));
    else if (st == POLYSEED_OK && lo != L->lib) pv_violation("C07/auto-detect", "%s: phrase of sixteen %d-byte words detected as another language", L->name_en, len);
    else { pv_countf(1, "homogeneous.ok.%s.len%d", L->key, len); PV_COUNT("homogeneous.phrases", 1); PV_DISTINCT("nontrivial", pv_mix(pv_hash_str(in), coin)); }
    if (st == POLYSEED_OK) pv_api_free(s);
    free(img); free(in);
}

static void fini(void) {
    pv_set_flag("exhaustive.language_x_index_x_position", pv.scale_pct >= 100);
    if (pv_ledger_live() != 0) pv_info("ledger", "%d blocks live at exit", pv_ledger_live());
}

int main(int argc, char** argv) {
    static const pv_section secs[] = {
        { "firstuse", n_firstuse, run_firstuse },
        { "registry", n_registry, run_registry },
        { "encode", n_sweep, run_encode },
        { "decode", n_sweep, run_decode },
        { "lists", n_lists, run_lists },
        { "homogeneous", n_homog, run_homog },
    };
    return pv_main(argc, argv, "C07", secs, (int)(sizeof secs / sizeof *secs), init, fini);
}
