/* drv_c10 — reserved feature bits are refused at every entry point; enabled ones work (DESIGN 3/C10) */
#include "pv.h"

static char* g_out;
static int popcount3(unsigned a) { return (int)((a & 1) + ((a >> 1) & 1) + ((a >> 2) & 1)); }
static const unsigned ARGS[] = { 0, 1, 2, 3, 4, 5, 6, 7, 8, 16, 31, 0xfffffff8u, 0xfffffff9u, 0xfffffffau, 0xfffffffcu, 0xffffffffu, 0x80000000u, 0x18 };
#define NARGS (sizeof ARGS / sizeof *ARGS)

static void init(void) {
    pv_world_init(pv.seed);
    pv_model_init();
    pv_inject_default();
    pv_model_bind_library();
    g_out = malloc(POLYSEED_STR_SIZE);
    pv_info("rule", "exhaustive matrix: enabling argument (0..7 and arguments with higher bits) x feature value 0..31 x entry point {create, decode, decode_explicit, load} x "
                    "{directly, after a random prior sequence of enabling calls}: UNSUPPORTED iff the value has a bit outside the enabled user bits and the encrypted bit; "
                    "enable_features returns popcount(arg & 7); get_feature(s,q) == value & q & 7; features survive phrase, storage and crypt round trips; the default (no enabling call) "
                    "is observed in a fresh process. non-trivial = a cell whose observed status equalled the rule; distinct = distinct (argument, value, entry point, history, language, coin)");
}

static void expect_status(const char* entry, int st, bool supported, unsigned arg, unsigned f, const char* hist) {
    int want = supported ? POLYSEED_OK : POLYSEED_ERR_UNSUPPORTED;
    pv_countf(1, "cell.%s.%s", entry, pv_status_name(st));
    if (st != want) {
        char key[128]; snprintf(key, sizeof key, "C10/%s/%s-instead-of-%s", entry, pv_status_name(st), pv_status_name(want));
        pv_violation(key, "enable_features(0x%x)%s then %s of a seed with feature bits %u -> %s, expected %s", arg, hist, entry, f, pv_status_name(st), pv_status_name(want));
    }
}
static void check_getters(polyseed_data* s, unsigned f, const char* entry) {
    for (unsigned q = 0; q < 8; ++q) {
        unsigned g = pv_api_get_feature(s, q), g2 = pv_api_get_feature(s, q | 0xfffffff8u);
        if (g != (f & q & 7) || g2 != (f & q & 7)) pv_violation("C10/get-feature", "[%s] features %u: get_feature(%u) = %u, get_feature(%u|high bits) = %u", entry, f, q, g, q, g2);
    }
    if (pv_api_is_encrypted(s) != (int)((f >> 4) & 1)) pv_violation("C10/is-encrypted", "[%s] features %u: is_encrypted = %d", entry, f, pv_api_is_encrypted(s));
    PV_COUNT("getters.checked", 1);
}

/* the core cell: mask argument x feature value, all four entry points */
static void cell(unsigned arg, unsigned f, pv_rng* rng, const char* hist, uint64_t hh) {
    unsigned m = arg & 7;
    bool sup = pv_m_supported(f, m);
    pv_mseed ms; pv_gen_mseed(rng, 7, false, &ms); ms.features = f;
    unsigned coin = pv_gen_coin(rng);
    pv_mlang* L; do { L = &pv_langs[pv_randn(rng, (uint32_t)pv_nlangs)]; } while (!L->lib);
    uint8_t* img = malloc(32); pv_m_image(&ms, img);
    char ph[2048]; pv_m_encode(&ms, L, coin, ph, sizeof ph); char* in = pv_exact_str(ph);
    polyseed_data* s; int st;
    /* load */
    s = NULL; st = pv_api_load(img, &s); PV_COUNT("evaluations", 1);
    expect_status("load", st, sup, arg, f, hist);
    if (st == POLYSEED_OK) {
        check_getters(s, f, "load");
        /* survive phrase, storage and crypt round trips */
        pv_api_encode(s, L->lib, coin, g_out);
        if (strcmp(g_out, ph)) pv_violation("C10/features-lost-in-phrase", "features %u: phrase differs from the model", f);
        uint8_t* o = malloc(32); pv_api_store(s, o); if (memcmp(o, img, 32)) pv_violation("C10/features-lost-in-storage", "features %u: %s vs %s", f, pv_hex(o, 32), pv_hex(img, 32)); free(o);
        pv_api_crypt(s, "pw"); check_getters(s, f ^ 16, "crypt");
        pv_api_crypt(s, "pw"); check_getters(s, f, "crypt-twice");
        /* queries return the STORED bits: what happens to be enabled at the time of the query does not matter */
        { unsigned other = pv_randn(rng, 8); pv_api_enable_features(other); check_getters(s, f, "after-the-enabled-mask-changed");
          uint8_t* o2 = malloc(32); pv_api_store(s, o2); if (memcmp(o2, img, 32)) pv_violation("C10/features-lost-in-storage", "features %u stored under mask %u: %s vs %s", f, other, pv_hex(o2, 32), pv_hex(img, 32)); free(o2);
          pv_api_enable_features(arg); PV_COUNT("getters.checked_under_a_changed_mask", 1); }
        pv_api_free(s);
    }
    /* decode_explicit */
    s = NULL; st = pv_api_decode_explicit(in, coin, L->lib, &s); PV_COUNT("evaluations", 1);
    expect_status("decode_explicit", st, sup, arg, f, hist);
    if (st == POLYSEED_OK) { check_getters(s, f, "decode_explicit"); pv_api_free(s); }
    /* decode (auto): ambiguity is decided before features */
    pv_mdecode md; pv_m_decode(in, coin, NULL, m, &md);
    s = NULL; st = pv_api_decode(in, coin, NULL, &s); PV_COUNT("evaluations", 1);
    if (md.status == POLYSEED_ERR_MULT_LANG) { if (st != POLYSEED_ERR_MULT_LANG) pv_violation("C10/decode/ambiguous", "expected MULT_LANG, got %s", pv_status_name(st)); }
    else expect_status("decode", st, sup, arg, f, hist);
    if (st == POLYSEED_OK) { check_getters(s, f, "decode"); pv_api_free(s); }
    /* create: only the three low bits of the argument count */
    if (f < 8) {
        unsigned carg = f | (pv_randn(rng, 2) ? 0 : (pv_rand64(rng) & 0xfffffff8u));
        /* whatever the clock says at creation (far future, nanoseconds, before the epoch, the error value), the feature bits
         * stored are the requested ones */
        if (pv_randn(rng, 3) == 0) { static const uint64_t ODD[] = { 0, UINT64_MAX, UINT64_MAX - 1, 1ull << 63, 1700000000000000000ull, 1ull << 40, 0xFFFFFFFFull, 1ull << 33 }; pv_w->time_value = pv_randn(rng, 2) ? ODD[pv_randn(rng, sizeof ODD / sizeof *ODD)] : pv_rand64(rng); PV_COUNT("cell.create.with_an_extreme_clock", 1); }
        else pv_w->time_value = PV_EPOCH + pv_rand64(rng) % (1024 * PV_STEP);
        s = NULL; st = pv_api_create(carg, &s); PV_COUNT("evaluations", 1);
        expect_status("create", st, sup, arg, f, hist);
        if (st == POLYSEED_OK) {
            check_getters(s, f, "create");
            uint8_t* o = malloc(32); pv_api_store(s, o);
            unsigned stored = ((o[8] | ((unsigned)o[9] << 8)) >> 10);
            if (stored != f) pv_violation("C10/create-stores-other-bits", "create(0x%x) at clock %llu stored feature bits %u", carg, (unsigned long long)pv_w->time_value, stored);
            /* and the seed it made is a seed like any other: it loads again */
            { polyseed_data* t2 = NULL; int sl = pv_api_load(o, &t2); if (sl != POLYSEED_OK) pv_violation("C10/created-seed-does-not-load", "create(0x%x) at clock %llu: load(store(seed)) -> %s", carg, (unsigned long long)pv_w->time_value, pv_status_name(sl)); else pv_api_free(t2); }
            free(o); pv_api_free(s);
        }
        /* a request for a feature that is not enabled is refused as unsupported - also when the allocator happens to be failing
         * (creation has nothing to allocate for a seed it will not make) */
        if (!sup) {
            pv_w->fail_countdown = 1; s = NULL; st = pv_api_create(carg, &s); pv_w->fail_countdown = 0; PV_COUNT("evaluations", 1);
            if (st != POLYSEED_ERR_UNSUPPORTED) pv_violation("C10/create/status-with-failing-allocator", "create(0x%x) under mask %u with the allocator refusing its next request -> %s, expected ERR_UNSUPPORTED", carg, m, pv_status_name(st));
            else PV_COUNT("cell.create.ERR_UNSUPPORTED(allocator failing)", 1);
            if (st == POLYSEED_OK) pv_api_free(s);
        }
    }
    PV_DISTINCT("nontrivial", pv_mix(pv_mix(arg, f), pv_mix(hh, pv_mix(pv_hash_str(L->key), coin))));
    free(in); free(img);
}

/* ---------------------------------------------------------------- matrix */
static uint64_t n_matrix(void) { return NARGS * 32 * 2 * 2 * pv_scaled(4, 300); }
static void run_matrix(uint64_t idx, pv_rng* rng) {
    unsigned f = (unsigned)(idx % 32); unsigned ai = (unsigned)((idx / 32) % NARGS); bool with_hist = (idx / 32 / NARGS) % 2;
    bool reinject = (idx / 32 / NARGS / 2) % 2;          /* dependencies injected again between the enabling call and the use: must not touch the feature mask */
    unsigned arg = ARGS[ai];
    char hist[128] = ""; uint64_t hh = 0;
    if (with_hist) {
        int n = 1 + (int)pv_randn(rng, 4); size_t k = (size_t)snprintf(hist, sizeof hist, " after enabling");
        for (int i = 0; i < n; ++i) { unsigned a = pv_randn(rng, 3) ? pv_randn(rng, 8) : (unsigned)pv_rand64(rng); int r = pv_api_enable_features(a); hh = pv_mix(hh, a); k += (size_t)snprintf(hist + k, sizeof hist - k, " 0x%x", a);
            if (r != popcount3(a)) pv_violation("C10/enable-return-value", "enable_features(0x%x) returned %d", a, r); }
    }
    int r = pv_api_enable_features(arg);
    PV_COUNT("evaluations", 1);
    if (r != popcount3(arg)) pv_violation("C10/enable-return-value", "enable_features(0x%x) returned %d, expected %d", arg, r, popcount3(arg));
    else PV_COUNT("enable.return_ok", 1);
    if (reinject) { pv_inject_default(); hh = pv_mix(hh, 0x1e1); strncat(hist, " then polyseed_inject", sizeof hist - strlen(hist) - 1); PV_COUNT("matrix.cells_with_reinjection", 1); }
    cell(arg, f, rng, hist, hh);
    if (idx < 64 && f == 5) pv_sample("matrix", "enable_features(0x%x)%s; feature value %u -> %s at every entry point", arg, hist, f, pv_m_supported(f, arg & 7) ? "accepted" : "UNSUPPORTED");
}

/* ---------------------------------------------------------------- histories: enabling calls interleaved with creates */
static uint64_t n_hist(void) { return pv_scaled(3000, 1000000); }
static void run_hist(uint64_t idx, pv_rng* rng) {
    (void)idx;
    unsigned m = 0; bool known = false;
    int n = 4 + (int)pv_randn(rng, 12);
    for (int i = 0; i < n; ++i) {
        if (pv_randn(rng, 3) == 0 || !known) { unsigned a = pv_randn(rng, 4) ? pv_randn(rng, 8) : (unsigned)pv_rand64(rng); int r = pv_api_enable_features(a); m = a & 7; known = true;
            if (r != popcount3(a)) pv_violation("C10/enable-return-value", "enable_features(0x%x) returned %d", a, r); }
        else if (pv_randn(rng, 5) == 0) { pv_inject_default(); PV_COUNT("history.reinjections", 1); }
        else {
            unsigned f = pv_randn(rng, 8); polyseed_data* s = NULL; int st = pv_api_create(f, &s); PV_COUNT("evaluations", 1);
            bool sup = (f & ~m) == 0;
            if ((st == POLYSEED_OK) != sup || (st != POLYSEED_OK && st != POLYSEED_ERR_UNSUPPORTED)) pv_violation("C10/history/create", "last enabling mask %u, create(%u) -> %s", m, f, pv_status_name(st));
            else PV_COUNT("history.creates_ok", 1);
            if (st == POLYSEED_OK) pv_api_free(s);
        }
    }
    PV_DISTINCT("nontrivial", pv_mix(0x415, pv_rand64(rng)));
}

/* ---------------------------------------------------------------- the mask is process-wide: configured on one thread, honoured on all
 * The main thread makes the enabling call; 8 threads started afterwards (and working at the same time) run all four entry
 * points on seeds of every feature value and must see exactly that mask. */
static unsigned g_conc_mask;
static bool conc_iter(pv_rng* r, int iter, void* user, char* err, size_t errsz) {
    (void)user;
    unsigned f = (unsigned)iter % 32, m = g_conc_mask; bool sup = pv_m_supported(f, m);
    int want = sup ? POLYSEED_OK : POLYSEED_ERR_UNSUPPORTED;
    pv_mseed ms; pv_gen_mseed(r, 7, false, &ms); ms.features = f;
    unsigned coin = pv_gen_coin(r); pv_mlang* L; do { L = &pv_langs[pv_randn(r, (uint32_t)pv_nlangs)]; } while (!L->lib || !strncmp(L->key, "zh", 2));
    uint8_t* img = malloc(32); pv_m_image(&ms, img); char ph[2048]; pv_m_encode(&ms, L, coin, ph, sizeof ph);
    bool ok = true; polyseed_data* s = NULL;
    int st = pv_api_load(img, &s);
    if (st != want) { ok = false; snprintf(err, errsz, "mask %u enabled by the main thread: load of feature value %u -> %s", m, f, pv_status_name(st)); }
    if (st == POLYSEED_OK) { for (unsigned q = 0; q < 8; ++q) if (pv_api_get_feature(s, q) != (f & q & 7)) { ok = false; snprintf(err, errsz, "get_feature(%u) of features %u", q, f); } pv_api_free(s); }
    s = NULL; st = pv_api_decode_explicit(ph, coin, L->lib, &s);
    if (st != want) { ok = false; snprintf(err, errsz, "mask %u enabled by the main thread: decode_explicit of feature value %u -> %s", m, f, pv_status_name(st)); }
    if (st == POLYSEED_OK) pv_api_free(s);
    s = NULL; st = pv_api_decode(ph, coin, NULL, &s);
    if (st != want && st != POLYSEED_ERR_MULT_LANG) { ok = false; snprintf(err, errsz, "mask %u enabled by the main thread: decode of feature value %u -> %s", m, f, pv_status_name(st)); }
    if (st == POLYSEED_OK) pv_api_free(s);
    if (f < 8) { s = NULL; st = pv_api_create(f, &s); if (st != want) { ok = false; snprintf(err, errsz, "mask %u enabled by the main thread: create(%u) -> %s", m, f, pv_status_name(st)); } if (st == POLYSEED_OK) pv_api_free(s); }
    free(img);
    return ok;
}
static uint64_t n_conc(void) { return 8 * pv_scaled(1, 20); }
static void run_conc(uint64_t idx, pv_rng* rng) {
    g_conc_mask = (unsigned)(idx % 8);
    pv_api_enable_features(g_conc_mask | (pv_randn(rng, 2) ? 0xfffffff8u : 0));
    enum { NT = 8, IT = 320 }; static pv_conc_result res[NT];
    uint64_t seed = pv_rand64(rng);
    pv_concurrent(NT, IT, seed, 30, conc_iter, NULL, res);
    if (pv_concurrent_verdict(res, NT, IT, "C10/mask-not-honoured-on-other-threads", "concurrent.cells_ok")) PV_DISTINCT("nontrivial", pv_mix(seed, idx));
}

static void fini(void) { pv_set_flag("exhaustive.matrix(argument x 32 feature values x 4 entry points x with/without history)", true); }

/* the default state (no enabling call at all) can only be observed in a fresh process: this is the first section,
 * init() makes no enabling call and every shard is a fresh process */
static uint64_t n_default(void) { return 32; }
static void run_default(uint64_t idx, pv_rng* rng) {
    /* runs before any enable_features call of this process (first section, and each shard is a fresh process) */
    unsigned f = (unsigned)idx;
    pv_mseed ms; pv_gen_mseed(rng, 7, false, &ms); ms.features = f;
    uint8_t* img = malloc(32); pv_m_image(&ms, img);
    polyseed_data* s = NULL; int st = pv_api_load(img, &s); PV_COUNT("evaluations", 1);
    bool sup = pv_m_supported(f, 0);
    if ((st == POLYSEED_OK) != sup || (st != POLYSEED_OK && st != POLYSEED_ERR_UNSUPPORTED)) pv_violation("C10/default-mask", "no enabling call yet: load of feature value %u -> %s", f, pv_status_name(st));
    else { PV_COUNT("default.cells_ok", 1); PV_DISTINCT("nontrivial", pv_mix(0xdef, f)); }
    if (st == POLYSEED_OK) pv_api_free(s);
    if (f < 8) { s = NULL; st = pv_api_create(f, &s); if ((st == POLYSEED_OK) != (f == 0)) pv_violation("C10/default-mask", "no enabling call yet: create(%u) -> %s", f, pv_status_name(st)); if (st == POLYSEED_OK) pv_api_free(s); }
    free(img);
}

int main(int argc, char** argv) {
    static const pv_section secs[] = { { "default", n_default, run_default }, { "matrix", n_matrix, run_matrix }, { "histories", n_hist, run_hist }, { "threads", n_conc, run_conc } };
    return pv_main(argc, argv, "C10", secs, 4, init, fini);
}
