/* drv_c08 — abbreviated and unaccented words are accepted by one exact rule, and only by it (DESIGN 3/C08)
 * Every token variant is embedded in an otherwise valid phrase and decoded by polyseed_decode_explicit; status and
 * seed must equal what the model pipeline (NFKD -> split -> model matcher -> checksum -> features) predicts. */
#include "pv.h"

static uint8_t* g_img;

static void init(void) {
    pv_world_init(pv.seed);
    pv_model_init();
    pv_inject_default();
    pv_model_bind_library();
    pv_api_enable_features(7);
    g_img = malloc(32);
    pv_info("rule", "per language x word: every prefix length x every subset of the word's accents kept/dropped x NFC/NFD input, plus boundary classes (letter appended/inserted/"
                    "substituted around the 4th letter and at the end, an accent the word does not have, upper-case initial, a non-mark non-ASCII letter); each token sits at a rotating "
                    "position of a valid phrase. Expected outcome comes from the model matcher. non-trivial = token variant whose library outcome was compared with a definite model "
                    "prediction; distinct = distinct (language, word, variant token)");
}

typedef struct cps { uint32_t c[360]; int n; } cps;
static bool g_skip_too_long;
static void cps_str(const cps* t, char* out) { int k = 0; for (int i = 0; i < t->n; ++i) k += pv_utf8_encode(t->c[i], out + k); out[k] = 0; }

/* decode phrase (words of d, token at position p replaced) and compare with the model */
static void try_token(pv_mlang* L, unsigned w, const cps* tok, bool nfc, const char* cls, pv_rng* rng, uint64_t rot) {
    int p = (int)(rot % 16);
    unsigned coin = (unsigned)(rot * 37 % 2048), d[16]; pv_mseed m;
    pv_gen_place(rng, p, w, coin, false, 7, d, &m);
    char tokstr[1500]; cps_str(tok, tokstr);
    char phrase[4096]; size_t k = 0;
    for (int i = 0; i < 16; ++i) {
        const char* t = (i == p) ? tokstr : L->word[d[i]];
        size_t l = strlen(t); memcpy(phrase + k, t, l); k += l;
        if (i < 15) phrase[k++] = ' ';
    }
    phrase[k] = 0;
    if (g_skip_too_long) { char* nf = pv_nfkd_alloc(phrase); bool fits = strlen(nf) < POLYSEED_STR_SIZE; free(nf); if (!fits) { PV_COUNT("marks.skipped(the phrase does not fit the buffer)", 1); return; } }
    char* in0 = nfc ? pv_nfc_alloc(phrase) : pv_exact_str(phrase);
    /* every third input lives in a larger buffer with stale non-ASCII bytes behind the terminator (what a reused input
     * field looks like): nothing behind the terminator may matter */
    char* in = in0;
    if (rot % 3 == 1) { size_t n = strlen(in0); in = malloc(n + 1 + 48); memcpy(in, in0, n + 1); for (size_t q = n + 1; q < n + 49; ++q) in[q] = (char)((q & 1) ? 0xA9 : 0xC3); free(in0); PV_COUNT("inputs.with_stale_bytes_behind_the_terminator", 1); }
    pv_mdecode md; pv_m_decode(in, coin, L, 7, &md);
    polyseed_data* s = NULL;
    int st = pv_api_decode_explicit(in, coin, L->lib, &s);
    PV_COUNT("evaluations", 1);
    if (md.status < 0) { PV_COUNT("tokens.unspecified_by_model(skipped)", 1); if (st == POLYSEED_OK) pv_api_free(s); free(in); return; }
    /* was the variant token itself accepted by the model? (status alone does not say: UNSUPPORTED/CHECKSUM also mean "recognised") */
    int midx = -1; char* tnf = pv_nfkd_alloc(tokstr); int mres = pv_m_match(L, tnf, &midx); free(tnf);
    const char* expect = mres == PV_ACCEPT ? "accepted" : "rejected";
    pv_countf(1, "tokens.%s.%s.%s", cls, L->key, expect);
    bool ok = true;
    if (st != md.status) {
        ok = false;
        char key[200]; snprintf(key, sizeof key, "C08/%s/%s/model-%s", cls, L->key, expect);
        pv_violation(key, "%s word %u '%s', token '%s' (%s) at position %d: library %s, model %s; phrase '%s'", L->name_en, w, L->word[w], pv_esc(tokstr), nfc ? "NFC input" : "NFD input",
                     p, pv_status_name(st), pv_status_name(md.status), pv_esc(in));
    } else if (st == POLYSEED_OK) {
        pv_api_store(s, g_img); uint8_t mimg[32]; pv_m_image(&md.seed, mimg);
        if (memcmp(g_img, mimg, 32)) {
            ok = false;
            char key[200]; snprintf(key, sizeof key, "C08/%s/%s/decodes-to-other-seed", cls, L->key);
            pv_violation(key, "%s word %u, token '%s': seed %s, model %s", L->name_en, w, pv_esc(tokstr), pv_hex(g_img, 32), pv_hex(mimg, 32));
        }
    }
    if (st == POLYSEED_OK) pv_api_free(s);
    /* the same rule holds when the language is detected automatically, whatever was decoded before: in a sub-sample a valid
     * phrase of this language is restored first (so that anything the library might remember points at this language), then the
     * variant phrase goes through polyseed_decode and is compared with the model's auto-detection pipeline */
    if (rot % 4 == 2) {
        if (rot % 8 == 2) {
            unsigned d2[16]; pv_mseed m2; pv_gen_place(rng, (int)(rot % 16), (w + 1) % PV_NWORDS, coin, false, 7, d2, &m2);
            char warm[2048]; pv_m_join_space(L, d2, warm, sizeof warm);
            char* wi = pv_exact_str(warm); polyseed_data* ws = NULL; const polyseed_lang* wl = NULL;
            int wst = pv_api_decode(wi, coin, &wl, &ws); PV_COUNT("evaluations", 1);
            if (wst == POLYSEED_OK) { pv_api_free(ws); PV_COUNT("auto.preceded_by_a_successful_restore_in_the_same_language", 1); }
            free(wi);
        }
        pv_mdecode mda; pv_m_decode(in, coin, NULL, 7, &mda);
        polyseed_data* a = NULL; const polyseed_lang* lo = NULL;
        int sa = pv_api_decode(in, coin, &lo, &a);
        PV_COUNT("evaluations", 1);
        if (mda.status < 0) PV_COUNT("auto.unspecified_by_model(skipped)", 1);
        else if (sa != mda.status) {
            ok = false;
            char key[200]; snprintf(key, sizeof key, "C08/auto/%s/%s/model-%s", cls, L->key, expect);
            pv_violation(key, "%s word %u '%s', token '%s' at position %d: polyseed_decode %s, model %s; phrase '%s'", L->name_en, w, L->word[w], pv_esc(tokstr), p, pv_status_name(sa), pv_status_name(mda.status), pv_esc(in));
        } else {
            pv_countf(1, "auto.%s", pv_status_name(sa));
            if (sa == POLYSEED_OK) { pv_api_store(a, g_img); uint8_t mimg[32]; pv_m_image(&mda.seed, mimg);
                if (memcmp(g_img, mimg, 32) || (mda.lang >= 0 && lo != pv_langs[mda.lang].lib)) { ok = false; char key[200]; snprintf(key, sizeof key, "C08/auto/%s/%s/decodes-to-other-seed-or-language", cls, L->key); pv_violation(key, "%s word %u, token '%s'", L->name_en, w, pv_esc(tokstr)); } }
        }
        if (sa == POLYSEED_OK) pv_api_free(a);
    }
    if (ok) PV_DISTINCT("nontrivial", pv_mix(pv_mix(pv_hash_str(L->key), w), pv_mix(pv_hash(tok->c, (size_t)tok->n * 4, 3), nfc)));
    if ((rot & 0x3fff) == 5) pv_sample(cls, "%s word '%s' token '%s' -> %s (model %s)", L->name_en, L->word[w], pv_esc(tokstr), pv_status_name(st), expect);
    free(in);
}


/* ---------------------------------------------------------------- many redundant accents on one token
 * "the comparison ignores accents whether or not the user typed them": however many.  A word or an abbreviation of it carries
 * 1 ... 200 extra combining marks (piled on one letter, spread over the letters, in front, at the end); Spanish and French must
 * still recognise it, the four other abbreviating languages must not (a mark is a character the word does not have there). */
static uint64_t n_marks(void) { return pv_scaled(3000, 200000); }
static void run_marks(uint64_t idx, pv_rng* rng) {
    static const char* const LN[] = { "Spanish", "French", "Spanish", "French", "Spanish", "French", "English", "Italian", "Czech", "Portuguese" };
    pv_mlang* L = pv_lang_by_name(LN[idx % 10]);
    if (!L || !L->lib) return;
    static const int KS[] = { 1, 2, 3, 5, 8, 9, 10, 11, 12, 13, 14, 15, 16, 17, 20, 24, 27, 28, 29, 30, 31, 32, 33, 40, 50, 61, 62, 63, 64, 65, 100, 125, 126, 127, 128, 129, 150, 200 };
    int K = KS[(idx / 10) % (sizeof KS / sizeof *KS)];
    unsigned w = pv_randn(rng, PV_NWORDS);
    const uint32_t* cp = L->cp[w]; int n = L->ncp[w];
    /* the word as typed: all of it or a prefix of 3 ... n-1 letters (3 is too short), its own accents kept or dropped */
    int letters = 0; for (int i = 0; i < n; ++i) if (!pv_is_accent(cp[i])) ++letters;
    int keep = letters; uint32_t how = pv_randn(rng, 4);
    if (how == 1 && letters > 4) keep = 4 + (int)pv_randn(rng, (uint32_t)(letters - 4)); else if (how == 2) keep = letters >= 4 ? 4 : letters; else if (how == 3 && idx % 7 == 0) keep = 3;
    bool drop_own = pv_randn(rng, 2);
    cps base; base.n = 0; int seen = 0;
    for (int i = 0; i < n; ++i) { if (!pv_is_accent(cp[i])) { if (seen == keep) break; ++seen; } else if (drop_own) continue; base.c[base.n++] = cp[i]; }
    /* where the extra marks go */
    uint32_t place = pv_randn(rng, 4); int at = base.n ? (int)pv_randn(rng, (uint32_t)base.n) : 0;
    cps t; t.n = 0;
    if (place == 2) for (int q = 0; q < K; ++q) t.c[t.n++] = 0x300 + pv_randn(rng, 0x70);                 /* in front: dead keys typed first */
    for (int i = 0; i < base.n; ++i) {
        t.c[t.n++] = base.c[i];
        if (place == 0 && i == at) for (int q = 0; q < K; ++q) t.c[t.n++] = 0x300 + pv_randn(rng, 0x70);   /* piled on one letter */
        if (place == 1) for (int q = i; q < K; q += base.n) t.c[t.n++] = 0x300 + pv_randn(rng, 0x70);      /* spread over the letters */
    }
    if (place == 3) for (int q = 0; q < K; ++q) t.c[t.n++] = 0x300 + pv_randn(rng, 0x70);                 /* at the end */
    char probe[1500]; cps_str(&t, probe);
    if (strlen(probe) + 15 * 4 >= POLYSEED_STR_SIZE - 1) { PV_COUNT("marks.skipped(the phrase does not fit the buffer)", 1); return; }
    pv_countf(1, "marks.run_of_%d", K); pv_countf(1, "marks.token_bytes.%s", strlen(probe) < 32 ? "under-32" : strlen(probe) < 64 ? "32-63" : strlen(probe) < 128 ? "64-127" : strlen(probe) < 256 ? "128-255" : "256-and-more");
    g_skip_too_long = true; try_token(L, w, &t, pv_randn(rng, 3) == 0, "many-marks", rng, idx * 4 + 2); g_skip_too_long = false;      /* rot % 4 == 2: the automatic decoder sees it too */
}


/* ---------------------------------------------------------------- what comes late in a long input still counts
 * The library hands the caller's whole string to the normaliser, however long; what it gets back is what it decodes.  A Spanish or
 * French phrase whose last word carries thousands of redundant accents is several thousand bytes long; with one stray byte at its
 * very end a strict normaliser (one that answers ill-formed input with an empty string) returns nothing, so both decoders must see
 * an empty phrase - unless the library looked at a shortened copy and never showed the end of the string to the normaliser */
static uint64_t n_tail(void) { return pv_scaled(60, 3000); }
static void run_tail(uint64_t idx, pv_rng* rng) {
    pv_mlang* L = pv_lang_by_name((idx & 1) ? "Spanish" : "French");
    if (!L || !L->lib) return;
    static const int MS[] = { 300, 700, 1100, 1200, 1500, 2500, 6000 };
    int M = MS[(idx / 2) % (sizeof MS / sizeof *MS)];
    pv_mseed m; pv_gen_mseed(rng, 7, true, &m); unsigned coin = pv_gen_coin(rng), d[16]; pv_m_coeffs(&m, coin, d);
    char* buf = pv_xmalloc(4096 + 2 * (size_t)M + 8); size_t k = 0;
    for (int i = 0; i < 16; ++i) { size_t l = strlen(L->word[d[i]]); memcpy(buf + k, L->word[d[i]], l); k += l; if (i < 15) buf[k++] = ' '; }
    buf[k] = 0; if (!pv_utf8_valid(buf)) pv_fatal("C08: list word is not UTF-8");
    bool nonascii_early = false; for (size_t i = 0; i < k; ++i) if ((unsigned char)buf[i] & 0x80) nonascii_early = true;
    for (int q = 0; q < M; ++q) { buf[k++] = (char)0xCC; buf[k++] = (char)0x81; }
    static const uint8_t STRAY[] = { 0xFF, 0xE9, 0xC3, 0xA0 };
    buf[k++] = (char)STRAY[idx % 4]; buf[k] = 0;
    (void)nonascii_early;
    char* in = pv_exact_str(buf); free(buf);
    pv_w->norm_invalid_empty = 1;
    polyseed_data* s = NULL; int st = pv_api_decode_explicit(in, coin, L->lib, &s);
    polyseed_data* a = NULL; const polyseed_lang* lo = NULL; int sa = pv_api_decode(in, coin, &lo, &a);
    pv_w->norm_invalid_empty = 0;
    PV_COUNT("evaluations", 2);
    bool ok = true;
    if (st != POLYSEED_ERR_NUM_WORDS) { ok = false; pv_violation("C08/long-input/end-of-string-not-shown-to-the-normaliser", "%s: a %zu-byte phrase (last word with %d redundant accents, one stray byte at the end) and a normaliser that answers ill-formed input with an empty string: decode_explicit -> %s", L->name_en, strlen(in), M, pv_status_name(st)); }
    if (sa != POLYSEED_ERR_NUM_WORDS) { ok = false; pv_violation("C08/auto/long-input/end-of-string-not-shown-to-the-normaliser", "%s: %zu-byte phrase, strict normaliser: polyseed_decode -> %s", L->name_en, strlen(in), pv_status_name(sa)); }
    if (st == POLYSEED_OK) pv_api_free(s);
    if (sa == POLYSEED_OK) pv_api_free(a);
    if (ok) { pv_countf(1, "tail.strict_normaliser_saw_the_end_of_a_long_input.%d_marks", M); PV_DISTINCT("nontrivial", pv_mix(pv_hash_str(in), idx)); }
    free(in);
}

/* ---------------------------------------------------------------- exhaustive per word */
#define WBLK 32
static uint64_t n_words(void) { return (uint64_t)pv_nlangs * (PV_NWORDS / WBLK); }
static void run_words(uint64_t idx, pv_rng* rng) {
    pv_mlang* L = &pv_langs[idx / (PV_NWORDS / WBLK)]; unsigned blk = (unsigned)(idx % (PV_NWORDS / WBLK));
    if (!L->lib) return;
    bool latin = L->prefix;
    /* quick: all of es/fr/en, a 1/4 stripe of the other languages; thorough: everything */
    bool full = pv.tier || L->accents || !strcmp(L->key, "en");
    if (pv.scale_pct < 100) { uint64_t k = 100 / (pv.scale_pct ? pv.scale_pct : 1); if (idx % k != pv.seed % k) return; }     /* second-build stripes */
    for (unsigned w = blk * WBLK; w < (blk + 1) * WBLK; ++w) {
        if (!full && (w & 3) != (unsigned)(pv.seed & 3)) continue;
        const uint32_t* cp = L->cp[w]; int n = L->ncp[w];
        /* letters and the accents that follow them */
        int letter_at[64], nl = 0, acc_at[16], na = 0;
        for (int i = 0; i < n; ++i) { if (L->accents && pv_is_accent(cp[i])) { if (na < 16) acc_at[na++] = i; } else if (nl < 64) letter_at[nl++] = i; }
        uint64_t rot = (uint64_t)w * 131;
        /* (a) prefixes x accent subsets x input form */
        for (int k = 1; k <= nl; ++k) {
            int end = (k < nl) ? letter_at[k] : n;          /* code points up to (excluding) the next letter: accents of the k-th letter included */
            int accs[16], nacc = 0;
            for (int a = 0; a < na; ++a) if (acc_at[a] < end) accs[nacc++] = acc_at[a];
            for (unsigned mask = 0; mask < (1u << nacc); ++mask) {
                cps t; t.n = 0;
                for (int i = 0; i < end; ++i) {
                    bool is_acc = false; int which = -1;
                    for (int a = 0; a < nacc; ++a) if (accs[a] == i) { is_acc = true; which = a; }
                    if (is_acc && !(mask & (1u << which))) continue;
                    t.c[t.n++] = cp[i];
                }
                bool last_accented = nacc > 0 && accs[nacc - 1] >= letter_at[k - 1] && (mask & (1u << (nacc - 1)));
                const char* cls = (k == nl) ? (nacc ? "full-word-accent-subset" : "full-word")
                                : (last_accented ? "accent-terminated-prefix" : (nacc ? "prefix-accent-subset" : "prefix"));
                for (int form = 0; form < 2; ++form) {
                    if (form == 1 && !(L->compose)) continue;      /* NFC differs from NFD only where composition applies */
                    try_token(L, w, &t, form == 1, cls, rng, rot++);
                }
            }
        }
        /* (b) boundary classes */
        static const int around[] = { 2, 3, 4, -1 };      /* after the 3rd, 4th, 5th letter; -1 = at the end */
        for (unsigned a = 0; a < 4; ++a) {
            int li = around[a] < 0 ? nl : around[a] + 1;   /* number of letters before the edit */
            if (li > nl) continue;
            int at = (li < nl) ? letter_at[li] : n;
            uint32_t extra = latin ? (uint32_t)('a' + (w + a) % 26) : cp[(w + a) % (unsigned)n];
            cps t;
            /* appended: prefix of li letters + extra letter (end of token) */
            t.n = 0; for (int i = 0; i < at; ++i) t.c[t.n++] = cp[i]; t.c[t.n++] = extra;
            try_token(L, w, &t, false, "letter-appended", rng, rot++);
            /* inserted: whole word with an extra letter at that place */
            t.n = 0; for (int i = 0; i < at; ++i) t.c[t.n++] = cp[i]; t.c[t.n++] = extra; for (int i = at; i < n; ++i) t.c[t.n++] = cp[i];
            try_token(L, w, &t, false, "letter-inserted", rng, rot++);
            /* substituted: the letter at that place replaced */
            if (li < nl) {
                t.n = 0; for (int i = 0; i < n; ++i) t.c[t.n++] = (i == at) ? (cp[i] == extra ? extra + 1 : extra) : cp[i];
                try_token(L, w, &t, false, "letter-substituted", rng, rot++);
            }
            /* a non-mark, non-ASCII letter inserted */
            static const uint32_t foreign[] = { 0xf8 /* o-slash */, 0xdf /* sharp s */, 0x3042 /* hiragana a */, 0x142 /* l-stroke */, 0x4e2d, 0x1100 };
            t.n = 0; for (int i = 0; i < at; ++i) t.c[t.n++] = cp[i]; t.c[t.n++] = foreign[(w + a) % 6]; for (int i = at; i < n; ++i) t.c[t.n++] = cp[i];
            try_token(L, w, &t, false, "foreign-letter-inserted", rng, rot++);
            /* an accent the word does not have, after the letter before that place */
            if (li >= 1) {
                int after = (li < nl) ? letter_at[li] : n;      /* insert before the next letter, i.e. after the li-th letter and its own accents */
                t.n = 0; for (int i = 0; i < after; ++i) t.c[t.n++] = cp[i]; t.c[t.n++] = 0x308 /* diaeresis */; for (int i = after; i < n; ++i) t.c[t.n++] = cp[i];
                try_token(L, w, &t, (w & 1) && L->compose, "extra-accent", rng, rot++);
                /* ... and on a prefix that ends right there */
                if (li >= 4 && li < nl) { t.n = 0; for (int i = 0; i < after; ++i) t.c[t.n++] = cp[i]; t.c[t.n++] = 0x301; try_token(L, w, &t, false, "extra-accent-on-prefix-end", rng, rot++); }
            }
        }
        /* code points right at the edges of the accent block U+0300..U+036F (and a few look-alikes): only the block itself is ignored */
        if (L->accents) {
            static const uint32_t edge[] = { 0x2ff, 0x370, 0x374, 0x37a, 0x37f, 0x380, 0x2c6, 0xb4, 0x384 };
            for (unsigned e = 0; e < sizeof edge / sizeof *edge; ++e) {
                if ((w + e) % 3) continue;
                cps t; int at = ((w >> 2) & 1) ? n : (nl > 4 ? letter_at[4] : n);      /* at the very end, or right after the 4th letter */
                t.n = 0; for (int i = 0; i < at; ++i) t.c[t.n++] = cp[i]; t.c[t.n++] = edge[e]; if (e & 1) for (int i = at; i < n; ++i) t.c[t.n++] = cp[i];
                try_token(L, w, &t, false, "accent-block-edge", rng, rot++);
            }
        }
        /* a combining mark typed before the first letter: an accent like any other in es/fr, a foreign character elsewhere */
        if ((w & 3) == 1) { cps t; t.n = 0; t.c[t.n++] = 0x301; for (int i = 0; i < n; ++i) t.c[t.n++] = cp[i]; try_token(L, w, &t, false, "leading-accent", rng, rot++);
                            if (nl > 4) { t.n = 0; t.c[t.n++] = 0x303; for (int i = 0; i < letter_at[4]; ++i) t.c[t.n++] = cp[i]; try_token(L, w, &t, false, "leading-accent-on-prefix", rng, rot++); } }
        if (latin && cp[0] >= 'a' && cp[0] <= 'z') { cps t; t.n = n; memcpy(t.c, cp, (size_t)n * 4); t.c[0] -= 32; try_token(L, w, &t, false, "uppercase-initial", rng, rot++); }
        { cps t; t.n = 0; try_token(L, w, &t, false, "empty-token", rng, rot++); }
        PV_COUNT("words.swept", 1);
    }
}

/* ---------------------------------------------------------------- valid phrases with an independent permitted/forbidden variant at every position */
static uint64_t n_mixed(void) { return pv_scaled(40000, 3000000); }
static void run_mixed(uint64_t idx, pv_rng* rng) {
    pv_mlang* L = &pv_langs[idx % (uint64_t)pv_nlangs];
    if (!L->lib) return;
    pv_mseed m; pv_gen_mseed(rng, 7, true, &m);
    unsigned coin = pv_gen_coin(rng), d[16]; pv_m_coeffs(&m, coin, d);
    bool only_permitted = pv_randn(rng, 4) != 0;
    char phrase[4096]; size_t k = 0;
    for (int i = 0; i < 16; ++i) {
        const uint32_t* cp = L->cp[d[i]]; int n = L->ncp[d[i]];
        int nl = L->accents ? L->nscp[d[i]] : n;
        int keep = nl;
        if (L->prefix && pv_randn(rng, 2)) { keep = 4 + (int)pv_randn(rng, (uint32_t)(nl > 4 ? nl - 3 : 1)); if (keep > nl) keep = nl; if (!only_permitted && pv_randn(rng, 8) == 0) keep = 1 + (int)pv_randn(rng, 3); }
        int letters = 0;
        for (int c = 0; c < n; ++c) {
            bool acc = L->accents && pv_is_accent(cp[c]);
            if (!acc) { if (letters == keep) break; ++letters; }
            else if (pv_randn(rng, 2)) continue;
            k += (size_t)pv_utf8_encode(cp[c], phrase + k);
        }
        if (!only_permitted && pv_randn(rng, 24) == 0) phrase[k++] = (char)('a' + pv_randn(rng, 26));
        if (i < 15) phrase[k++] = ' ';
    }
    phrase[k] = 0;
    char* in = (L->compose && pv_randn(rng, 2)) ? pv_nfc_alloc(phrase) : pv_exact_str(phrase);
    pv_mdecode md; pv_m_decode(in, coin, L, 7, &md);
    polyseed_data* s = NULL;
    int st = pv_api_decode_explicit(in, coin, L->lib, &s);
    PV_COUNT("evaluations", 1); pv_countf(1, "mixed.%s.%s", only_permitted ? "permitted" : "with-forbidden", pv_status_name(st));
    if (md.status >= 0) {
        if (only_permitted && md.status != POLYSEED_OK) pv_fatal("C08: the model rejects a phrase altered only in permitted ways: '%s' -> %s", in, pv_status_name(md.status));
        if (st != md.status) {
            char key[160]; snprintf(key, sizeof key, "C08/mixed-phrase/%s/%s", L->key, only_permitted ? "permitted-variants-rejected" : "status");
            pv_violation(key, "%s: '%s' coin %u: library %s, model %s", L->name_en, pv_esc(in), coin, pv_status_name(st), pv_status_name(md.status));
        } else if (st == POLYSEED_OK) {
            const char* mm = pv_seed_mismatch(s, only_permitted ? &m : &md.seed, coin);
            if (mm) { char key[160]; snprintf(key, sizeof key, "C08/mixed-phrase/%s/decodes-to-other-seed", L->key); pv_violation(key, "%s: '%s': %s", L->name_en, pv_esc(in), mm); }
            else PV_DISTINCT("nontrivial", pv_mix(pv_hash_str(in), coin));
        } else PV_DISTINCT("nontrivial", pv_mix(pv_hash_str(in), coin));
    }
    if (st == POLYSEED_OK) pv_api_free(s);
    if (idx < 10) pv_sample("mixed", "%s coin %u '%s' -> %s", L->name_en, coin, pv_esc(in), pv_status_name(st));
    free(in);
}

/* tokens that are far longer than any word but start like one: letter counters of any width must not wrap */
static uint64_t n_long(void) { return (uint64_t)pv_nlangs * pv_scaled(250, 4000); }
static void run_long(uint64_t idx, pv_rng* rng) {
    pv_mlang* L = &pv_langs[idx % (uint64_t)pv_nlangs];
    if (!L->lib) return;
    unsigned w = pv_randn(rng, PV_NWORDS);
    const uint32_t* cp = L->cp[w]; int n = L->ncp[w];
    static const int LENS[] = { 250, 254, 255, 256, 257, 258, 259, 260, 261, 262, 263, 264, 265, 266, 268, 270, 280, 300 };
    int total = LENS[pv_randn(rng, sizeof LENS / sizeof *LENS)];
    int head = 1 + (int)pv_randn(rng, (uint32_t)n);                 /* how many code points of the word lead the token */
    /* build phrase by hand: 15 shortest-possible neighbours keep the whole input below the buffer size */
    unsigned coin = pv_gen_coin(rng), d[16]; pv_mseed m; int p = (int)pv_randn(rng, 16);
    pv_gen_place(rng, p, w, coin, false, 7, d, &m);
    char phrase[8192]; size_t k = 0;
    uint32_t filler = L->prefix ? (uint32_t)('a' + pv_randn(rng, 26)) : cp[pv_randn(rng, (uint32_t)n)];
    for (int i = 0; i < 16; ++i) {
        if (i == p) { for (int c = 0; c < head; ++c) k += (size_t)pv_utf8_encode(cp[c], phrase + k); for (int c = head; c < total; ++c) k += (size_t)pv_utf8_encode(pv_randn(rng, 3) ? filler : (uint32_t)('a' + pv_randn(rng, 26)), phrase + k); }
        else { const char* t = L->word[d[i]]; size_t l = strlen(t); memcpy(phrase + k, t, l); k += l; }
        if (i < 15) phrase[k++] = ' ';
    }
    phrase[k] = 0;
    char* nf = pv_nfkd_alloc(phrase); bool fits = strlen(nf) < POLYSEED_STR_SIZE; free(nf);
    if (!fits) { PV_COUNT("long.skipped_does_not_fit_the_buffer", 1); return; }
    char* in = pv_exact_str(phrase);
    pv_mdecode md; pv_m_decode(in, coin, L, 7, &md);
    polyseed_data* s = NULL; int st = pv_api_decode_explicit(in, coin, L->lib, &s);
    PV_COUNT("evaluations", 1); pv_countf(1, "long.tokens.%s", pv_status_name(st));
    if (md.status >= 0 && st != md.status) { char key[128]; snprintf(key, sizeof key, "C08/overlong-token/%s", L->key); pv_violation(key, "%s: token of %d letters starting with %d letters of '%s' -> %s, model %s", L->name_en, total, head, L->word[w], pv_status_name(st), pv_status_name(md.status)); }
    else PV_DISTINCT("nontrivial", pv_mix(pv_hash_str(in), coin));
    if (st == POLYSEED_OK) pv_api_free(s);
    if (idx < 3) pv_sample("overlong-token", "%s: %d-letter token with the first %d letters of '%s' -> %s", L->name_en, total, head, L->word[w], pv_status_name(st));
    free(in);
}

static void fini(void) { pv_set_flag("exhaustive.per_word_variants(es,fr,en always; all languages in thorough)", true); }
int main(int argc, char** argv) {
    static const pv_section secs[] = { { "words", n_words, run_words }, { "mixed", n_mixed, run_mixed }, { "long", n_long, run_long }, { "marks", n_marks, run_marks }, { "tail", n_tail, run_tail } };
    return pv_main(argc, argv, "C08", secs, 5, init, fini);
}
