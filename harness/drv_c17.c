/* drv_c17 — the public phrase-buffer size bounds every phrase the library can produce (DESIGN 3/C17) */
#include "pv.h"

/* "... never overruns the caller's buffer or its own": the library's own phrase buffer cannot be seen by a red-zone tool when it
 * sits inside a larger object (a struct of locals), but the library itself tells how large it believes the buffer is - it wipes it
 * through the injected memzero.  A string handed to a normaliser from address p must fit the extent the library wipes at p; a
 * wipe shorter than the string that lived there means the buffer is smaller than its contents (or, no better, that part of the
 * phrase is left behind) */
static void own_buffer_check(const char* what, const pv_mlang* L) {
    for (int i = 0; i < pv_w->nev; ++i) {
        const pv_event* e = &pv_w->ev[i];
        if (e->kind != PV_EV_NFC && e->kind != PV_EV_NFKD) continue;
        /* the contiguous extent wiped from p onwards (a library may wipe a buffer in several pieces) */
        const char* cur = e->ptr; bool grew = true, any = false;
        while (grew) {
            grew = false;
            for (int k = 0; k < pv_w->nev; ++k) {
                const pv_event* z = &pv_w->ev[k];
                if (z->kind != PV_EV_MEMZERO || cur < (const char*)z->ptr || cur >= (const char*)z->ptr + z->len) continue;
                cur = (const char*)z->ptr + z->len; grew = true; any = true;
            }
        }
        if (!any) continue;
        size_t extent = (size_t)(cur - (const char*)e->ptr);
        pv_countf(1, "own_buffer.extent_wiped_from_the_address_of_a_normaliser_input.%zu", extent); PV_COUNT("own_buffer.observations", 1);
        if (extent < e->len)
            pv_violation("C17/own-buffer-smaller-than-its-string", "%s (%s): a %zu-byte string was handed to the normaliser from a buffer of which the library wipes %zu bytes", what, L->name_en, e->len, extent);
    }
}

static char* hw[PV_MAXLANG][PV_NWORDS];     /* words harvested through polyseed_encode */
static int len_nfkd[PV_MAXLANG][PV_NWORDS], len_nfc[PV_MAXLANG][PV_NWORDS];
static bool harvested[PV_MAXLANG];

static void harvest(int l) {
    if (harvested[l]) return;
    pv_mlang* L = &pv_langs[l];
    pv_rng r; pv_rng_seed(&r, 17, (uint64_t)l, 0);
    char* out = malloc(POLYSEED_STR_SIZE * 4);   /* generous: the bound itself is what is being decided */
    for (unsigned i = 0; i < PV_NWORDS; ++i) {
        /* all other words are the shortest possible so that the harvesting phrase can never overflow */
        pv_mseed m; memset(&m, 0, sizeof m);
        unsigned c[16] = { 0 }; c[15] = i; c[0] = pv_m_checkvalue(c); pv_m_unpack(c, &m);
        polyseed_data* s = pv_seed_from_model(&m);
        if (!s) pv_fatal("C17: cannot load harvesting seed");
        pv_cur.note = "harvest";
        pv_api_encode(s, L->lib, 0, out);
        PV_COUNT("evaluations", 1); PV_COUNT("harvest.encodes", 1);
        char* nf = pv_nfkd_alloc(out);
        char* sp = strrchr(nf, ' ');
        hw[l][i] = pv_exact_str(sp ? sp + 1 : nf);
        len_nfkd[l][i] = (int)strlen(hw[l][i]);
        char* nfc = pv_nfc_alloc(hw[l][i]); len_nfc[l][i] = (int)strlen(nfc); free(nfc);
        free(nf);
        pv_api_free(s);
    }
    free(out);
    harvested[l] = true;
}

static void init(void) {
    pv_world_init(pv.seed);
    pv_model_init();
    pv_inject_default();
    pv_model_bind_library();
    pv_api_enable_features(7);
    pv_info("rule", "per language: exact worst-case phrase length = sum over the 16 positions of the longest admissible word (all 2048 words; even "
                    "indices at the third word) + 15 separators, in the decomposed internal form, the decoder's NFKD form and the output form, compared "
                    "with POLYSEED_STR_SIZE of the header being compiled; witnesses: seeds built from the longest words per position, encoded under "
                    "ASan and decoded by both decoders. non-trivial = a witness whose phrase is within 24 bytes of the language's bound or a completed bound; "
                    "distinct = distinct (language, coefficient vector, coin)");
    pv_maxf(POLYSEED_STR_SIZE, "POLYSEED_STR_SIZE");
}

/* ---------------------------------------------------------------- exact bound */
static int admissible(int p, unsigned i) { return !(p == 2 && (i & 1)); }
/* "the public phrase-buffer size": callers use the macro as a number, in every position an expression allows - they divide a pool
 * by it, take remainders, negate it, multiply it.  It must behave like the size of polyseed_str everywhere (a macro body without
 * parentheses has the right value on its own and the wrong one as the right operand of / or %) */
static void macro_as_a_number(void) {
    volatile size_t pool = 1000003, real = sizeof(polyseed_str), words = 16, img = sizeof(polyseed_storage);
    bool ok = true;
#define SAME(expr_macro, expr_real, what) do { long long a = (long long)(expr_macro), b = (long long)(expr_real); if (a != b) { ok = false; pv_violation("C17/public-size-macro-is-not-a-number", "%s: %lld with the macro, %lld with the size it stands for", what, a, b); } } while (0)
    SAME(pool / POLYSEED_STR_SIZE, pool / real, "pool / POLYSEED_STR_SIZE");
    SAME(pool % POLYSEED_STR_SIZE, pool % real, "pool % POLYSEED_STR_SIZE");
    SAME(pool - POLYSEED_STR_SIZE, pool - real, "pool - POLYSEED_STR_SIZE");
    SAME(-(long long)POLYSEED_STR_SIZE, -(long long)real, "-(long long)POLYSEED_STR_SIZE");
    SAME(2 * POLYSEED_STR_SIZE, 2 * real, "2 * POLYSEED_STR_SIZE");
    SAME(POLYSEED_STR_SIZE * 2, real * 2, "POLYSEED_STR_SIZE * 2");
    SAME(!POLYSEED_STR_SIZE, !real, "!POLYSEED_STR_SIZE");
    SAME(sizeof(char[POLYSEED_STR_SIZE]), real, "sizeof(char[POLYSEED_STR_SIZE])");
    SAME(pool / POLYSEED_NUM_WORDS, pool / words, "pool / POLYSEED_NUM_WORDS");
    SAME(pool % POLYSEED_NUM_WORDS, pool % words, "pool % POLYSEED_NUM_WORDS");
    SAME(pool / POLYSEED_SIZE, pool / img, "pool / POLYSEED_SIZE");
    SAME(pool % POLYSEED_SIZE, pool % img, "pool % POLYSEED_SIZE");
#undef SAME
    PV_COUNT("evaluations", 12);
    if (ok) PV_COUNT("bound.public_size_macros_behave_as_numbers", 1);
}
static uint64_t n_bound(void) { return (uint64_t)pv_nlangs; }
static void run_bound(uint64_t idx, pv_rng* rng) {
    if (idx == 0) macro_as_a_number();
    (void)rng;
    int l = (int)idx; pv_mlang* L = &pv_langs[l];
    if (!L->lib) return;
    harvest(l);
    long sum_nfkd = 0, sum_out = 0;
    for (int p = 0; p < 16; ++p) {
        int mk = 0, mc = 0;
        for (unsigned i = 0; i < PV_NWORDS; ++i) if (admissible(p, i)) {
            if (len_nfkd[l][i] > mk) mk = len_nfkd[l][i];
            int lo = L->compose ? len_nfc[l][i] : len_nfkd[l][i];
            if (lo > mc) mc = lo;
        }
        sum_nfkd += mk; sum_out += mc;
    }
    long seplen = (long)strlen(L->sep);
    long internal = sum_nfkd + 15 * seplen;       /* decomposed words joined by the language separator (encoder temporary) */
    long decoder = sum_nfkd + 15;                 /* NFKD form handled by the decoders */
    long output = sum_out + 15 * seplen;          /* what the caller's buffer receives */
    PV_COUNT("evaluations", 1);
    pv_maxf((uint64_t)internal, "bound.internal.%s", L->key);
    pv_maxf((uint64_t)decoder, "bound.decoder.%s", L->key);
    pv_maxf((uint64_t)output, "bound.output.%s", L->key);
    PV_COUNT("bound.languages", 1);
    PV_DISTINCT("nontrivial", pv_mix(99, (uint64_t)l));
    long worst = internal > output ? internal : output; if (decoder > worst) worst = decoder;
    if (worst >= POLYSEED_STR_SIZE)
        pv_violation("phrase-exceeds-str-size", "%s: worst-case phrase needs %ld bytes internally, %ld in the decoder, %ld in the output; POLYSEED_STR_SIZE is %d",
                     L->name_en, internal, decoder, output, POLYSEED_STR_SIZE);
    pv_sample("bound", "%s: internal %ld, decoder %ld, output %ld bytes (+NUL) vs POLYSEED_STR_SIZE %d", L->name_en, internal, decoder, output, POLYSEED_STR_SIZE);
}

/* ---------------------------------------------------------------- witnesses */
static uint64_t n_witness(void) { return (uint64_t)pv_nlangs * pv_scaled(200, 10000); }
static void run_witness(uint64_t idx, pv_rng* rng) {
    int l = (int)(idx % (uint64_t)pv_nlangs); pv_mlang* L = &pv_langs[l];
    uint64_t k = idx / (uint64_t)pv_nlangs;
    if (!L->lib) return;
    harvest(l);
    unsigned coin = (k & 1) ? 2047 : 0; if (k >= 4) coin = pv_gen_coin(rng);
    int depth = k < 2 ? 1 : 8;                   /* the very longest, then random picks among the 8 longest per position */
    unsigned c[16];
    for (int p = 2; p < 16; ++p) {
        unsigned best[8]; int nb = 0;
        for (int t = 0; t < depth; ++t) {         /* selection of the depth longest admissible words */
            int bi = -1;
            for (unsigned i = 0; i < PV_NWORDS; ++i) {
                if (!admissible(p, i)) continue;
                bool used = false; for (int u = 0; u < nb; ++u) if (best[u] == i) used = true;
                if (used) continue;
                if (bi < 0 || len_nfkd[l][i] > len_nfkd[l][bi] || (len_nfkd[l][i] == len_nfkd[l][bi] && pv_randn(rng, 3) == 0)) bi = (int)i;
            }
            best[nb++] = (unsigned)bi;
        }
        c[p] = best[pv_randn(rng, (uint32_t)nb)];
    }
    /* choose c[1] so that word 2 and the resulting check word are together as long as possible */
    int bestlen = -1; unsigned bestc1 = 0;
    for (unsigned x = 0; x < 2048; ++x) {
        c[1] = x; unsigned chk = pv_m_checkvalue(c);
        int tl = len_nfkd[l][(x ^ coin) & 2047] + len_nfkd[l][chk];
        if (tl > bestlen || (tl == bestlen && pv_randn(rng, 4) == 0)) { bestlen = tl; bestc1 = x; }
    }
    c[1] = bestc1; c[0] = pv_m_checkvalue(c);
    pv_mseed m; pv_m_unpack(c, &m);
    unsigned d[16]; memcpy(d, c, sizeof d); d[1] ^= coin;
    long want_internal = 0; for (int p = 0; p < 16; ++p) want_internal += len_nfkd[l][d[p]];
    want_internal += 15 * (long)strlen(L->sep);
    polyseed_data* s = pv_seed_any_path(rng, &m, coin);
    if (!s) { pv_violation("C17/witness-load", "%s: cannot load witness %s", L->name_en, pv_mseed_str(&m)); return; }
    char* out = malloc(POLYSEED_STR_SIZE);       /* exactly the public buffer: an overrun hits the ASan red zone */
    pv_cur.note = "witness-encode";
    /* every fourth witness is encoded while the allocator refuses its next request: whatever polyseed_encode does with
     * memory, it has no way to report failure, so it must still produce the phrase without overrunning anything */
    bool armed = (idx / (uint64_t)pv_nlangs) % 4 == 3;
    if (armed) { pv_arm_some_request(); PV_COUNT("witness.encodes_with_failing_allocator", 1); }
    size_t n = pv_api_encode(s, L->lib, coin, out);
    pv_w->fail_countdown = 0;
    own_buffer_check("witness", L);
    PV_COUNT("evaluations", 1); PV_COUNT("witness.encodes", 1);
    size_t real = strnlen(out, POLYSEED_STR_SIZE);
    if (real >= POLYSEED_STR_SIZE) pv_violation("C17/output-not-terminated", "%s: no terminator inside the caller's buffer", L->name_en);
    else {
        if (n != real) pv_violation("C17/returned-length", "%s: encode returned %zu but strlen(out) = %zu", L->name_en, n, real);
        char want[2048]; pv_m_encode(&m, L, coin, want, sizeof want);
        if (strcmp(want, out)) pv_violation(strlen(want) >= POLYSEED_STR_SIZE || want_internal >= POLYSEED_STR_SIZE ? "phrase-exceeds-str-size" : "C17/witness-phrase",
                                            "%s: witness phrase differs from the model (%zu vs %zu bytes, internal %ld)", L->name_en, real, strlen(want), want_internal);
        /* feed it back to both decoders */
        polyseed_data* t = NULL; const polyseed_lang* lo = NULL;
        int st = pv_api_decode_explicit(out, coin, L->lib, &t);
        PV_COUNT("evaluations", 1);
        if (st != POLYSEED_OK) pv_violation(want_internal >= POLYSEED_STR_SIZE ? "phrase-exceeds-str-size" : "C17/witness-does-not-decode", "%s: decode_explicit of a %zu-byte phrase (%ld decomposed) -> %s", L->name_en, real, want_internal, pv_status_name(st));
        else { const char* mm = pv_seed_mismatch(t, &m, coin); if (mm) pv_violation("C17/witness-decodes-differently", "%s: %s", L->name_en, mm); pv_api_free(t); }
        t = NULL;
        st = pv_api_decode(out, coin, &lo, &t);
        PV_COUNT("evaluations", 1);
        if (st == POLYSEED_OK) { if (lo != L->lib) pv_violation("C17/witness-decodes-differently", "%s: auto-detect chose another language", L->name_en); pv_api_free(t); }
        else if (st != POLYSEED_ERR_MULT_LANG) pv_violation(want_internal >= POLYSEED_STR_SIZE ? "phrase-exceeds-str-size" : "C17/witness-does-not-decode", "%s: decode of a %zu-byte phrase -> %s", L->name_en, real, pv_status_name(st));
        pv_countf(1, "witness.ok.%s", L->key);
        pv_maxf((uint64_t)want_internal, "witness.internal_bytes.%s", L->key);
        PV_DISTINCT("nontrivial", pv_mix(pv_hash(d, sizeof d, (uint64_t)l), coin));
        if (k < 2) pv_sample("witness", "%s coin=%u internal=%ld out=%zu bytes: '%s'", L->name_en, coin, want_internal, real, pv_esc(out));
    }
    free(out);
    pv_api_free(s);
}

/* every reachable exact decomposed length of every language, so that a boundary anywhere inside the range (an internal
 * buffer smaller than the public one, a fast path for "short" phrases) is hit exactly */
#define MAXLEN 640
static uint64_t n_lengths(void) { return (uint64_t)pv_nlangs * MAXLEN * pv_scaled(1, 8); }
static void run_lengths(uint64_t idx, pv_rng* rng) {
    int l = (int)(idx % (uint64_t)pv_nlangs); pv_mlang* L = &pv_langs[l];
    long target = (long)((idx / (uint64_t)pv_nlangs) % MAXLEN);
    if (!L->lib) return;
    long mn, mx; pv_lang_length_range(L, &mn, &mx);
    if (target < mn || target > mx) return;
    unsigned coin = pv_gen_coin(rng), d[16]; pv_mseed m;
    if (!pv_gen_exact_length(rng, L, coin, target, 7, d, &m)) { pv_countf(1, "lengths.unreached.%s", L->key); return; }
    polyseed_data* s = pv_seed_from_model(&m);
    if (!s) { pv_violation("C17/witness-load", "%s: cannot load %s", L->name_en, pv_mseed_str(&m)); return; }
    char* out = malloc(POLYSEED_STR_SIZE);
    pv_cur.note = "exact-length-encode";
    bool armed = idx % 5 == 4; if (armed) pv_arm_some_request();
    size_t n = pv_api_encode(s, L->lib, coin, out);
    pv_w->fail_countdown = 0;
    own_buffer_check("exact-length phrase", L);
    PV_COUNT("evaluations", 1);
    char want[2048]; size_t wn = pv_m_encode(&m, L, coin, want, sizeof want);
    size_t real = strnlen(out, POLYSEED_STR_SIZE);
    if (real >= POLYSEED_STR_SIZE || n != real) pv_violation("C17/returned-length", "%s: %ld-byte phrase: encode returned %zu, strlen %zu", L->name_en, target, n, real);
    else if (real != wn || memcmp(out, want, wn)) pv_violation("C17/phrase-at-exact-length", "%s: phrase of exactly %ld decomposed bytes differs from the model ('%s' vs '%s')", L->name_en, target, pv_esc(out), pv_esc(want));
    else {
        polyseed_data* t = NULL; int st = pv_api_decode_explicit(out, coin, L->lib, &t);
        PV_COUNT("evaluations", 1);
        if (st != POLYSEED_OK) pv_violation("C17/witness-does-not-decode", "%s: %ld-byte phrase -> %s", L->name_en, target, pv_status_name(st));
        else { uint8_t a[32], b[32]; pv_api_store(t, a); pv_m_image(&m, b); if (memcmp(a, b, 32)) pv_violation("C17/witness-decodes-differently", "%s: %ld-byte phrase", L->name_en, target); pv_api_free(t); }
        pv_countf(1, "lengths.encoded.%s", L->key);
        PV_DISTINCT("lengths", pv_mix((uint64_t)l, (uint64_t)target));
        PV_DISTINCT("nontrivial", pv_mix(pv_hash(d, sizeof d, (uint64_t)l), coin));
    }
    free(out);
    pv_api_free(s);
}

static void fini(void) { pv_set_flag("exhaustive.bound(all words x positions x languages)", true); }

int main(int argc, char** argv) {
    static const pv_section secs[] = { { "bound", n_bound, run_bound }, { "witness", n_witness, run_witness }, { "lengths", n_lengths, run_lengths } };
    return pv_main(argc, argv, "C17", secs, 3, init, fini);
}
