/* pv.h — shared declarations of the polyseed verification harness (see ../DESIGN.md).
 * The harness only ever calls public symbols of the library (include/polyseed.h). */
#ifndef PV_H
#define PV_H

#include <stdint.h>
#include <stddef.h>
#include <stdbool.h>
#include <stdio.h>
#include <stdlib.h>
#include <string.h>
#include <stdarg.h>

#include "polyseed.h"

#define PV_NWORDS 2048
#define PV_MAXLANG 16
#define PV_SECRET 19

/* ------------------------------------------------------------------ PRNG / hashing */
typedef struct pv_rng { uint64_t s[4]; } pv_rng;
void pv_rng_seed(pv_rng* r, uint64_t a, uint64_t b, uint64_t c);
uint64_t pv_rand64(pv_rng* r);
uint32_t pv_randn(pv_rng* r, uint32_t n);            /* uniform in [0,n) ; n>0 */
void pv_randbytes(pv_rng* r, void* dst, size_t n);
uint64_t pv_hash(const void* data, size_t n, uint64_t seed);
uint64_t pv_hash_str(const char* s);
static inline uint64_t pv_mix(uint64_t h, uint64_t v) {
    h ^= v + 0x9e3779b97f4a7c15ull + (h << 6) + (h >> 2);
    h *= 0xff51afd7ed558ccdull; h ^= h >> 32; return h;
}

/* ------------------------------------------------------------------ run context */
typedef struct pv_ctx {
    const char* prop;
    int tier;                 /* 0 quick, 1 thorough */
    uint64_t seed;            /* VERIF_SEED */
    int shard, nshards;
    const char* golden_dir;
    const char* out_path;
    const char* crash_path;
    int verbose;              /* replay mode prints details */
    int positive_control;     /* driver specific (C16) */
    const char* tag;          /* --tag: free text passed by the orchestrator (e.g. build flavour) */
    uint64_t scale_pct;       /* workload scale in percent (PV_SCALE), default 100 */
} pv_ctx;
extern pv_ctx pv;

typedef struct pv_section {
    const char* name;
    uint64_t (*count)(void);
    void (*run)(uint64_t idx, pv_rng* rng);
} pv_section;

/* current case (dumped by crash handlers; async-signal-safe fields only) */
typedef struct pv_cur_t {
    const char* section;
    uint64_t idx;
    const char* volatile api;       /* library function being executed, or NULL */
    const void* volatile in_ptr;    /* current input (string / buffer) */
    volatile size_t in_len;
    const char* volatile note;      /* static string set by drivers */
} pv_cur_t;
extern __thread pv_cur_t pv_cur;      /* per thread: the crash handler runs on the faulting thread */

void pv_case_watchdog(long seconds);       /* called by a case that is legitimately slow: restarts the per-case watchdog with a longer period */
extern const char* pv_last_api;
extern const char* (*pv_hang_probe)(void);   /* optional: names the library call a worker thread is stuck in when the watchdog fires on another thread */
int pv_main(int argc, char** argv, const char* prop, const pv_section* secs, int nsecs,
            void (*init)(void), void (*fini)(void));
uint64_t pv_scaled(uint64_t quick, uint64_t thorough);  /* picks by tier, applies PV_SCALE */

/* counters, distinct sets, samples, violations, info */
int pv_counter_id(const char* name);
void pv_counter_add(int id, uint64_t n);
#define PV_COUNT(name, n) do { static int _h = -1; if (_h < 0) _h = pv_counter_id(name); pv_counter_add(_h, (n)); } while (0)
void pv_count_dyn(const char* name, uint64_t n);         /* slower: looks the name up */
void pv_countf(uint64_t n, const char* fmt, ...) __attribute__((format(printf, 2, 3)));
uint64_t pv_counter_get(const char* name);
void pv_maxf(uint64_t v, const char* fmt, ...) __attribute__((format(printf, 2, 3)));   /* 'max.' counters are merged by maximum */

int pv_set_id(const char* name);
void pv_set_add(int id, uint64_t h);
#define PV_DISTINCT(name, h) do { static int _s = -1; if (_s < 0) _s = pv_set_id(name); pv_set_add(_s, (h)); } while (0)

void pv_sample(const char* cls, const char* fmt, ...) __attribute__((format(printf, 2, 3)));
void pv_violation(const char* key, const char* fmt, ...) __attribute__((format(printf, 2, 3)));
void pv_info(const char* key, const char* fmt, ...) __attribute__((format(printf, 2, 3)));
void pv_fatal(const char* fmt, ...) __attribute__((format(printf, 1, 2), noreturn));  /* harness failure: exit 2 */
void pv_set_flag(const char* name, int v);
void pv_transcript(uint64_t h);                          /* per-case transcript digest (C19, C20): written to <out>.transcript */
void pv_tlog(const char* fmt, ...) __attribute__((format(printf, 1, 2)));  /* transcript text, printed in --only/--verbose mode */              /* boolean facts for the evidence (e.g. exhaustive) */
uint64_t pv_violation_count(void);

/* MemorySanitizer flavour (clang -fsanitize=memory): probes at the two boundaries.  Outside that flavour they compile to nothing.
 * pv_msan_probe: bytes the library hands out (return values, output buffers, arguments given to dependencies) must be initialised;
 * a probe that fails prints a MemorySanitizer-style line and aborts while the current API call is still recorded, so that the
 * orchestrator attributes it to the library call.  pv_msan_poison: blocks handed to the library by the injected allocator are
 * declared uninitialised (on top of being junk-filled). */
#if defined(__has_feature)
#if __has_feature(memory_sanitizer)
#define PV_MSAN 1
#endif
#endif
#ifdef PV_MSAN
void pv_msan_probe(const void* p, size_t n, const char* what);
void pv_msan_probe_str(const char* s, size_t cap, const char* what);   /* initialised up to and including a terminator within cap bytes */
void pv_msan_poison(void* p, size_t n);
void pv_msan_unpoison(const void* p, size_t n);
#else
#define pv_msan_probe(p, n, what) ((void)0)
#define pv_msan_probe_str(s, cap, what) ((void)0)
#define pv_msan_poison(p, n) ((void)0)
#define pv_msan_unpoison(p, n) ((void)0)
#endif

/* small helpers */
char* pv_hex(const void* p, size_t n);                  /* rotating static buffers */
int pv_unhex(const char* s, uint8_t* out, size_t cap);
char* pv_esc(const char* s);                            /* printable/escaped copy (rotating static buffers) */
char* pv_escn(const void* s, size_t n);
void* pv_xmalloc(size_t n);
char* pv_exact_str(const char* s);                      /* exact-size heap copy (ASan red zone right after NUL) */

/* ------------------------------------------------------------------ normalisation (libutf8proc) */
char* pv_nfkd_alloc(const char* s);                     /* malloc'd; invalid UTF-8 copied unchanged */
char* pv_nfc_alloc(const char* s);
size_t pv_dep_nfkd(const char* str, polyseed_str norm); /* total, bounded dependency versions */
size_t pv_dep_nfc(const char* str, polyseed_str norm);
int pv_utf8_decode(const char* s, uint32_t* cp, int cap);   /* -1 if invalid */
int pv_utf8_encode(uint32_t cp, char* out);
bool pv_is_mark(uint32_t cp);
bool pv_is_accent(uint32_t cp);                         /* U+0300..U+036F */

/* ------------------------------------------------------------------ reference model */
typedef struct pv_mseed {
    uint8_t secret[PV_SECRET];      /* 150 bits: secret[18] < 64 */
    unsigned birthday;              /* 0..1023 */
    unsigned features;              /* 0..31 */
} pv_mseed;

typedef struct pv_mlang {
    const char* key;                /* "en", "zh_s", ... */
    const char* name_en;
    const char* name;
    char sep[8];
    bool compose, prefix, accents, golden_compose;
    char* word[PV_NWORDS];          /* golden text (NFKD form as published) */
    char* word_nfc[PV_NWORDS];
    int len[PV_NWORDS], len_nfc[PV_NWORDS];
    uint32_t* cp[PV_NWORDS]; int ncp[PV_NWORDS];        /* code points of NFKD form */
    uint32_t* scp[PV_NWORDS]; int nscp[PV_NWORDS];      /* ... with accents removed (accent languages) */
    const polyseed_lang* lib;       /* library handle found by English name, NULL if missing */
} pv_mlang;
extern pv_mlang pv_langs[PV_MAXLANG];
extern int pv_nlangs;

#define PV_EPOCH 1635768000ull
#define PV_STEP  2629746ull

void pv_model_init(void);                               /* loads golden data, self-tests against vectors.tsv */
void pv_model_bind_library(void);                       /* looks the languages up in the library registry */
pv_mlang* pv_lang_by_name(const char* name_en);
unsigned pv_gf_mul(unsigned a, unsigned b);
unsigned pv_gf_pow2(int i);
unsigned pv_m_checkvalue(const unsigned c[16]);         /* from c[1..15] */
void pv_m_pack(const pv_mseed* s, unsigned c[16]);      /* c[0] = check value; no coin */
void pv_m_unpack(const unsigned c[16], pv_mseed* s);    /* ignores c[0]; no coin */
size_t pv_m_join(const pv_mlang* L, const unsigned c[16], char* out, size_t cap);   /* raw (decomposed) phrase with the language separator */
size_t pv_m_join_space(const pv_mlang* L, const unsigned c[16], char* out, size_t cap); /* NFKD form: ASCII spaces */
size_t pv_m_encode(const pv_mseed* s, const pv_mlang* L, unsigned coin, char* out, size_t cap); /* expected polyseed_encode output */
void pv_m_coeffs(const pv_mseed* s, unsigned coin, unsigned c[16]);  /* pack + coin on c[1] */
void pv_m_image(const pv_mseed* s, uint8_t img[32]);
int pv_m_load(const uint8_t img[32], unsigned enabled, pv_mseed* out);  /* status per C06 */
void pv_m_salt(const pv_mseed* s, unsigned coin, uint8_t salt[32]);
void pv_m_password(const pv_mseed* s, uint8_t pw[32]);
unsigned pv_m_birthday_of(uint64_t t);
uint64_t pv_m_birthday_time(unsigned b);
bool pv_m_supported(unsigned features, unsigned enabled);
void pv_m_crypt(pv_mseed* s, const uint8_t mask[32]);
bool pv_mseed_eq(const pv_mseed* a, const pv_mseed* b);
uint64_t pv_mseed_hash(const pv_mseed* s);
char* pv_mseed_str(const pv_mseed* s);                  /* rotating static buffers */
/* solve for c[1] (before coin) so that the check value equals want; other c[2..15] fixed */
unsigned pv_m_solve_c1(const unsigned c[16], unsigned want);

/* matcher: tri-state */
enum { PV_REJECT = 0, PV_ACCEPT = 1, PV_UNSPEC = -1 };
int pv_m_match_cp(const pv_mlang* L, const uint32_t* tok, int n, int* idx_out, int* nmatch_out);
int pv_m_match(const pv_mlang* L, const char* token_nfkd, int* idx_out);
/* full decode pipeline of the model.  L == NULL: auto-detect.  Returns a polyseed_status, or -1 when
 * the model deliberately does not predict (input outside the specified domain). */
typedef struct pv_mdecode {
    int status;             /* predicted status or -1 */
    int ntokens;
    int lang;               /* index into pv_langs for auto-detect success */
    int nrecognising;       /* auto: number of languages recognising all 16 tokens (-1 unknown) */
    bool checksum_ok;
    pv_mseed seed;          /* valid if status is OK or UNSUPPORTED */
    unsigned c[16];
} pv_mdecode;
void pv_m_decode(const char* str, unsigned coin, const pv_mlang* L, unsigned enabled, pv_mdecode* out);
int pv_m_split(char* nfkd, char* tok[], int cap);       /* C09 token rule; returns count (may exceed cap) */

/* ------------------------------------------------------------------ instrumented world */
enum { PV_EV_RAND, PV_EV_TIME, PV_EV_KDF, PV_EV_MEMZERO, PV_EV_NFC, PV_EV_NFKD, PV_EV_ALLOC, PV_EV_FREE, PV_EV_NKINDS };
enum { PV_FREE_FOREIGN = 1, PV_FREE_DOUBLE = 2, PV_FREE_NULL = 4, PV_FREE_NOTZERO = 8, PV_FREE_NOWIPE = 16 };
typedef struct pv_event {
    int kind, tag;
    const void* ptr; size_t len;
    uint64_t a, b;
    int kdf;                        /* index into kdf records */
} pv_event;
typedef struct pv_kdfrec {
    uint8_t pw[1024]; size_t pwlen; const uint8_t* pw_ptr;
    uint8_t salt[64]; size_t saltlen;
    uint64_t iters; uint8_t* key; size_t keylen;
    uint8_t key_written[64];
} pv_kdfrec;
#define PV_MAXEV 96
#define PV_MAXKDF 4
#define PV_MAXLIVE 4096
typedef struct pv_block { void* ptr; void* base; size_t size; uint64_t call; } pv_block;

typedef struct pv_world {
    /* scripted behaviour */
    int rand_mode;                  /* 0 prng, 1 script */
    uint8_t rand_script[64]; int rand_script_len;
    pv_rng rand_rng;
    uint64_t time_value;
    /* a clock is allowed to move: when time_script_n > 0 the k-th reading made during one library call returns time_script[k]
     * (the last entry for further readings); every value handed out during the call is kept in time_seen */
    uint64_t time_script[4]; int time_script_n;
    uint64_t time_seen[8]; int time_reads;
    int kdf_mode;                   /* 0 mix of all arguments, 1 scripted mask */
    uint8_t kdf_mask[32];
    int memzero_mode;               /* 0 wipe, 1 log only (positive control) */
    int kdf_protect;                /* C04: mprotect key page after writing */
    size_t kdf_nowrite_above;       /* C04: key lengths above this are only recorded, the buffer is not touched (0 = always write) */
    long fail_countdown;            /* >0: the k-th allocation request from now fails */
    uint64_t fail_mask; int fail_mask_n;
    int reuse_mode;                 /* 1: the most recently freed block is handed out again by the next request of the same size (address reuse) */
    void* cache_ptr; void* cache_base; size_t cache_size;
    int foreign_passthrough;        /* 1: the table pairs libc malloc (alloc NULL) with the injected free: unknown blocks are released with libc free */
    int align8_mode;                /* 1: blocks are 8-byte aligned but not 16-byte aligned (all that the seed object needs) */
    int yield_pct;                  /* C20: probability of sched_yield inside callbacks */
    pv_rng yield_rng;
    /* per-call log */
    pv_event ev[PV_MAXEV]; int nev; uint64_t ev_overflow;
    pv_kdfrec kdf[PV_MAXKDF]; int nkdf;
    uint64_t count[PV_EV_NKINDS];   /* events of each kind in this call */
    uint64_t total[PV_EV_NKINDS];   /* cumulative */
    uint8_t rand_delivered[256]; size_t rand_total;      /* bytes delivered in this call */
    int alloc_failed_in_call;
    uint64_t aliased_norm_calls;    /* NFC/NFKD called with overlapping input and output */
    int norm_gentle;                /* C16: 1 = the normalisers write their result and its terminator only (a clobbered buffer would wipe evidence); 2 = they work in place, the tail of the input stays behind the terminator of a shorter result */
    int norm_invalid_empty;         /* the normalisers answer invalid UTF-8 with an empty string (what a wrapper around a failing converter does) */
    /* ledger */
    pv_block live[PV_MAXLIVE]; int nlive;
    void* freed_ring[64]; int freed_pos;
    uint64_t call_id;
    uint64_t ledger_allocs, ledger_frees, ledger_fail;
    pv_rng junk_rng;
} pv_world;
extern __thread pv_world* pv_w;
extern __thread int pv_in_lib;

void pv_world_init(uint64_t seed);                      /* creates this thread's world */
void pv_world_table(polyseed_dependency* t, int tag, bool with_time, bool with_alloc, bool with_free);
void pv_inject_default(void);                           /* table A with all entries */
void pv_world_begin(const char* api);                   /* resets the per-call log */
void pv_world_end(void);
int pv_ev_count(int kind);
const pv_event* pv_ev_find(int kind, int nth);
bool pv_ledger_is_live(const void* p);
int pv_ledger_live(void);
void pv_ledger_forget_all(void);
void pv_ledger_reclaim(int keep);                        /* after a reported leak: release the newest blocks so that later verdicts stay exact */                         /* C18: tables that mix injected and libc allocation */
void pv_set_rand_script(const void* bytes, int n);
void pv_set_rand_prng(void);

/* API wrappers: record call/return, set the current-api marker */
void pv_api_inject(const polyseed_dependency* d);
#define PV_DEP_ABI_BYTES (8 * sizeof(void (*)(void)))     /* sizeof(polyseed_dependency) at the pinned release */
void pv_api_inject_raw(const polyseed_dependency* d);
void pv_premain_judge(const char* prop, unsigned what);
bool pv_utf8_valid(const char* str);
char* pv_map_repeated(uint64_t n, uint64_t* maplen);   /* n bytes of 'a' + terminator backed by one 2 MiB chunk mapped repeatedly; munmap(ptr, *maplen) */
int pv_api_enable_features(unsigned mask);
polyseed_status pv_api_create(unsigned features, polyseed_data** out);
void pv_api_free(polyseed_data* s);
uint64_t pv_api_get_birthday(const polyseed_data* s);
unsigned pv_api_get_feature(const polyseed_data* s, unsigned mask);
void pv_api_keygen(const polyseed_data* s, unsigned coin, size_t n, uint8_t* out);
size_t pv_api_encode(const polyseed_data* s, const polyseed_lang* l, unsigned coin, char* out);
polyseed_status pv_api_decode(const char* str, unsigned coin, const polyseed_lang** lang_out, polyseed_data** out);
polyseed_status pv_api_decode_explicit(const char* str, unsigned coin, const polyseed_lang* l, polyseed_data** out);
void pv_api_store(const polyseed_data* s, uint8_t* storage);
polyseed_status pv_api_load(const uint8_t* storage, polyseed_data** out);
void pv_api_crypt(polyseed_data* s, const char* password);
int pv_api_is_encrypted(const polyseed_data* s);

/* monitor of the library's own static storage (ranges of the lib_*.o objects taken from the link map, PV_LINKMAP):
 * outside polyseed_inject / polyseed_enable_features nothing in it may change (C13: "library state is just ...") */
int pv_static_init(void);                               /* number of ranges found, 0 if no map */
uint64_t pv_static_digest(void);
const char* pv_static_diff(void);                       /* after a digest mismatch: which object / offset changed (static text) */
void pv_static_snapshot(void);
extern bool pv_static_probe_in_callbacks;               /* also look while the library is inside a dependency callback (single-threaded drivers only) */

/* ------------------------------------------------------------------ observation helpers */
typedef struct pv_obs {
    uint8_t image[32];
    uint64_t birthday;
    unsigned feat[8];
    unsigned feat_hi[8], hi_mask[8];      /* the same queries with bits above the three user bits set in the mask argument */
    int encrypted;
    uint8_t pw[32]; size_t pwlen; uint8_t salt[32]; size_t saltlen; uint64_t iters; size_t keylen; int nkdf;
} pv_obs;
void pv_observe(const polyseed_data* s, unsigned coin, pv_obs* o);
/* compares every observer of a library seed with the model seed; returns NULL or a static description */
const char* pv_seed_mismatch(const polyseed_data* s, const pv_mseed* m, unsigned coin);
/* obtain a library seed equal to the model seed through polyseed_load (features must be supported) */
polyseed_data* pv_seed_from_model(const pv_mseed* m);
const char* pv_status_name(int st);

/* arms the allocator for the next library call: usually the next request is refused, sometimes only the second or third one (a call
 * that makes several requests must cope with any of them failing).  For calls whose expected result does not depend on the refusal. */
void pv_arm_some_request(void);
#define PV_NPATHS 5
extern unsigned pv_path_mask;
extern const char* const pv_path_name[PV_NPATHS];      /* created, loaded, decoded, crypt-twice, decrypted-copy */
uint64_t pv_gen_odd_clock(pv_rng* rng);
polyseed_data* pv_seed_any_path(pv_rng* rng, const pv_mseed* m, unsigned coin);
polyseed_data* pv_seed_by_path(pv_rng* rng, const pv_mseed* m, int how, unsigned coin);      /* how 0 needs (m->features & 16) == 0 */

/* the same clause under contention: `nthreads` threads, each with its own thread-local world (yields inside the dependency
 * callbacks widen the windows), run `iters` iterations of `fn` on private seeds at the same time.  fn returns false and
 * describes the first problem in err when what it observed differs from the model; it must release what it allocates. */
typedef bool (*pv_conc_fn)(pv_rng* r, int iter, void* user, char* err, size_t errsz);
typedef struct pv_conc_result { uint64_t good, bad; int leaked; char first[400]; } pv_conc_result;
void pv_concurrent(int nthreads, int iters, uint64_t seed, int yield_pct, pv_conc_fn fn, void* user, pv_conc_result* out);
/* records the outcome under "<prop>/<key>" / counter; returns true if every thread was clean */
bool pv_concurrent_verdict(const pv_conc_result* res, int nthreads, int iters, const char* vio_key, const char* counter);

/* runs fn in a forked child (a copy of this process as it is now: whatever the library has or has not initialised yet) and
 * returns its return value (0..200), or -signal if the child was killed, or -1000 if it did not finish within `seconds` */
int pv_fork_case(int (*fn)(void* arg), void* arg, int seconds);

/* ------------------------------------------------------------------ generators */
void pv_gen_secret(pv_rng* r, uint8_t secret[PV_SECRET]);        /* boundary-biased */
void pv_gen_mseed(pv_rng* r, unsigned enabled, bool allow_encrypted, pv_mseed* s);
unsigned pv_gen_coin(pv_rng* r);
unsigned pv_gen_birthday(pv_rng* r);
/* phrase coefficients d[0..15] (coin already applied to d[1]) of a checksum-valid phrase that shows word
 * index i at position p; the other data words are random.  With loadable=true the underlying seed has only
 * feature bits allowed by `enabled` (+ the encrypted bit); returns false if (p,i) is inadmissible then.
 * seed_out (optional) receives the abstract seed. */
bool pv_gen_place(pv_rng* r, int p, unsigned i, unsigned coin, bool loadable, unsigned enabled, unsigned d[16], pv_mseed* seed_out);
/* indices of language A whose word is also recognised (model matcher) by language B; cached */
int pv_overlap(int a, int b, const unsigned** idx_out);
/* checksum-valid phrase coefficients (coin applied) whose 16 words all belong to overlap(A,B) and whose seed is
 * loadable under `enabled`; false if none found within the retry budget */
bool pv_gen_ambiguous(pv_rng* r, int a, int b, unsigned coin, unsigned enabled, unsigned d[16], pv_mseed* seed_out);
/* checksum-valid, loadable phrase of language L whose decomposed form (words joined by single spaces) is exactly
 * `target` bytes long; returns false if the search fails (target unreachable or unlucky) */
/* checksum-valid loadable phrase whose 16 words all come from `set` (n indices of language L) */
bool pv_gen_from_set(pv_rng* r, const unsigned* set, int n, unsigned coin, unsigned enabled, unsigned d[16], pv_mseed* seed_out);
bool pv_gen_exact_length(pv_rng* r, const pv_mlang* L, unsigned coin, long target, unsigned enabled, unsigned d[16], pv_mseed* seed_out);
void pv_lang_length_range(const pv_mlang* L, long* min_total, long* max_total);
/* the expected KDF stub output for given arguments (mode 0) */
void pv_kdf_mix(const uint8_t* pw, size_t pwlen, const uint8_t* salt, size_t saltlen, uint64_t iterations, uint8_t* key, size_t keylen);


/* link-time libc interposition (pv_wrap.c; only in the *-wrap flavours) */
enum { PV_WRAP_MALLOC, PV_WRAP_FREE, PV_WRAP_CALLOC, PV_WRAP_REALLOC, PV_WRAP_TIME, PV_WRAP_CLOCK_GETTIME, PV_WRAP_GETTIMEOFDAY, PV_WRAP_GETRANDOM,
       PV_WRAP_GETENTROPY, PV_WRAP_RAND, PV_WRAP_RANDOM, PV_WRAP_OPEN, PV_WRAP_FOPEN, PV_WRAP_CLOCK,
       PV_WRAP_MKTIME, PV_WRAP_TIMEGM, PV_WRAP_GMTIME, PV_WRAP_GMTIME_R, PV_WRAP_LOCALTIME, PV_WRAP_LOCALTIME_R, PV_WRAP_N };
extern uint64_t pv_wrap_count[PV_WRAP_N];
extern long pv_wrap_malloc_fail_countdown; extern uint64_t pv_wrap_malloc_refused;      /* libc path: refuse the k-th allocation made inside a library call */
extern int pv_wrap_time_scripted;
#include <time.h>
extern time_t pv_wrap_time_value;
const char* pv_wrap_name(int i);

/* grammar-based strings (pv_gen.c) */
typedef struct pv_gstr { char* s; size_t len; const char* cls; int lang; unsigned coin; pv_mseed seed; } pv_gstr;
void pv_gen_string(pv_rng* r, unsigned enabled, pv_gstr* out);
void pv_gstr_free(pv_gstr* g);
char* pv_gen_password(pv_rng* r, const char** cls_out);

#endif
