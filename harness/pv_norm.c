/* pv_norm.c — real Unicode normalisation (libutf8proc) with a total, bounded contract */
#include "pv.h"
#include <utf8proc.h>

/* MemorySanitizer flavour: libutf8proc is not instrumented, so what it writes and returns carries no "initialised" shadow.
   Everything that crosses from it into the harness/library is declared initialised here (and only here). */
#if defined(__has_feature)
#if __has_feature(memory_sanitizer)
#include <sanitizer/msan_interface.h>
#define PV_UNPOISON(p, n) __msan_unpoison((p), (n))
#define PV_NOMSAN __attribute__((no_sanitize("memory")))
#endif
#endif
#ifndef PV_UNPOISON
#define PV_UNPOISON(p, n) ((void)0)
#define PV_NOMSAN
#endif

PV_NOMSAN static char* norm_alloc(const char* s, utf8proc_option_t opt) {
    utf8proc_uint8_t* out = NULL;
    utf8proc_ssize_t r = utf8proc_map((const utf8proc_uint8_t*)s, 0, &out,
                                      (utf8proc_option_t)(UTF8PROC_NULLTERM | UTF8PROC_STABLE | opt));
    if (r < 0 || out == NULL) {           /* invalid UTF-8: copy through unchanged */
        if (out) free(out);
        return pv_exact_str(s);
    }
    PV_UNPOISON(out, (size_t)r + 1);
    return (char*)out;
}
char* pv_nfkd_alloc(const char* s) { return norm_alloc(s, (utf8proc_option_t)(UTF8PROC_DECOMPOSE | UTF8PROC_COMPAT)); }
char* pv_nfc_alloc(const char* s) { return norm_alloc(s, UTF8PROC_COMPOSE); }

static size_t bounded(char* full, polyseed_str norm) {
    size_t n = strlen(full);
    if (n > POLYSEED_STR_SIZE - 1) n = POLYSEED_STR_SIZE - 1;     /* byte truncation */
    memcpy(norm, full, n);
    norm[n] = '\0';
    /* do not leave a copy of the (possibly secret) text behind in the heap */
    memset(full, 0, strlen(full));
    free(full);
    return n;
}
size_t pv_dep_nfkd(const char* str, polyseed_str norm) { return bounded(pv_nfkd_alloc(str), norm); }
size_t pv_dep_nfc(const char* str, polyseed_str norm) { return bounded(pv_nfc_alloc(str), norm); }

PV_NOMSAN int pv_utf8_decode(const char* s, uint32_t* cp, int cap) {
    const utf8proc_uint8_t* p = (const utf8proc_uint8_t*)s;
    int n = 0;
    while (*p) {
        utf8proc_int32_t c;
        utf8proc_ssize_t k = utf8proc_iterate(p, -1, &c);
        PV_UNPOISON(&c, sizeof c);
        if (k <= 0 || c < 0) return -1;
        if (n >= cap) return -1;
        cp[n++] = (uint32_t)c;
        p += k;
    }
    return n;
}
PV_NOMSAN int pv_utf8_encode(uint32_t cp, char* out) {
    int n = (int)utf8proc_encode_char((utf8proc_int32_t)cp, (utf8proc_uint8_t*)out);
    if (n > 0) PV_UNPOISON(out, (size_t)n);
    return n;
}
PV_NOMSAN bool pv_is_mark(uint32_t cp) {
    utf8proc_category_t c = utf8proc_category((utf8proc_int32_t)cp);
    return c == UTF8PROC_CATEGORY_MN || c == UTF8PROC_CATEGORY_MC || c == UTF8PROC_CATEGORY_ME;
}
bool pv_is_accent(uint32_t cp) { return cp >= 0x300 && cp <= 0x36f; }
