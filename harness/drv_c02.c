/* drv_c02 — the checksum catches every single-word error and every swap of two words (DESIGN 3/C02) */
#include "pv.h"

static uint8_t* g_img;
static pv_mlang* EN;

static void init(void) {
    pv_world_init(pv.seed);
    pv_model_init();
    pv_inject_default();
    pv_model_bind_library();
    pv_api_enable_features(7);
    g_img = malloc(32);
    EN = pv_lang_by_name("English");
    if (!EN || !EN->lib) pv_fatal("C02: English missing");
    pv_info("rule", "(a) arithmetic core through the API: for every position 1..15 and every field element v the phrase with coefficient v there and zero elsewhere: the model's check word "
                    "must validate and other check words (16 in quick, all 2047 in thorough) must give ERR_CHECKSUM; (b) random valid phrases of every language: all 16x2047 single-word "
                    "substitutions and all 120 swaps must give exactly ERR_CHECKSUM; (c) random coefficient vectors: exactly one of the 2048 check words validates; (d) stored seeds with each "
                    "of the 2047 wrong check values must not load. non-trivial = an altered phrase/image whose status was observed; distinct = distinct (phrase text, coin) / (image)");
}

static char* phrase_of(const pv_mlang* L, const unsigned d[16]) {
    char raw[2048]; pv_m_join_space(L, d, raw, sizeof raw);
    return pv_exact_str(raw);
}
/* a permitted other spelling of word x (C08): redundant combining accents in Spanish/French (1-8 marks after some letter),
 * a 4+-letter abbreviation in the abbreviating languages; the word it stands for is still x */
static char* respell(const pv_mlang* L, unsigned x, pv_rng* rng) {
    uint32_t cp[64], out[96]; int n = L->ncp[x], m = 0;
    if (n > 60) return pv_exact_str(L->word[x]);
    memcpy(cp, L->cp[x], (size_t)n * sizeof *cp);
    if (L->accents && pv_randn(rng, 3)) {
        int after = (int)pv_randn(rng, (uint32_t)n), k = 1 + (int)pv_randn(rng, 8);
        for (int i = 0; i < n; ++i) { out[m++] = cp[i]; if (i == after && !pv_is_accent(cp[i])) for (int j = 0; j < k; ++j) out[m++] = 0x300 + pv_randn(rng, 4); }
    } else if (L->prefix) {
        int letters = 0, keep = 4 + (int)pv_randn(rng, 3);
        for (int i = 0; i < n; ++i) { bool acc = L->accents && pv_is_accent(cp[i]); if (!acc) { if (letters == keep) break; ++letters; } out[m++] = cp[i]; }
    } else { memcpy(out, cp, (size_t)n * sizeof *cp); m = n; }
    char* t = pv_xmalloc((size_t)m * 4 + 1); int k2 = 0;
    for (int i = 0; i < m; ++i) k2 += pv_utf8_encode(out[i], t + k2);
    t[k2] = 0; return t;
}
/* status of decode_explicit; seeds are released.  arm: the allocator refuses its next request (a corrupted phrase must be
 * reported as such whatever the allocator does).  respell_pos >= 0: that word is typed in another permitted spelling. */
static pv_rng* g_rng;
static int status_of_x(const pv_mlang* L, const unsigned d[16], unsigned coin, bool arm, int respell_pos) {
    char* in;
    if (respell_pos >= 0 && g_rng) {
        char buf[4096]; size_t k = 0;
        for (int i = 0; i < 16; ++i) { char* w = i == respell_pos ? respell(L, d[i], g_rng) : pv_exact_str(L->word[d[i]]); size_t l = strlen(w); memcpy(buf + k, w, l); k += l; free(w); if (i < 15) buf[k++] = ' '; }
        buf[k] = 0; in = pv_exact_str(buf); PV_COUNT("phrases.with_a_respelled_word", 1);
    } else in = phrase_of(L, d);
    polyseed_data* s = NULL;
    if (arm) { pv_arm_some_request(); PV_COUNT("decodes.with_failing_allocator", 1); }
    int st = pv_api_decode_explicit(in, coin, L->lib, &s);
    pv_w->fail_countdown = 0;
    if (st == POLYSEED_OK) { if (!s) pv_violation("C02/ok-without-seed", "%s: decode_explicit returned OK but wrote no seed%s", L->name_en, arm ? " (allocator refusing its next request)" : ""); else pv_api_free(s); }
    /* "decoding" is both decoders: a sample of the same strings goes through language auto-detection, half of them with the allocator
     * refusing one of its next requests; whatever the allocator does, a phrase that does not validate is never accepted, and the status
     * is the model's (a refused request may turn OK / UNSUPPORTED into MEMORY, nothing else) */
    if (g_rng && pv_randn(g_rng, 10) == 0) {
        pv_mdecode md; pv_m_decode(in, coin, NULL, 7, &md);
        bool arm2 = pv_randn(g_rng, 2);
        if (arm2) pv_arm_some_request();
        polyseed_data* a = NULL; int sa = pv_api_decode(in, coin, NULL, &a);
        bool refused = pv_w->alloc_failed_in_call > 0; pv_w->fail_countdown = 0;
        PV_COUNT("evaluations", 1);
        bool fine = sa == md.status || (refused && sa == POLYSEED_ERR_MEMORY && (md.status == POLYSEED_OK || md.status == POLYSEED_ERR_UNSUPPORTED));
        if (!fine) pv_violation(sa == POLYSEED_OK ? "C02/auto/altered-phrase-accepted" : "C02/auto/status-differs-from-model", "%s: decode('%s', coin %u)%s -> %s, model %s", L->name_en, pv_esc(in), coin, arm2 ? " with the allocator refusing a request" : "", pv_status_name(sa), pv_status_name(md.status));
        else { PV_COUNT("auto.status_equals_model", 1); if (arm2) PV_COUNT("auto.with_failing_allocator", 1); if (refused && sa != POLYSEED_ERR_MEMORY) PV_COUNT("auto.request_refused_and_verdict_unchanged", 1); }
        if (sa == POLYSEED_OK) { if (!a) pv_violation("C02/ok-without-seed", "%s: decode returned OK but wrote no seed", L->name_en); else pv_api_free(a); }
    }
    free(in);
    PV_COUNT("evaluations", 1);
    return st;
}
static int status_of(const pv_mlang* L, const unsigned d[16], unsigned coin) { return status_of_x(L, d, coin, false, -1); }
static unsigned g_tick;
static bool validates(int st) { return st == POLYSEED_OK || st == POLYSEED_ERR_UNSUPPORTED; }

/* ---------------------------------------------------------------- (a) arithmetic core */
static uint64_t n_arith(void) { return 15 * 2048; }
static void run_arith(uint64_t idx, pv_rng* rng) {
    int pos = 1 + (int)(idx / 2048); unsigned v = (unsigned)(idx % 2048);
    unsigned c[16] = { 0 }; c[pos] = v;
    unsigned w = pv_m_checkvalue(c);
    c[0] = w;
    int st = status_of(EN, c, 0);
    if (!validates(st)) pv_violation("C02/correct-check-word-rejected", "coefficient %u at position %d: check word %u -> %s", v, pos, w, pv_status_name(st));
    else PV_COUNT("arith.correct_validates", 1);
    unsigned nother = pv.tier ? 2047 : 16;
    for (unsigned k = 0; k < nother; ++k) {
        unsigned x = pv.tier ? (w + 1 + k) & 2047 : (w ^ (1u << (k % 11)) ^ (k >= 11 ? 1 + pv_randn(rng, 2046) : 0)) & 2047;
        if (x == w) continue;
        c[0] = x;
        st = status_of_x(EN, c, 0, (++g_tick & 3) == 0, -1);
        if (st != POLYSEED_ERR_CHECKSUM) pv_violation("C02/wrong-check-word-accepted", "coefficient %u at position %d: wrong check word %u (right one %u) -> %s", v, pos, x, w, pv_status_name(st));
        else PV_COUNT("arith.wrong_rejected", 1);
    }
    PV_DISTINCT("nontrivial", pv_mix(0xa, idx));
    if (idx % 4096 == 1025) pv_sample("arith", "position %d coefficient %u -> check word %u ('%s')", pos, v, w, EN->word[w]);
}

/* ---------------------------------------------------------------- (b) substitutions and swaps on valid phrases */
static uint64_t n_subst(void) { return (uint64_t)pv_nlangs * pv_scaled(4, 50); }
static void run_subst(uint64_t idx, pv_rng* rng) {
    g_rng = rng;
    pv_mlang* L = &pv_langs[idx % (uint64_t)pv_nlangs];
    if (!L->lib) return;
    pv_mseed m; pv_gen_mseed(rng, 7, true, &m);
    unsigned coin = pv_gen_coin(rng), d[16]; pv_m_coeffs(&m, coin, d);
    int st = status_of(L, d, coin);
    if (st != POLYSEED_OK) { pv_violation("C02/valid-phrase-rejected", "%s: %s", L->name_en, pv_status_name(st)); return; }
    /* Chinese lists are searched linearly: sample the substitutions there in quick runs */
    unsigned step = (!pv.tier && (!strcmp(L->key, "zh_s") || !strcmp(L->key, "zh_t"))) ? 8 : 1;
    for (int p = 0; p < 16; ++p) {
        unsigned orig = d[p];
        for (unsigned x = (unsigned)pv_randn(rng, step); x < 2048; x += step) {
            if (x == orig) continue;
            d[p] = x;
            ++g_tick;
            bool resp = (g_tick % 8) == 5 && (L->accents || L->prefix);
            st = status_of_x(L, d, coin, (g_tick & 3) == 0, resp ? p : -1);
            if (st != POLYSEED_ERR_CHECKSUM) pv_violation(resp ? "C02/substitution-not-detected(respelled)" : "C02/substitution-not-detected", "%s: word %d replaced (%u -> %u%s) -> %s; seed %s coin %u", L->name_en, p + 1, orig, x, resp ? ", typed in another permitted spelling" : "", pv_status_name(st), pv_mseed_str(&m), coin);
            else PV_COUNT("subst.detected", 1);
        }
        d[p] = orig;
    }
    for (int a = 0; a < 16; ++a) for (int b = a + 1; b < 16; ++b) {
        if (d[a] == d[b]) { PV_COUNT("swap.equal_words_skipped", 1); continue; }
        unsigned t = d[a]; d[a] = d[b]; d[b] = t;
        st = status_of_x(L, d, coin, (++g_tick & 3) == 0, -1);
        if (st != POLYSEED_ERR_CHECKSUM) pv_violation("C02/swap-not-detected", "%s: words %d and %d exchanged -> %s; seed %s coin %u", L->name_en, a + 1, b + 1, pv_status_name(st), pv_mseed_str(&m), coin);
        else PV_COUNT("swap.detected", 1);
        t = d[a]; d[a] = d[b]; d[b] = t;
    }
    PV_DISTINCT("nontrivial", pv_mix(pv_mix(0xb, pv_mseed_hash(&m)), pv_hash_str(L->key)));
    pv_countf(1, "subst.phrases.%s", L->key);
    char* ph = phrase_of(L, d); pv_sample("subst", "%s coin %u '%s': all single-word substitutions and all swaps -> ERR_CHECKSUM", L->name_en, coin, pv_esc(ph)); free(ph);
}

/* ---------------------------------------------------------------- (c) exactly one validating check word */
static uint64_t n_unique(void) { return pv_scaled(300, 3000); }
static void run_unique(uint64_t idx, pv_rng* rng) {
    pv_mlang* L = (idx % 3 == 0) ? &pv_langs[idx % (uint64_t)pv_nlangs] : EN;
    if (!L->lib || !strncmp(L->key, "zh", 2)) L = EN;
    unsigned c[16] = { 0 }, coin = pv_gen_coin(rng);
    for (int k = 1; k < 16; ++k) c[k] = pv_randn(rng, 2048);
    if (idx % 5 == 0) { for (int k = 1; k < 16; ++k) c[k] = pv_randn(rng, 4) ? 0 : (1024 + pv_randn(rng, 1024)); }   /* sparse, high elements (reduction path) */
    unsigned d[16]; memcpy(d, c, sizeof d); d[1] ^= coin;          /* d = what the phrase shows */
    unsigned want = pv_m_checkvalue(c);
    int nvalid = 0; unsigned which = 0;
    for (unsigned w = 0; w < 2048; ++w) { d[0] = w; if (validates(status_of(L, d, coin))) { ++nvalid; which = w; } }
    if (nvalid != 1) pv_violation("C02/check-word-not-unique", "%s: %d check words validate for data words %s coin %u", L->name_en, nvalid, pv_hex(c, sizeof c), coin);
    else if (which != want) pv_violation("C02/check-word-differs-from-model", "%s: validating check word %u, model %u", L->name_en, which, want);
    else { PV_COUNT("unique.exactly_one", 1); PV_DISTINCT("nontrivial", pv_mix(0xc, pv_hash(c, sizeof c, coin))); }
}

/* ---------------------------------------------------------------- (d) stored seeds with altered check value */
static uint64_t n_load(void) { return pv_scaled(200, 2000); }
static void run_load(uint64_t idx, pv_rng* rng) {
    (void)idx;
    pv_mseed m; pv_gen_mseed(rng, 7, true, &m);
    pv_m_image(&m, g_img);
    unsigned right = (g_img[30] | ((unsigned)g_img[31] << 8)) & 2047;
    for (unsigned w = 0; w < 2048; ++w) {
        unsigned v2 = 0x7000 | w; g_img[30] = (uint8_t)v2; g_img[31] = (uint8_t)(v2 >> 8);
        polyseed_data* s = NULL; int st = pv_api_load(g_img, &s);
        PV_COUNT("evaluations", 1);
        if (st == POLYSEED_OK) pv_api_free(s);
        if (w == right) { if (st != POLYSEED_OK) pv_violation("C02/valid-image-rejected", "%s -> %s", pv_mseed_str(&m), pv_status_name(st)); }
        else if (st != POLYSEED_ERR_CHECKSUM) pv_violation("C02/altered-check-value-loads", "seed %s: check value %u instead of %u -> %s", pv_mseed_str(&m), w, right, pv_status_name(st));
        else PV_COUNT("load.wrong_check_rejected", 1);
    }
    PV_DISTINCT("nontrivial", pv_mix(0xd, pv_mseed_hash(&m)));
}

/* ---------------------------------------------------------------- (e) near words: one word is the beginning of another
 * The lists contain short words that are string prefixes of longer ones (act/action, sol/soldado, di'a/diamante: all shorter
 * than four letters).  Replacing the long word of a valid phrase by the short one, or the reverse, is the substitution a sloppy
 * matcher is most likely to overlook: every such pair, in every list, in both directions, in plain and in composed form. */
static int strip_cp(const pv_mlang* L, unsigned w, uint32_t* out) { int m = 0; for (int i = 0; i < L->ncp[w]; ++i) if (!(L->accents && pv_is_accent(L->cp[w][i]))) out[m++] = L->cp[w][i]; return m; }
typedef struct npair { unsigned short a, b; } npair;
static npair* g_np[PV_MAXLANG]; static int g_nnp[PV_MAXLANG]; static bool g_np_built;
static void build_pairs(void) {
    if (g_np_built) return;
    g_np_built = true;
    for (int l = 0; l < pv_nlangs; ++l) {
        pv_mlang* L = &pv_langs[l]; if (!L->lib) continue;
        static uint32_t st[PV_NWORDS][40]; static int sn[PV_NWORDS];
        for (unsigned w = 0; w < PV_NWORDS; ++w) { uint32_t t[128]; int n = strip_cp(L, w, t); if (n > 40) n = 40; memcpy(st[w], t, (size_t)n * 4); sn[w] = n; }
        int cap = 4096; g_np[l] = pv_xmalloc((size_t)cap * sizeof(npair)); g_nnp[l] = 0;
        for (unsigned a = 0; a < PV_NWORDS; ++a) for (unsigned b = 0; b < PV_NWORDS; ++b)
            if (a != b && sn[a] < sn[b] && !memcmp(st[a], st[b], (size_t)sn[a] * 4) && g_nnp[l] < cap) { g_np[l][g_nnp[l]].a = (unsigned short)a; g_np[l][g_nnp[l]].b = (unsigned short)b; g_nnp[l]++; }
        pv_countf((uint64_t)g_nnp[l], "nearwords.pairs.%s", L->key);
    }
}
static uint64_t n_near(void) { return (uint64_t)pv_nlangs * 16; }
static void run_near(uint64_t idx, pv_rng* rng) {
    build_pairs();
    int l = (int)(idx / 16); int part = (int)(idx % 16); pv_mlang* L = &pv_langs[l];
    if (!L->lib || !g_nnp[l]) return;
    g_rng = rng;
    for (int k = part; k < g_nnp[l]; k += 16) {
        for (int dir = 0; dir < 2; ++dir) {
            unsigned in_phrase = dir ? g_np[l][k].a : g_np[l][k].b, repl = dir ? g_np[l][k].b : g_np[l][k].a;
            int p = (int)pv_randn(rng, 16); unsigned coin = pv_gen_coin(rng), d[16]; pv_mseed m;
            if (!pv_gen_place(rng, p, in_phrase, coin, false, 7, d, &m)) continue;
            int st = status_of(L, d, coin);
            if (st != POLYSEED_OK && st != POLYSEED_ERR_UNSUPPORTED) { pv_violation("C02/valid-phrase-rejected", "%s: phrase with '%s' at word %d -> %s", L->name_en, L->word[in_phrase], p + 1, pv_status_name(st)); continue; }
            d[p] = repl;
            for (int form = 0; form < (L->compose ? 2 : 1); ++form) {
                char raw[2048]; pv_m_join_space(L, d, raw, sizeof raw);
                char* in = form ? pv_nfc_alloc(raw) : pv_exact_str(raw); char* ex = pv_exact_str(in); free(in);
                polyseed_data* s = NULL; st = pv_api_decode_explicit(ex, coin, L->lib, &s); PV_COUNT("evaluations", 1);
                if (st != POLYSEED_ERR_CHECKSUM) pv_violation("C02/near-word-substitution-not-detected", "%s: word %d '%s' replaced by '%s' (%s) -> %s", L->name_en, p + 1, L->word[in_phrase], L->word[repl], form ? "composed" : "as published", pv_status_name(st));
                else PV_COUNT("nearwords.detected", 1);
                if (st == POLYSEED_OK) pv_api_free(s);
                s = NULL; st = pv_api_decode(ex, coin, NULL, &s); PV_COUNT("evaluations", 1);
                pv_mdecode md; pv_m_decode(ex, coin, NULL, 7, &md);
                if (md.status >= 0 && st != md.status) pv_violation("C02/near-word-substitution-not-detected(auto)", "%s: word %d '%s' replaced by '%s' -> %s, model %s", L->name_en, p + 1, L->word[in_phrase], L->word[repl], pv_status_name(st), pv_status_name(md.status));
                if (st == POLYSEED_OK) pv_api_free(s);
                free(ex);
            }
        }
    }
    PV_DISTINCT("nontrivial", pv_mix(0xe, idx));
}

/* ---------------------------------------------------------------- (e') substitutions inside phrases that two lists recognise
 * "... and never success": a phrase valid in list A whose tokens all exist in list B as well (typed in full in one, as abbreviations
 * in the other, or shared characters) is ambiguous; after replacing one of its words by another shared word the automatic decoder
 * may say "multiple languages" or "checksum", but it must not pick a reading and succeed - unless the model agrees that exactly one
 * list still recognises every token and its checksum holds. */
static uint64_t n_ambsub(void) { return (uint64_t)pv_nlangs * (uint64_t)pv_nlangs * pv_scaled(6, 200); }
static void run_ambsub(uint64_t idx, pv_rng* rng) {
    int a = (int)(idx % (uint64_t)pv_nlangs), b = (int)((idx / (uint64_t)pv_nlangs) % (uint64_t)pv_nlangs);
    if (a == b || !pv_langs[a].lib || !pv_langs[b].lib) return;
    unsigned coin = pv_gen_coin(rng), d[16]; pv_mseed m;
    if (!pv_gen_ambiguous(rng, a, b, coin, 7, d, &m)) { PV_COUNT("ambsub.not_constructible", 1); return; }
    pv_mlang* L = &pv_langs[a];
    for (int k = 0; k < 12; ++k) {
        unsigned e[16]; memcpy(e, d, sizeof e);
        if (k) { int p = (int)pv_randn(rng, 16), q = (int)pv_randn(rng, 16); e[p] = d[q] != d[p] ? d[q] : d[(q + 1) % 16]; }        /* k = 0: the ambiguous phrase itself; else one word replaced by another shared word */
        char raw[2048]; pv_m_join_space(L, e, raw, sizeof raw);
        char* in = pv_exact_str(raw);
        pv_mdecode md; pv_m_decode(in, coin, NULL, 7, &md);
        polyseed_data* s = NULL; const polyseed_lang* lo = NULL; int st = pv_api_decode(in, coin, pv_randn(rng, 2) ? &lo : NULL, &s); PV_COUNT("evaluations", 1);
        if (md.status >= 0 && st != md.status) pv_violation("C02/ambiguous-phrase/auto-differs-from-model", "%s phrase whose tokens %s also recognises, %s: decode -> %s, model %s; '%s'", L->name_en, pv_langs[b].name_en, k ? "one word replaced" : "unaltered", pv_status_name(st), pv_status_name(md.status), pv_esc(in));
        else pv_countf(1, "ambsub.%s", pv_status_name(st));
        if (st == POLYSEED_OK) pv_api_free(s);
        free(in);
    }
    PV_DISTINCT("nontrivial", pv_mix(0xab, idx));
}

/* ---------------------------------------------------------------- (f) the same clause while other threads decode their own phrases */
static bool conc_iter(pv_rng* r, int iter, void* user, char* err, size_t errsz) {
    (void)iter; (void)user;
    pv_mlang* L; do { L = &pv_langs[pv_randn(r, (uint32_t)pv_nlangs)]; } while (!L->lib || (!strncmp(L->key, "zh", 2) && pv_randn(r, 8)));
    pv_mseed m; pv_gen_mseed(r, 7, true, &m); unsigned coin = pv_gen_coin(r), d[16]; pv_m_coeffs(&m, coin, d);
    bool ok = true;
    for (int k = 0; k < 8 && ok; ++k) {
        unsigned e[16]; memcpy(e, d, sizeof e); int want = POLYSEED_OK;
        if (k >= 1 && k < 5) { int p = (int)pv_randn(r, 16); e[p] = (e[p] + 1 + pv_randn(r, 2046)) & 2047; want = POLYSEED_ERR_CHECKSUM; }
        if (k >= 5) { int a = (int)pv_randn(r, 16), b = (int)pv_randn(r, 16); if (e[a] == e[b]) continue; unsigned t = e[a]; e[a] = e[b]; e[b] = t; want = POLYSEED_ERR_CHECKSUM; }
        char raw[2048]; pv_m_join_space(L, e, raw, sizeof raw);
        polyseed_data* s = NULL; int st = pv_api_decode_explicit(raw, coin, L->lib, &s);
        if (st != want) { ok = false; snprintf(err, errsz, "%s: %s phrase -> %s", L->name_en, want == POLYSEED_OK ? "valid" : "corrupted", pv_status_name(st)); }
        if (st == POLYSEED_OK) pv_api_free(s);
    }
    return ok;
}
static uint64_t n_conc(void) { return pv_scaled(3, 100); }
static void run_conc(uint64_t idx, pv_rng* rng) {
    (void)idx;
    enum { NT = 8, IT = 4000 }; static pv_conc_result res[NT];
    uint64_t seed = pv_rand64(rng);
    pv_concurrent(NT, IT, seed, 20, conc_iter, NULL, res);
    if (pv_concurrent_verdict(res, NT, IT, "C02/differs-under-concurrency", "concurrent.decodes_ok")) PV_DISTINCT("nontrivial", seed);
}

static void fini(void) {
    pv_set_flag("exhaustive.arith(every field element x 15 positions)", true);
    pv_set_flag("exhaustive.arith_all_2047_wrong_check_words", pv.tier == 1);
}
int main(int argc, char** argv) {
    static const pv_section secs[] = { { "arith", n_arith, run_arith }, { "subst", n_subst, run_subst }, { "unique", n_unique, run_unique }, { "load", n_load, run_load }, { "nearwords", n_near, run_near }, { "ambiguous", n_ambsub, run_ambsub }, { "concurrent", n_conc, run_conc } };
    return pv_main(argc, argv, "C02", secs, (int)(sizeof secs / sizeof *secs), init, fini);
}
