/* pv_hmerge — counts distinct 64-bit hashes over the per-shard set files */
#include <stdio.h>
#include <stdlib.h>
#include <stdint.h>
static int cmp(const void* a, const void* b) { uint64_t x = *(const uint64_t*)a, y = *(const uint64_t*)b; return (x > y) - (x < y); }
int main(int argc, char** argv) {
    size_t cap = 1 << 16, n = 0; uint64_t* v = malloc(cap * 8);
    for (int i = 1; i < argc; ++i) {
        FILE* f = fopen(argv[i], "rb"); if (!f) continue;
        uint64_t x;
        while (fread(&x, 8, 1, f) == 1) { if (n == cap) { cap *= 2; v = realloc(v, cap * 8); if (!v) return 2; } v[n++] = x; }
        fclose(f);
    }
    qsort(v, n, 8, cmp);
    size_t d = 0;
    for (size_t i = 0; i < n; ++i) if (i == 0 || v[i] != v[i - 1]) ++d;
    printf("%zu\n", d);
    return 0;
}
