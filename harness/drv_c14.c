/* drv_c14 — arbitrary phrases, passwords and buffers are handled safely and totally (DESIGN 3/C14)
 * Oracles: ASan/UBSan reports, signals, assertion aborts and the per-case watchdog (all caught by the runner and the
 * orchestrator); the documented status sets; input buffers compared before/after (and write-protected in a
 * sub-sample); the allocator ledger after failed calls. */
#define _GNU_SOURCE
#include "pv.h"
#include <sys/mman.h>
#include <unistd.h>
#include <pthread.h>
#include <signal.h>

static long g_ps; static uint8_t* g_ro;      /* read-only input area: [data page(s)][PROT_NONE guard] */
#define RO_PAGES 20

static void init(void) {
    pv_world_init(pv.seed);
    pv_model_init();
    pv_inject_default();
    pv_model_bind_library();
    pv_api_enable_features(3);
    g_ps = sysconf(_SC_PAGESIZE);
    g_ro = mmap(NULL, (size_t)g_ps * (RO_PAGES + 1), PROT_READ | PROT_WRITE, MAP_PRIVATE | MAP_ANONYMOUS, -1, 0);
    if (g_ro == MAP_FAILED) pv_fatal("C14: mmap");
    mprotect(g_ro + g_ps * RO_PAGES, (size_t)g_ps, PROT_NONE);
    pv_info("rule", "grammar strings of all classes (incl. lengths around POLYSEED_STR_SIZE, 2x, 64 KiB, invalid UTF-8, raw bytes) as phrases into decode and decode_explicit (three "
                    "languages each) and as passwords into crypt; mutated and random 32-byte buffers into load; every call on exact-size heap inputs under ASan+UBSan, a sub-sample "
                    "on a read-only page that ends at an inaccessible guard page. Checked per call: termination (watchdog), status in the documented set, input unchanged, no "
                    "block left allocated by a failed call, the seed still canonical after crypt. non-trivial = a call that returned; distinct = distinct (entry point, input, coin)");
}

static bool in_set(int st, const int* set, int n) { for (int i = 0; i < n; ++i) if (set[i] == st) return true; return false; }
static const int SET_DECODE[] = { POLYSEED_OK, POLYSEED_ERR_NUM_WORDS, POLYSEED_ERR_LANG, POLYSEED_ERR_CHECKSUM, POLYSEED_ERR_UNSUPPORTED, POLYSEED_ERR_MEMORY, POLYSEED_ERR_MULT_LANG };
static const int SET_EXPLICIT[] = { POLYSEED_OK, POLYSEED_ERR_NUM_WORDS, POLYSEED_ERR_LANG, POLYSEED_ERR_CHECKSUM, POLYSEED_ERR_UNSUPPORTED, POLYSEED_ERR_MEMORY };
static const int SET_LOAD[] = { POLYSEED_OK, POLYSEED_ERR_FORMAT, POLYSEED_ERR_CHECKSUM, POLYSEED_ERR_UNSUPPORTED, POLYSEED_ERR_MEMORY };

static const char* lenclass(size_t n) {
    if (n == 0) return "0"; if (n < 64) return "<64"; if (n < POLYSEED_STR_SIZE - 2) return "<size-2"; if (n <= POLYSEED_STR_SIZE + 2) return "size+-2";
    if (n < 4096) return "<4096"; return ">=4096";
}

/* place the string so that its terminator is the last byte before the guard page; returns the read-only pointer */
static const char* ro_place(const char* s, size_t len) {
    if (len + 1 > (size_t)g_ps * RO_PAGES) return NULL;
    mprotect(g_ro, (size_t)g_ps * RO_PAGES, PROT_READ | PROT_WRITE);
    char* p = (char*)g_ro + (size_t)g_ps * RO_PAGES - (len + 1);
    memcpy(p, s, len + 1);
    mprotect(g_ro, (size_t)g_ps * RO_PAGES, PROT_READ);
    return p;
}

static void phrase_calls(const char* str, size_t len, unsigned coin, int lang, const char* cls, pv_rng* rng, bool readonly, bool armed) {
    const char* in = str; char* copy = NULL;
    if (readonly) { in = ro_place(str, len); if (!in) { readonly = false; in = str; } else PV_COUNT("inputs.on_readonly_page_before_guard", 1); }
    if (!readonly) copy = pv_exact_str(str);
    for (int k = 0; k < 4; ++k) {
        int live0 = pv_ledger_live();
        polyseed_data* s = NULL; int st; const char* api;
        if (armed) pv_w->fail_countdown = 1;
        if (k == 0) { api = "decode"; const polyseed_lang* lo = NULL; st = pv_api_decode(in, coin, pv_randn(rng, 4) ? &lo : NULL, &s); if (!in_set(st, SET_DECODE, 7)) pv_violation("C14/status-outside-documented-set/decode", "[%s] -> %d", cls, st); }
        else { api = "decode_explicit"; int l = k == 1 ? lang : (int)pv_randn(rng, (uint32_t)pv_nlangs); if (!pv_langs[l].lib) continue; st = pv_api_decode_explicit(in, coin, pv_langs[l].lib, &s); if (!in_set(st, SET_EXPLICIT, 6)) pv_violation("C14/status-outside-documented-set/decode_explicit", "[%s] -> %d", cls, st); }
        pv_w->fail_countdown = 0;
        PV_COUNT("evaluations", 1);
        pv_countf(1, "calls.%s.%s.len%s", api, pv_status_name(st), lenclass(len));
        if (st == POLYSEED_OK) {
            /* whatever was accepted must be a canonical seed */
            uint8_t* img = malloc(32); pv_api_store(s, img); pv_mseed m;
            if (pv_m_load(img, 3, &m) != POLYSEED_OK) pv_violation("C14/accepted-seed-not-canonical", "[%s] %s accepted '%s' but its image %s is not loadable", cls, api, pv_esc(str), pv_hex(img, 32));
            free(img); pv_api_free(s);
        }
        if (pv_ledger_live() != live0) { char key[96]; snprintf(key, sizeof key, "C14/block-left-allocated/%s", api); pv_violation(key, "[%s] %s -> %s leaves %d block(s) allocated", cls, api, pv_status_name(st), pv_ledger_live() - live0); }
        if (!readonly && (memcmp(copy, str, len + 1))) pv_violation("C14/input-modified", "[%s] %s changed its input string", cls, api);
        PV_DISTINCT("nontrivial", pv_mix(pv_mix(pv_hash(str, len, (uint64_t)k), coin), (uint64_t)armed));
    }
    free(copy);
}

static uint64_t n_phrases(void) { return pv_scaled(100000, 2500000); }
static void run_phrases(uint64_t idx, pv_rng* rng) {
    pv_gstr g; pv_gen_string(rng, 3, &g);
    /* bias towards the buffer boundary: every 5th case is re-padded to an exact length around POLYSEED_STR_SIZE */
    if (idx % 5 == 0) {
        size_t want = (size_t)POLYSEED_STR_SIZE - 3 + pv_randn(rng, 6);
        if (g.len < want) { char* t = malloc(want + 1); memcpy(t, g.s, g.len); bool ascii = pv_randn(rng, 2);
            for (size_t i = g.len; i < want; ++i) t[i] = ascii ? (pv_randn(rng, 7) ? 'x' : ' ') : (char)((i & 1) ? 0xa9 : 0xc3);
            t[want] = 0; free(g.s); g.s = t; g.len = want; g.cls = "padded-to-buffer-boundary"; }
    }
    pv_countf(1, "class.%s", g.cls);
    phrase_calls(g.s, g.len, g.coin, g.lang, g.cls, rng, idx % 8 == 1, idx % 16 == 7);
    if (idx < 10) pv_sample("phrases", "[%s] %zu bytes: '%s'", g.cls, g.len, pv_esc(g.s));
    pv_gstr_free(&g);
}

/* valid Spanish/French phrases blown up with redundant combining accents in the middle so that the decomposed form
 * has an exact length around the buffer size and the last token ends on the very last byte */
static uint64_t n_flood(void) { return pv_scaled(6000, 200000); }
static void run_flood(uint64_t idx, pv_rng* rng) {
    pv_mlang* L = pv_lang_by_name(idx & 1 ? "French" : "Spanish");
    if (!L || !L->lib) return;
    pv_mseed m; pv_gen_mseed(rng, 3, true, &m);
    unsigned coin = pv_gen_coin(rng), d[16]; pv_m_coeffs(&m, coin, d);
    long target = (long)POLYSEED_STR_SIZE - 7 + (long)pv_randn(rng, 10);          /* STR_SIZE-7 .. STR_SIZE+2 */
    char tok[16][96]; long len = 15;
    for (int i = 0; i < 16; ++i) {
        /* abbreviate some words to 4..n letters (always accent-free tails for the last word so that it ends in a plain letter) */
        const uint32_t* cp = L->cp[d[i]]; int n = L->ncp[d[i]]; int nl = L->nscp[d[i]];
        int keep = (pv_randn(rng, 2) && nl > 4) ? 4 + (int)pv_randn(rng, (uint32_t)(nl - 3)) : nl;
        int letters = 0; size_t k = 0;
        for (int c = 0; c < n; ++c) { bool acc = pv_is_accent(cp[c]); if (!acc) { if (letters == keep) break; ++letters; } else if (i == 15 && letters == keep) break; k += (size_t)pv_utf8_encode(cp[c], tok[i] + k); }
        /* drop a trailing accent of the last token so that its final byte is a plain letter */
        if (i == 15) while (k >= 2 && (unsigned char)tok[i][k - 2] == 0xCC) k -= 2;
        tok[i][k] = 0; len += (long)k;
    }
    long need = target - len;
    if (need < 0) return;
    if (need & 1) { /* accents are two bytes: fix the parity with one extra plain letter that keeps the token a valid prefix?  not possible in general -> use a 3-byte... */
        /* U+0301 is 2 bytes; parity is repaired by dropping one letter from a token that has more than 4 letters kept */
        bool fixed = false;
        for (int i = 0; i < 15 && !fixed; ++i) { size_t k = strlen(tok[i]); uint32_t cps[64]; int nc = pv_utf8_decode(tok[i], cps, 64); int letters = 0; for (int c = 0; c < nc; ++c) if (!pv_is_accent(cps[c])) ++letters;
            if (letters > 4 && (unsigned char)tok[i][k - 1] < 0x80) { tok[i][k - 1] = 0; fixed = true; } }
        if (!fixed) return;
        need += 1;
    }
    int flood_tok = 3 + (int)pv_randn(rng, 10);
    char* ph = malloc((size_t)target + 64); size_t k = 0;
    for (int i = 0; i < 16; ++i) {
        size_t l = strlen(tok[i]);
        if (i == flood_tok) { /* accents go after the first letter (and its own accents) */
            size_t cut = 1; while (cut < l && ((unsigned char)tok[i][cut] == 0xCC || ((unsigned char)tok[i][cut] & 0xC0) == 0x80)) ++cut;
            memcpy(ph + k, tok[i], cut); k += cut;
            for (long a = 0; a < need / 2; ++a) { ph[k++] = (char)0xCC; ph[k++] = (char)(0x80 + pv_randn(rng, 4)); }
            memcpy(ph + k, tok[i] + cut, l - cut); k += l - cut;
        } else { memcpy(ph + k, tok[i], l); k += l; }
        if (i < 15) ph[k++] = ' ';
    }
    ph[k] = 0;
    char* nf = pv_nfkd_alloc(ph); size_t nfl = strlen(nf); free(nf);
    pv_countf(1, "flood.nfkd_length.size%+ld", (long)nfl - (long)POLYSEED_STR_SIZE);
    PV_COUNT("flood.phrases", 1);
    phrase_calls(ph, k, coin, (int)(L - pv_langs), "accent-flood-to-exact-length", rng, idx % 4 == 1, false);
    /* those that fit must still decode to the seed (redundant accents are ignored) */
    if (nfl < POLYSEED_STR_SIZE) {
        char* in = pv_exact_str(ph); polyseed_data* s = NULL;
        int st = pv_api_decode_explicit(in, coin, L->lib, &s);
        if (st == POLYSEED_OK) { PV_COUNT("flood.decoded_ok", 1); pv_api_free(s); }
        free(in);
    }
    if (idx < 2) pv_sample("flood", "%s: %zu bytes (NFKD %zu) with %ld redundant accents in token %d", L->name_en, k, nfl, need / 2, flood_tok + 1);
    free(ph);
}

/* strings whose length does not fit a 32-bit (or 31-bit) integer: "any length" includes them.  ASCII only, so that the
 * library's own bounded copy is exercised and the normaliser is not asked to convert gigabytes. */
static uint64_t n_huge(void) { return pv.scale_pct >= 100 ? (pv.tier ? 8 : 4) : 0; }
static void run_huge(uint64_t idx, pv_rng* rng) {
    static const uint64_t LEN[8] = { (1ull << 31) + 100, (1ull << 31) - 1, 1ull << 31, 0 /* 2^32 + phrase */, (1ull << 32) + 5, (1ull << 32) - 1, 1 /* 2^32 + phrase + 1 */, 2 /* 2^33 + phrase */ };
    uint64_t n = LEN[idx % 8];
    pv_case_watchdog(600);            /* touching 2-8 GiB takes seconds, not milliseconds */
    /* a valid English phrase in front, so that the first 16 tokens are real words and the rest is one endless token */
    pv_mseed m; pv_gen_mseed(rng, 3, true, &m); unsigned coin = pv_gen_coin(rng); pv_mlang* L = pv_lang_by_name("English");
    char ph[2048]; size_t pl = pv_m_encode(&m, L, coin, ph, sizeof ph);
    /* lengths that are "a valid phrase" modulo 2^32 (2^33): a length kept in 32 bits turns the endless token into nothing */
    bool wrap = n < 3; if (wrap) n = (n == 2 ? (1ull << 33) : (1ull << 32)) + pl + (n == 1 ? 1 : 0);
    uint64_t maplen = n + 1; char* big;
    if (wrap) big = pv_map_repeated(n, &maplen);
    else { big = mmap(NULL, n + 1, PROT_READ | PROT_WRITE, MAP_PRIVATE | MAP_ANONYMOUS | MAP_NORESERVE, -1, 0); if (big == MAP_FAILED) big = NULL; else { memset(big, 'a', n); big[n] = 0; } }
    if (!big) { PV_COUNT("huge.skipped(no address space)", 1); return; }
    memcpy(big, ph, pl); big[pl] = ' ';
    if (!wrap) mprotect(big, n + 1, PROT_READ);
    pv_cur.note = "huge-string";
    polyseed_data* s = NULL; const polyseed_lang* lo = NULL;
    pv_cur.in_ptr = NULL;
    pv_world_begin("polyseed_decode"); int st = polyseed_decode(big, (polyseed_coin)coin, &lo, &s); pv_world_end();
    PV_COUNT("evaluations", 1);
    if (st != POLYSEED_ERR_NUM_WORDS) { pv_violation("C14/huge-string/decode", "a %llu-byte string (valid phrase followed by one endless token) -> %s", (unsigned long long)n, pv_status_name(st)); if (st == POLYSEED_OK) pv_api_free(s); }
    s = NULL;
    pv_world_begin("polyseed_decode_explicit"); st = polyseed_decode_explicit(big, (polyseed_coin)coin, L->lib, &s); pv_world_end();
    PV_COUNT("evaluations", 1);
    if (st != POLYSEED_ERR_NUM_WORDS) { pv_violation("C14/huge-string/decode_explicit", "a %llu-byte string -> %s", (unsigned long long)n, pv_status_name(st)); if (st == POLYSEED_OK) pv_api_free(s); }
    polyseed_data* sd = pv_seed_from_model(&m);
    if (sd) {
        pv_world_begin("polyseed_crypt"); polyseed_crypt(sd, big); pv_world_end();
        PV_COUNT("evaluations", 1);
        /* an ASCII password is its own NFKD form.  Whether the library hands all of it to the KDF or as much as its buffer holds is its
         * business (over-long passwords are not specified); but what it hands over must be the beginning of what was typed, and a
         * beginning shorter than the buffer means that the length was mangled on the way (kept modulo 2^32, say) */
        size_t l1 = pv_w->nkdf == 1 ? pv_w->kdf[0].pwlen : 0;
        if (pv_w->nkdf != 1) pv_violation("C14/huge-string/crypt", "a %llu-byte password: %d KDF calls", (unsigned long long)n, pv_w->nkdf);
        else if (memcmp(pv_w->kdf[0].pw, big, l1 < sizeof pv_w->kdf[0].pw ? l1 : sizeof pv_w->kdf[0].pw)) pv_violation("C14/huge-string/crypt-password-is-not-a-prefix-of-the-input", "a %llu-byte ASCII password: the %zu-byte KDF password is not its beginning", (unsigned long long)n, l1);
        else if (l1 != n && l1 < POLYSEED_STR_SIZE - 1) pv_violation("C14/huge-string/crypt-password-shorter-than-the-buffer", "a %llu-byte ASCII password reaches the KDF as its first %zu bytes only (the buffer holds %d)", (unsigned long long)n, l1, POLYSEED_STR_SIZE - 1);
        else PV_COUNT("huge.kdf_password_is_a_long_enough_prefix", 1);
        pv_api_free(sd);
    }
    PV_COUNT("huge.strings", 1); if (wrap) PV_COUNT("huge.strings_whose_length_is_a_valid_phrase_modulo_2^32", 1);
    PV_DISTINCT("nontrivial", pv_mix(0x4006e, n));
    pv_sample("huge", "%llu-byte NUL-terminated ASCII string into decode, decode_explicit and crypt", (unsigned long long)n);
    munmap(big, maplen);
}


/* ---------------------------------------------------------------- the numbers behind the documented names
 * "returns one of its documented status codes": bindings, serialised logs and programs built with the released header know the
 * codes, the coins and the two sizes by value.  What the header under test calls POLYSEED_ERR_LANG must still be 2. */
static uint64_t n_values(void) { return 1; }
static void run_values(uint64_t idx, pv_rng* rng) {
    (void)idx; (void)rng;
    static const struct { const char* name; long now, released; } V[] = {
        { "POLYSEED_OK", POLYSEED_OK, 0 }, { "POLYSEED_ERR_NUM_WORDS", POLYSEED_ERR_NUM_WORDS, 1 }, { "POLYSEED_ERR_LANG", POLYSEED_ERR_LANG, 2 }, { "POLYSEED_ERR_CHECKSUM", POLYSEED_ERR_CHECKSUM, 3 },
        { "POLYSEED_ERR_UNSUPPORTED", POLYSEED_ERR_UNSUPPORTED, 4 }, { "POLYSEED_ERR_FORMAT", POLYSEED_ERR_FORMAT, 5 }, { "POLYSEED_ERR_MEMORY", POLYSEED_ERR_MEMORY, 6 }, { "POLYSEED_ERR_MULT_LANG", POLYSEED_ERR_MULT_LANG, 7 },
        { "POLYSEED_MONERO", POLYSEED_MONERO, 0 }, { "POLYSEED_AEON", POLYSEED_AEON, 1 }, { "POLYSEED_WOWNERO", POLYSEED_WOWNERO, 2 },
        { "POLYSEED_NUM_WORDS", POLYSEED_NUM_WORDS, 16 }, { "POLYSEED_SIZE", POLYSEED_SIZE, 32 }, { "sizeof(polyseed_storage)", (long)sizeof(polyseed_storage), 32 } };
    PV_COUNT("evaluations", 1);
    bool ok = true;
    for (unsigned i = 0; i < sizeof V / sizeof *V; ++i) if (V[i].now != V[i].released) { ok = false; pv_violation("C14/documented-codes-renumbered", "%s is %ld in the header under test and %ld in the released one", V[i].name, V[i].now, V[i].released); }
    /* and the library returns those values: one call per status */
    if (ok) { PV_COUNT("values.published_constants_unchanged", 1); PV_DISTINCT("nontrivial", 0x7a1e5); }
}

/* the same calls on a thread whose stack is as small as the default of a mainstream C library (musl: 128 KiB; here
 * 96 KiB to leave room for the monitors): stated assumption "an API call needs well under 96 KiB of stack" */
#define SMALL_STACK (96 * 1024)
typedef struct ssjob { pv_world* w; const char* str; size_t len; unsigned coin; int lang; pv_rng rng; } ssjob;
static void* ss_thread(void* p) {
    ssjob* j = p; pv_w = j->w;
    stack_t alt; alt.ss_sp = malloc(1 << 15); alt.ss_size = 1 << 15; alt.ss_flags = 0; sigaltstack(&alt, NULL);       /* so that a stack overflow is reported, not just fatal */
    if (j->len > 4000) {
        /* "any length": the stack a call needs must not grow with the length of the caller's string (a variable-length array or
         * alloca sized by the input works on an 8 MiB main-thread stack and dies on a worker thread) */
        polyseed_data* d = NULL; const polyseed_lang* lo = NULL;
        int st = pv_api_decode(j->str, j->coin, &lo, &d); if (st == POLYSEED_OK) pv_api_free(d);
        if (st < 0 || st > POLYSEED_ERR_MEMORY) pv_violation("C14/status-out-of-range", "decode of a %zu-byte string on a small stack -> %d", j->len, st);
        d = NULL; st = pv_api_decode_explicit(j->str, j->coin, pv_langs[j->lang >= 0 && pv_langs[j->lang].lib ? j->lang : 0].lib, &d); if (st == POLYSEED_OK) pv_api_free(d);
        if (st < 0 || st > POLYSEED_ERR_MEMORY) pv_violation("C14/status-out-of-range", "decode_explicit of a %zu-byte string on a small stack -> %d", j->len, st);
        PV_COUNT("small_stack.long_inputs", 1); PV_COUNT("evaluations", 2);
    } else
    phrase_calls(j->str, j->len, j->coin, j->lang, "small-stack", &j->rng, false, false);
    polyseed_data* s = NULL; pv_mseed m; pv_gen_mseed(&j->rng, 3, true, &m);
    uint8_t* img = malloc(32); pv_m_image(&m, img);
    if (pv_api_load(img, &s) == POLYSEED_OK) {
        char* out = malloc(POLYSEED_STR_SIZE);
        for (int l = 0; l < pv_nlangs; ++l) if (pv_langs[l].lib) pv_api_encode(s, pv_langs[l].lib, j->coin, out);
        pv_api_crypt(s, j->str); uint8_t* key = malloc(32); pv_api_keygen(s, j->coin, 32, key); free(key);
        pv_api_free(s); free(out);
    }
    free(img);
    alt.ss_flags = SS_DISABLE; sigaltstack(&alt, NULL);
    return NULL;
}
static uint64_t n_small(void) { return pv_scaled(3000, 60000); }
static void run_small(uint64_t idx, pv_rng* rng) {
    pv_gstr g; pv_gen_string(rng, 3, &g);
    if (g.len > 4000) { pv_gstr_free(&g); return; }
    if (idx % 16 == 7) {
        /* a long string (70 KiB ... 1.2 MiB, far beyond the 96 KiB stack): the generated string, which may be a valid phrase, with a
         * non-ASCII or ASCII head in front or a long tail of words, blanks, accents or CR/LF behind */
        static const size_t LONG[] = { 70u << 10, 200u << 10, 1200u << 10 };
        static const char* const FILL[] = { " word", " ", "\xcc\x81", "\r\n", " \xed\x95\x9c\xea\xb5\xad", "a" };
        size_t L = LONG[(idx / 16) % 3] + pv_randn(rng, 999); const char* f = FILL[(idx / 48) % 6]; size_t fl = strlen(f);
        bool head = pv_randn(rng, 2);
        char* big = malloc(L + g.len + 16); size_t k = 0;
        if (head && pv_randn(rng, 2)) { memcpy(big + k, "\xc3\xa9 ", 3); k += 3; }
        if (!head) { memcpy(big + k, g.s, g.len); k += g.len; }
        while (k + fl < L) { memcpy(big + k, f, fl); k += fl; }
        if (head) { big[k++] = ' '; memcpy(big + k, g.s, g.len); k += g.len; }
        big[k] = 0;
        free(g.s); g.s = big; g.len = k;
    }
    ssjob j = { pv_w, g.s, g.len, g.coin, g.lang, *rng };
    pthread_attr_t a; pthread_attr_init(&a); pthread_attr_setstacksize(&a, SMALL_STACK);
    pthread_t t;
    if (pthread_create(&t, &a, ss_thread, &j) == 0) { pthread_join(t, NULL); PV_COUNT("small_stack.threads", 1); }
    pthread_attr_destroy(&a);
    pv_gstr_free(&g);
}

static uint64_t n_passwords(void) { return pv_scaled(40000, 1000000); }
static void run_passwords(uint64_t idx, pv_rng* rng) {
    pv_mseed m; pv_gen_mseed(rng, 3, true, &m);
    polyseed_data* s = pv_seed_from_model(&m);
    if (!s) return;
    char* pw; const char* cls; size_t len;
    pv_gstr g; g.s = NULL;
    if (idx % 3 == 0) { pw = pv_gen_password(rng, &cls); len = strlen(pw); }
    else { pv_gen_string(rng, 3, &g); pw = g.s; cls = g.cls; len = g.len; }
    const char* in = pw; bool ro = idx % 8 == 2;
    if (ro) { in = ro_place(pw, len); if (!in) { in = pw; ro = false; } }
    char* copy = pv_exact_str(pw);
    pv_w->kdf_mode = idx % 2; if (pv_w->kdf_mode) pv_randbytes(rng, pv_w->kdf_mask, 32);
    int live0 = pv_ledger_live();
    pv_api_crypt(s, in);
    pv_w->kdf_mode = 0;
    PV_COUNT("evaluations", 1); pv_countf(1, "calls.crypt.len%s", lenclass(len));
    if (memcmp(copy, pw, len + 1)) pv_violation("C14/input-modified", "[%s] crypt changed its password", cls);
    if (pv_ledger_live() != live0) pv_violation("C14/block-left-allocated/crypt", "[%s] crypt changed the number of live blocks by %d", cls, pv_ledger_live() - live0);
    if (pv_w->nkdf == 1 && pv_w->kdf[0].pwlen > POLYSEED_STR_SIZE - 1) pv_violation("C14/password-longer-than-buffer-passed-to-kdf", "[%s] KDF password length %zu", cls, pv_w->kdf[0].pwlen);
    /* the seed must still be canonical: store -> model load */
    uint8_t* img = malloc(32); pv_api_store(s, img); pv_mseed t;
    if (pv_m_load(img, 3, &t) != POLYSEED_OK) pv_violation("C14/seed-not-canonical-after-crypt", "[%s] image %s after crypt with a %zu-byte password", cls, pv_hex(img, 32), len);
    free(img);
    PV_DISTINCT("nontrivial", pv_mix(pv_hash(pw, len, 0xc14), pv_mseed_hash(&m)));
    free(copy);
    if (g.s) pv_gstr_free(&g); else free(pw);
    pv_api_free(s);
}

static uint64_t n_buffers(void) { return pv_scaled(150000, 4000000); }
static void run_buffers(uint64_t idx, pv_rng* rng) {
    uint8_t b[32]; uint32_t k = pv_randn(rng, 4);
    pv_mseed m; pv_gen_mseed(rng, 7, true, &m); pv_m_image(&m, b);
    if (k == 1) { int n = 1 + (int)pv_randn(rng, 6); for (int i = 0; i < n; ++i) b[pv_randn(rng, 32)] ^= (uint8_t)(1u << pv_randn(rng, 8)); }
    else if (k == 2) pv_randbytes(rng, b, 32);
    else if (k == 3) pv_randbytes(rng, b + 8 + pv_randn(rng, 20), 4);
    const uint8_t* in; uint8_t* heap = NULL;
    bool ro = idx % 8 == 3;
    if (ro) { mprotect(g_ro, (size_t)g_ps * RO_PAGES, PROT_READ | PROT_WRITE); uint8_t* p = g_ro + (size_t)g_ps * RO_PAGES - 32; memcpy(p, b, 32); mprotect(g_ro, (size_t)g_ps * RO_PAGES, PROT_READ); in = p; PV_COUNT("inputs.on_readonly_page_before_guard", 1); }
    else { size_t off = idx % 8; heap = malloc(32 + off); memcpy(heap + off, b, 32); in = heap + off; }       /* byte array: any alignment */
    bool armed = idx % 16 == 5; if (armed) pv_w->fail_countdown = 1;
    int live0 = pv_ledger_live();
    polyseed_data* s = NULL; int st = pv_api_load(in, &s);
    pv_w->fail_countdown = 0;
    PV_COUNT("evaluations", 1); pv_countf(1, "calls.load.%s", pv_status_name(st));
    if (!in_set(st, SET_LOAD, 5)) pv_violation("C14/status-outside-documented-set/load", "-> %d for %s", st, pv_hex(b, 32));
    if (st == POLYSEED_OK) pv_api_free(s);
    if (pv_ledger_live() != live0) pv_violation("C14/block-left-allocated/load", "load -> %s leaves %d block(s)", pv_status_name(st), pv_ledger_live() - live0);
    if (memcmp(in, b, 32)) pv_violation("C14/input-modified", "load changed its input buffer");
    PV_DISTINCT("nontrivial", pv_hash(b, 32, 0xb0f));
    free(heap);
}

/* ---------------------------------------------------------------- arbitrary strings and buffers while other threads feed theirs */
static bool conc_iter(pv_rng* r, int iter, void* user, char* err, size_t errsz) {
    (void)iter; (void)user;
    pv_mseed m; pv_gen_mseed(r, 3, true, &m);
    pv_mlang* L; do { L = &pv_langs[pv_randn(r, (uint32_t)pv_nlangs)]; } while (!L->lib || (!strncmp(L->key, "zh", 2) && pv_randn(r, 4)));
    unsigned coin = pv_gen_coin(r);
    char raw[4096]; pv_m_encode(&m, L, coin, raw, 2048);
    size_t n = strlen(raw); uint32_t kind = pv_randn(r, 4);
    if (kind == 1) for (int e = 0; e < 3; ++e) raw[pv_randn(r, (uint32_t)n)] = (char)pv_rand64(r);            /* byte edits */
    if (kind == 2) { size_t want = POLYSEED_STR_SIZE - 4 + pv_randn(r, 8); while (n < want) raw[n++] = (char)(pv_randn(r, 5) ? 'a' + pv_randn(r, 26) : 0xc3), raw[n] = 0; for (size_t i = 0; i + 1 < n; ++i) if ((unsigned char)raw[i] == 0xc3 && (unsigned char)raw[i + 1] < 0x80) raw[i] = 'z'; if ((unsigned char)raw[n - 1] == 0xc3) raw[n - 1] = 'z'; }
    for (size_t i = 0; i < n; ++i) if (!raw[i]) raw[i] = ' ';
    char* in = pv_exact_str(raw); char* keep = pv_exact_str(raw);
    bool ok = true; int live0 = pv_ledger_live();
    polyseed_data* s = NULL; const polyseed_lang* lo = NULL;
    int st = pv_randn(r, 2) ? pv_api_decode(in, coin, &lo, &s) : pv_api_decode_explicit(in, coin, L->lib, &s);
    if (!in_set(st, SET_DECODE, 7)) { ok = false; snprintf(err, errsz, "status %d outside the documented set", st); }
    if (strcmp(in, keep)) { ok = false; snprintf(err, errsz, "the input string was modified"); }
    if (st != POLYSEED_OK && pv_ledger_live() != live0) { ok = false; snprintf(err, errsz, "failed decode (%s) left %d block(s) allocated", pv_status_name(st), pv_ledger_live() - live0); pv_ledger_reclaim(live0); }
    if (kind == 0 && st != POLYSEED_OK && st != POLYSEED_ERR_MULT_LANG) { ok = false; snprintf(err, errsz, "valid %s phrase -> %s", L->name_en, pv_status_name(st)); }
    if (st == POLYSEED_OK) {
        if (kind == 0) { const char* mm = pv_seed_mismatch(s, &m, coin); if (mm) { ok = false; snprintf(err, errsz, "%s", mm); } }
        pv_api_crypt(s, in);                            /* the same string as a password */
        uint8_t img[32]; pv_api_store(s, img); if (img[28] & 0xc0) { ok = false; snprintf(err, errsz, "seed not canonical after crypt"); }
        pv_api_free(s);
    }
    free(in); free(keep);
    return ok;
}
static uint64_t n_conc(void) { return pv_scaled(3, 100); }
static void run_conc(uint64_t idx, pv_rng* rng) {
    (void)idx;
    enum { NT = 8, IT = 1500 }; static pv_conc_result res[NT];
    uint64_t seed = pv_rand64(rng);
    pv_concurrent(NT, IT, seed, 35, conc_iter, NULL, res);
    if (pv_concurrent_verdict(res, NT, IT, "C14/misbehaves-under-concurrency", "concurrent.calls_well_behaved")) PV_DISTINCT("nontrivial", seed);
}

int main(int argc, char** argv) {
    static const pv_section secs[] = { { "phrases", n_phrases, run_phrases }, { "flood", n_flood, run_flood }, { "huge", n_huge, run_huge }, { "smallstack", n_small, run_small }, { "passwords", n_passwords, run_passwords }, { "buffers", n_buffers, run_buffers }, { "concurrent", n_conc, run_conc }, { "values", n_values, run_values } };
    return pv_main(argc, argv, "C14", secs, 8, init, NULL);
}
