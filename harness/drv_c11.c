/* drv_c11 — the wallet birthday is never later than creation and accurate to one month (DESIGN 3/C11)
 * Clock values are injected through the dependency table and, with the time entry NULL, through libc time()
 * (interposed at link time). */
#include "pv.h"
#include <time.h>

#define RANGE_END (PV_EPOCH + 1024 * PV_STEP)
static char* g_out;

/* What application code looks like: the clock callback and the plain file-scope variable it reads live in the translation unit that
 * calls the API by name, and the variable is set just before the call and restored afterwards.  The compiler may only keep that
 * sequence intact if it knows that polyseed_create can call back into this file - which a wrong function attribute in the header
 * (leaf, const, pure) would deny */
static uint64_t s_clock = 1;
static uint64_t own_clock(void) { return s_clock; }
static uint64_t create_at(uint64_t t, polyseed_data** out) {
    uint64_t saved = s_clock;
    s_clock = t;
    polyseed_status st = polyseed_create(0, out);
    s_clock = saved;
    return (uint64_t)st;
}
static void inject(bool with_time) {
    polyseed_dependency t; pv_world_table(&t, 0, with_time, true, true);
    pv_api_inject(&t);
}
static bool g_libc;
static void use_libc(bool libc) { if (libc != g_libc) { inject(!libc); g_libc = libc; } }

static void init(void) {
    pv_world_init(pv.seed);
    pv_model_init();
    pv_inject_default();
    pv_model_bind_library();
    pv_api_enable_features(7);
    g_out = malloc(POLYSEED_STR_SIZE);
    pv_info("rule", "polyseed_create with a scripted clock t (through the injected time entry and through interposed libc time()): both sides of all 1024 month boundaries, the epoch, "
                    "0, 2^31/2^32/2^63 neighbours, 2^64-2, 2^64-1, the end of the range, random values; thorough sweeps the whole range every 61 s. Oracle: B <= t < B + 2629746 inside the "
                    "range, B = epoch before it and for (time_t)-1, B <= t always, B = epoch + k*2629746 with k in 0..1023, B equals the model; one seed per month is carried through "
                    "every language, storage and encryption. non-trivial = a create whose reported birthday satisfied all clauses; distinct = distinct (clock value, clock source)");
}

static void one(uint64_t t, bool libc, const char* cls) {
    use_libc(libc);
    uint64_t before_inj = pv_w->total[PV_EV_TIME], before_libc = pv_wrap_count[PV_WRAP_TIME];
    if (libc) {
        /* the default clock is Unix time: the process time zone must not matter */
        /* (the last two are "right" zones of tzdata, where the C library's broken-down time counts leap seconds; silently UTC where tzdata lacks them) */
        static const char* const TZS[] = { "UTC0", "EST5EDT", "PST8PDT", "JST-9", "NZST-12NZDT", "<-11>11", "right/UTC", "right/Asia/Tokyo" };
        static unsigned tzi; const char* tz = TZS[tzi++ % 8];
        setenv("TZ", tz, 1); tzset();
        pv_wrap_time_scripted = 1; pv_wrap_time_value = (time_t)t;
    } else {
        pv_w->time_value = t; pv_w->time_script_n = 0;
        static unsigned g_moving;
        if (++g_moving % 4 == 0) { pv_w->time_script[0] = t; pv_w->time_script[1] = t + PV_STEP + g_moving % 977; pv_w->time_script[2] = (g_moving & 4) ? PV_EPOCH - 7 : t + 2 * PV_STEP; pv_w->time_script_n = 3; }
    }
    polyseed_data* s = NULL;
    int st = pv_api_create(0, &s);
    pv_wrap_time_scripted = 0; pv_w->time_script_n = 0;
    int nreads = pv_w->time_reads; uint64_t seen[8]; memcpy(seen, pv_w->time_seen, sizeof seen);
    PV_COUNT("evaluations", 1);
    if (st != POLYSEED_OK) { pv_violation("C11/create-failed", "t=%llu -> %s", (unsigned long long)t, pv_status_name(st)); return; }
    uint64_t inj = pv_w->total[PV_EV_TIME] - before_inj, lc = pv_wrap_count[PV_WRAP_TIME] - before_libc;
    /* the configured source must be consulted (at least once) and the other one not at all; how often is the library's business */
    if (libc ? (lc < 1 || inj != 0) : (inj < 1 || lc != 0)) pv_violation("C11/clock-source", "[%s] injected clock read %llu times, libc time() %llu times", libc ? "libc" : "injected", (unsigned long long)inj, (unsigned long long)lc);
    /* should the library read a moving clock several times, any of the readings is "the" creation time (injected source only: every
     * reading after the first is different in a quarter of the cases, see g_moving) */
    if (!libc && nreads > 1) { uint64_t B0 = pv_api_get_birthday(s); for (int i = 1; i < nreads && i < 8; ++i) if (B0 == pv_m_birthday_time(pv_m_birthday_of(seen[i]))) t = seen[i]; PV_COUNT("creates.reading_the_clock_more_than_once", 1); }
    uint64_t B = pv_api_get_birthday(s);
    uint64_t want = pv_m_birthday_time(pv_m_birthday_of(t));
    bool ok = true;
    const char* src = libc ? "libc" : "injected";
    if (B < PV_EPOCH || (B - PV_EPOCH) % PV_STEP != 0 || (B - PV_EPOCH) / PV_STEP > 1023) { ok = false; pv_violation("C11/not-a-month-boundary", "[%s] t=%llu: birthday %llu is not epoch + k*step", src, (unsigned long long)t, (unsigned long long)B); }
    if (t == UINT64_MAX || t < PV_EPOCH) { if (B != PV_EPOCH) { ok = false; pv_violation("C11/broken-clock-not-clamped", "[%s] t=%llu: birthday %llu, expected the epoch", src, (unsigned long long)t, (unsigned long long)B); } }
    else {
        if (B > t) { ok = false; pv_violation("C11/birthday-later-than-creation", "[%s] t=%llu: birthday %llu is later", src, (unsigned long long)t, (unsigned long long)B); }
        if (t < RANGE_END && !(t < B + PV_STEP)) { ok = false; pv_violation("C11/birthday-too-early", "[%s] t=%llu: birthday %llu is more than one step earlier", src, (unsigned long long)t, (unsigned long long)B); }
    }
    if (ok && B != want) { ok = false; pv_violation("C11/differs-from-model", "[%s] t=%llu: birthday %llu, model %llu", src, (unsigned long long)t, (unsigned long long)B, (unsigned long long)want); }
    if (ok) { PV_DISTINCT("nontrivial", pv_mix(t, libc)); pv_countf(1, "creates.%s.%s", cls, src); }
    pv_api_free(s);
}

static uint64_t n_bound(void) { return 1025 * 4 * 2; }
static void run_bound(uint64_t idx, pv_rng* rng) {
    (void)rng;
    bool libc = idx & 1; uint64_t k = (idx / 2) / 4; int o = (int)((idx / 2) % 4);
    static const int64_t OFF[4] = { -1, 0, 1, (int64_t)PV_STEP - 1 };
    one(PV_EPOCH + k * PV_STEP + (uint64_t)OFF[o], libc, "boundary");
    if (idx == 2056) pv_sample("boundary", "t = epoch + %llu*step %+lld (%s clock)", (unsigned long long)k, (long long)OFF[o], libc ? "libc" : "injected");
}
static const uint64_t SPECIAL[] = { 0, 1, PV_EPOCH - 1, PV_EPOCH, PV_EPOCH + 1, (1ull << 31) - 1, 1ull << 31, (1ull << 31) + 1, (1ull << 32) - 1, 1ull << 32, (1ull << 32) + 1,
    (1ull << 63) - 1, 1ull << 63, (1ull << 63) + 1, UINT64_MAX - 1, UINT64_MAX, RANGE_END - 1, RANGE_END, RANGE_END + 1, RANGE_END + PV_STEP, 1638446400ull, 3118651200ull, 4305268800ull,
    PV_EPOCH + 512 * PV_STEP - 1, PV_EPOCH + 512 * PV_STEP, 253402300799ull };
static uint64_t n_special(void) { return 2 * sizeof SPECIAL / sizeof *SPECIAL; }
static void run_special(uint64_t idx, pv_rng* rng) { (void)rng; one(SPECIAL[idx / 2], idx & 1, "special"); pv_sample("special", "t = %llu", (unsigned long long)SPECIAL[idx / 2]); }

static uint64_t n_random(void) { return pv_scaled(300000, 2000000); }
static void run_random(uint64_t idx, pv_rng* rng) {
    uint64_t t;
    if (idx % 4 == 3) { t = pv_rand64(rng); if (pv_randn(rng, 4) == 0) t >>= pv_randn(rng, 40); one(t, idx & 4, "random-64bit"); }
    else { t = PV_EPOCH + pv_rand64(rng) % (1024 * PV_STEP); one(t, idx & 4, "random-in-range"); }
}

/* thorough: the whole range, one create every 61 s */
#define SWEEP_STEP 61
#define SWEEP_BLK 8192
static uint64_t n_sweep(void) { return pv.tier ? (1024 * PV_STEP / SWEEP_STEP) / SWEEP_BLK + 1 : 8; }
static void run_sweep(uint64_t idx, pv_rng* rng) {
    uint64_t first = pv.tier ? idx * SWEEP_BLK : (uint64_t)pv_randn(rng, (uint32_t)((1024 * PV_STEP / SWEEP_STEP) / SWEEP_BLK)) * SWEEP_BLK;
    uint64_t phase = pv_randn(rng, SWEEP_STEP);
    for (uint64_t i = 0; i < SWEEP_BLK; ++i) {
        uint64_t t = PV_EPOCH + (first + i) * SWEEP_STEP + phase;
        if (t >= RANGE_END) break;
        one(t, false, "sweep");
    }
}

/* persistence of the birthday through every transformation */
static uint64_t n_persist(void) { return 1024; }
static void run_persist(uint64_t idx, pv_rng* rng) {
    use_libc(false);
    unsigned k = (unsigned)idx;
    pv_w->time_value = pv_m_birthday_time(k) + pv_randn(rng, (uint32_t)PV_STEP);
    polyseed_data* s = NULL;
    if (pv_api_create(pv_randn(rng, 8), &s) != POLYSEED_OK) { pv_violation("C11/create-failed", "month %u", k); return; }
    uint64_t B = pv_api_get_birthday(s), want = pv_m_birthday_time(k);
    PV_COUNT("evaluations", 1);
    if (B != want) pv_violation("C11/differs-from-model", "month %u: %llu vs %llu", k, (unsigned long long)B, (unsigned long long)want);
    /* time passes: everything after creation happens months or years later, or while the clock is broken - the birthday stays */
    { static const uint64_t LATER[] = { 0, UINT64_MAX, PV_EPOCH - 1 }; pv_w->time_value = pv_randn(rng, 3) ? pv_m_birthday_time((k + 1 + pv_randn(rng, 900)) & 1023) + 5 : LATER[pv_randn(rng, 3)]; }
    for (int l = 0; l < pv_nlangs; ++l) {
        if (!pv_langs[l].lib) continue;
        unsigned coin = pv_gen_coin(rng);
        pv_api_encode(s, pv_langs[l].lib, coin, g_out);
        char* in = pv_exact_str(g_out); polyseed_data* t = NULL;
        int st = pv_api_decode_explicit(in, coin, pv_langs[l].lib, &t);
        PV_COUNT("evaluations", 1);
        if (st != POLYSEED_OK) pv_violation("C11/persist/decode-failed", "%s month %u -> %s", pv_langs[l].name_en, k, pv_status_name(st));
        else { if (pv_api_get_birthday(t) != want) pv_violation("C11/persist/phrase", "%s: birthday %llu after encode/decode, was %llu", pv_langs[l].name_en, (unsigned long long)pv_api_get_birthday(t), (unsigned long long)want); else PV_COUNT("persist.phrase_ok", 1); pv_api_free(t); }
        free(in);
    }
    uint8_t* img = malloc(32); pv_api_store(s, img);
    polyseed_data* t = NULL;
    if (pv_api_load(img, &t) == POLYSEED_OK) { if (pv_api_get_birthday(t) != want) pv_violation("C11/persist/storage", "birthday changed by store/load"); else PV_COUNT("persist.storage_ok", 1); pv_api_free(t); }
    else pv_violation("C11/persist/load-failed", "month %u", k);
    free(img);
    pv_api_crypt(s, "pw"); if (pv_api_get_birthday(s) != want) pv_violation("C11/persist/crypt", "birthday changed by encryption"); 
    pv_api_crypt(s, "pw"); if (pv_api_get_birthday(s) != want) pv_violation("C11/persist/crypt", "birthday changed by decryption"); else PV_COUNT("persist.crypt_ok", 1);
    PV_DISTINCT("nontrivial", pv_mix(0x9e, k));
    pv_api_free(s);
}

static void fini(void) {
    pv_set_flag("exhaustive.month_boundaries(1025 x 4 offsets x 2 clock sources)", true);
    pv_set_flag("exhaustive.range_sweep_every_61s", pv.tier == 1);
}
/* ---------------------------------------------------------------- the same clauses while other threads create and transform their own seeds */
static bool conc_iter(pv_rng* r, int iter, void* user, char* err, size_t errsz) {
    (void)iter; (void)user;
    uint64_t t;
    switch (pv_randn(r, 4)) {
    case 0: t = PV_EPOCH + (uint64_t)pv_randn(r, 1024) * PV_STEP + (uint64_t)pv_randn(r, 3) - 1; break;     /* around a month boundary */
    case 1: { static const uint64_t SP[] = { 0, 1, PV_EPOCH - 1, PV_EPOCH, UINT64_MAX, UINT64_MAX - 1, 1ull << 32, RANGE_END - 1, RANGE_END }; t = SP[pv_randn(r, sizeof SP / sizeof *SP)]; break; }
    default: t = PV_EPOCH + pv_rand64(r) % (1024 * PV_STEP); break;
    }
    pv_w->time_value = t;
    polyseed_data* s = NULL; int st = pv_api_create(0, &s);
    if (st != POLYSEED_OK) { snprintf(err, errsz, "create at t=%llu -> %s", (unsigned long long)t, pv_status_name(st)); return false; }
    uint64_t want = pv_m_birthday_time(pv_m_birthday_of(t));
    bool ok = true;
    uint64_t B = pv_api_get_birthday(s);
    if (B != want) { ok = false; snprintf(err, errsz, "t=%llu: birthday %llu, model %llu", (unsigned long long)t, (unsigned long long)B, (unsigned long long)want); }
    /* phrase, storage and encryption keep it */
    pv_mlang* L; do { L = &pv_langs[pv_randn(r, (uint32_t)pv_nlangs)]; } while (!L->lib || !strncmp(L->key, "zh", 2));
    unsigned coin = pv_gen_coin(r);
    char* out = malloc(POLYSEED_STR_SIZE); uint8_t* img = malloc(32);
    pv_api_encode(s, L->lib, coin, out);
    polyseed_data* d = NULL; st = pv_api_decode_explicit(out, coin, L->lib, &d);
    if (st != POLYSEED_OK) { ok = false; snprintf(err, errsz, "t=%llu: own %s phrase -> %s", (unsigned long long)t, L->name_en, pv_status_name(st)); }
    else { uint64_t B2 = pv_api_get_birthday(d); if (B2 != want) { ok = false; snprintf(err, errsz, "t=%llu: birthday %llu after encode/decode (%s), model %llu", (unsigned long long)t, (unsigned long long)B2, L->name_en, (unsigned long long)want); } pv_api_free(d); }
    pv_api_store(s, img); d = NULL; st = pv_api_load(img, &d);
    if (st != POLYSEED_OK) { ok = false; snprintf(err, errsz, "t=%llu: own image -> %s", (unsigned long long)t, pv_status_name(st)); }
    else { uint64_t B3 = pv_api_get_birthday(d); if (B3 != want) { ok = false; snprintf(err, errsz, "t=%llu: birthday %llu after store/load, model %llu", (unsigned long long)t, (unsigned long long)B3, (unsigned long long)want); } pv_api_free(d); }
    pv_w->time_value = pv_randn(r, 2) ? t + (1 + pv_randn(r, 500)) * PV_STEP : UINT64_MAX;          /* the clock has moved on (or broke) since creation */
    pv_api_crypt(s, "pw"); if (pv_api_get_birthday(s) != want) { ok = false; snprintf(err, errsz, "t=%llu: birthday changed by encryption at a later time", (unsigned long long)t); }
    free(out); free(img); pv_api_free(s);
    return ok;
}

/* ---------------------------------------------------------------- the application's own clock: a callback and a file-scope variable in this file */
static uint64_t n_ownclock(void) { return pv_scaled(3000, 60000); }
static void run_ownclock(uint64_t idx, pv_rng* rng) {
    static bool injected;
    polyseed_dependency t; pv_world_table(&t, 0, true, true, true); t.time = own_clock;
    pv_api_inject(&t); injected = true; (void)injected;
    uint64_t tt = (idx % 3 == 0) ? PV_EPOCH + (pv_rand64(rng) % 1024) * PV_STEP + (idx % 2 ? 0 : PV_STEP - 1) : PV_EPOCH + pv_rand64(rng) % (1024 * PV_STEP);
    polyseed_data* sd = NULL;
    pv_world_begin("polyseed_create"); uint64_t st = create_at(tt, &sd); pv_world_end();
    PV_COUNT("evaluations", 1);
    if (st != POLYSEED_OK) { pv_violation("C11/create-failed", "[own clock] t=%llu -> %s", (unsigned long long)tt, pv_status_name((int)st)); }
    else {
        uint64_t B = pv_api_get_birthday(sd), want = pv_m_birthday_time(pv_m_birthday_of(tt));
        if (B != want) pv_violation("C11/differs-from-model", "[clock kept in a file-scope variable of the calling translation unit, set just before polyseed_create and restored afterwards] t=%llu: birthday %llu, model %llu", (unsigned long long)tt, (unsigned long long)B, (unsigned long long)want);
        else { PV_COUNT("ownclock.birthdays_equal_model", 1); PV_DISTINCT("nontrivial", pv_mix(tt, 0x0c10c)); }
        pv_api_free(sd);
    }
    g_libc = false; inject(true);
}
static uint64_t n_conc(void) { return pv_scaled(3, 100); }
static void run_conc(uint64_t idx, pv_rng* rng) {
    (void)idx; use_libc(false);
    enum { NT = 8, IT = 1500 }; static pv_conc_result res[NT];
    uint64_t seed = pv_rand64(rng);
    pv_concurrent(NT, IT, seed, 35, conc_iter, NULL, res);
    if (pv_concurrent_verdict(res, NT, IT, "C11/differs-under-concurrency", "concurrent.birthdays_equal_model")) PV_DISTINCT("nontrivial", seed);
}

int main(int argc, char** argv) {
    static const pv_section secs[] = { { "boundaries", n_bound, run_bound }, { "special", n_special, run_special }, { "random", n_random, run_random },
                                       { "sweep", n_sweep, run_sweep }, { "persist", n_persist, run_persist }, { "ownclock", n_ownclock, run_ownclock }, { "concurrent", n_conc, run_conc } };
    return pv_main(argc, argv, "C11", secs, 7, init, fini);
}
