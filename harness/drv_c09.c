/* drv_c09 — language auto-detection never guesses and agrees with explicit decoding (DESIGN 3/C09)
 * Primary oracle: the relation between the library's two decoders on the same input.  Token counting and the
 * precedence of statuses come from the model. */
#include "pv.h"

static uint8_t *g_i1, *g_i2;

static void init(void) {
    pv_world_init(pv.seed);
    pv_model_init();
    pv_inject_default();
    pv_model_bind_library();
    pv_api_enable_features(3);          /* user bit 4 stays reserved so that UNSUPPORTED is reachable with user bits too */
    g_i1 = malloc(32); g_i2 = malloc(32);
    pv_info("rule", "grammar strings (valid phrases of every language with abbreviated/edited/foreign/empty tokens, separator, count and length edits, arbitrary Unicode, raw bytes, "
                    "ambiguous phrases for every overlapping language pair) x coins: with E_L = explicit result per registry language and R = languages whose E_L is neither NUM_WORDS nor "
                    "LANG, auto-detect must return NUM_WORDS iff the model token count != 16, LANG iff R is empty, MULT_LANG iff |R| >= 2, else exactly E_L with that language and seed; "
                    "with the allocator armed to fail, NUM_WORDS/LANG/MULT_LANG/CHECKSUM must still win over MEMORY and MEMORY over UNSUPPORTED. "
                    "non-trivial = a string whose auto result satisfied the relation; distinct = distinct (string, coin)");
}

static const char sentinel_obj;     /* never dereferenced; only its address is used */
#define SENTINEL ((const polyseed_lang*)(const void*)&sentinel_obj)

static void check_string(const char* str, unsigned coin, const char* cls, pv_rng* rng, bool with_armed) {
    int est[PV_MAXLANG]; uint8_t eimg[PV_MAXLANG][32]; int nR = 0, which = -1;
    int all_numwords = 1;
    for (int l = 0; l < pv_nlangs; ++l) {
        est[l] = -2;
        if (!pv_langs[l].lib) continue;
        polyseed_data* s = NULL;
        est[l] = pv_api_decode_explicit(str, coin, pv_langs[l].lib, &s);
        PV_COUNT("evaluations", 1);
        if (est[l] == POLYSEED_OK) { pv_api_store(s, eimg[l]); pv_api_free(s); }
        if (est[l] != POLYSEED_ERR_NUM_WORDS) all_numwords = 0;
        if (est[l] != POLYSEED_ERR_NUM_WORDS && est[l] != POLYSEED_ERR_LANG) { ++nR; which = l; }
        if (est[l] == POLYSEED_ERR_MULT_LANG || est[l] == POLYSEED_ERR_FORMAT || est[l] < 0 || est[l] > 7)
            pv_violation("C09/explicit-status-out-of-set", "[%s] decode_explicit(%s) -> %s", cls, pv_langs[l].name_en, pv_status_name(est[l]));
    }
    const polyseed_lang* lo = SENTINEL; polyseed_data* a = NULL;
    int st = pv_api_decode(str, coin, &lo, &a);
    PV_COUNT("evaluations", 1);
    bool ok = true;
    /* token count from the model (only for inputs that fit the public buffer after NFKD) */
    pv_mdecode md; pv_m_decode(str, coin, NULL, 3, &md);
    char* nf = pv_nfkd_alloc(str); bool fits = strlen(nf) < POLYSEED_STR_SIZE; free(nf);
    if (fits) {
        bool nw = md.ntokens != 16;
        if (nw != (st == POLYSEED_ERR_NUM_WORDS)) { ok = false; pv_violation(nw ? "C09/token-count/ignored-extra-missing-or-empty-token" : "C09/token-count/spurious-num-words", "[%s] model counts %d tokens, decode -> %s; input '%s'", cls, md.ntokens, pv_status_name(st), pv_esc(str)); }
        if (nw && !all_numwords) { ok = false; pv_violation("C09/token-count/explicit", "[%s] model counts %d tokens but some explicit decode is not NUM_WORDS; input '%s'", cls, md.ntokens, pv_esc(str)); }
    }
    /* the relation */
    const char* oc;
    if (all_numwords) { oc = "NUM_WORDS"; if (st != POLYSEED_ERR_NUM_WORDS) { ok = false; pv_violation("C09/relation/num-words", "[%s] every explicit decode says NUM_WORDS, auto says %s; '%s'", cls, pv_status_name(st), pv_esc(str)); } }
    else if (nR == 0) { oc = "LANG"; if (st != POLYSEED_ERR_LANG) { ok = false; pv_violation("C09/relation/no-language", "[%s] no language recognises all tokens, auto says %s; '%s'", cls, pv_status_name(st), pv_esc(str)); } }
    else if (nR >= 2) { oc = "MULT_LANG"; if (st != POLYSEED_ERR_MULT_LANG) { ok = false; pv_violation("C09/relation/guessed-among-several-languages", "[%s] %d languages recognise all tokens, auto says %s (lang_out %s); '%s'", cls, nR, pv_status_name(st), (st == POLYSEED_OK && lo && lo != SENTINEL) ? polyseed_get_lang_name_en(lo) : "-", pv_esc(str)); } }
    else {
        static char ocb[64]; snprintf(ocb, sizeof ocb, "unique.%s", pv_status_name(est[which])); oc = ocb;
        if (st != est[which]) { ok = false; pv_violation("C09/relation/differs-from-explicit", "[%s] only %s recognises all tokens: explicit %s, auto %s; '%s'", cls, pv_langs[which].name_en, pv_status_name(est[which]), pv_status_name(st), pv_esc(str)); }
        else if (st == POLYSEED_OK) {
            if (lo != pv_langs[which].lib) { ok = false; pv_violation("C09/relation/wrong-lang-out", "[%s] lang_out is %s, expected %s", cls, (lo && lo != SENTINEL) ? polyseed_get_lang_name_en(lo) : "(not written)", pv_langs[which].name_en); }
            pv_api_store(a, g_i1);
            if (memcmp(g_i1, eimg[which], 32)) { ok = false; pv_violation("C09/relation/different-seed", "[%s] auto and explicit(%s) give different seeds", cls, pv_langs[which].name_en); }
        }
    }
    /* lang_out is optional: leaving it out must change nothing (status and seed identical to the call that asked for the language) */
    {
        polyseed_data* a2 = NULL;
        int st2 = pv_api_decode(str, coin, NULL, &a2);
        PV_COUNT("evaluations", 1);
        if (st2 != st) { ok = false; pv_violation("C09/lang-out-null/status-differs", "[%s] decode with lang_out=NULL -> %s, with lang_out -> %s (%d languages recognise all tokens); '%s'", cls, pv_status_name(st2), pv_status_name(st), nR, pv_esc(str)); }
        else if (st == POLYSEED_OK) { pv_api_store(a, g_i1); pv_api_store(a2, g_i2); if (memcmp(g_i1, g_i2, 32)) { ok = false; pv_violation("C09/lang-out-null/seed-differs", "[%s] decode with and without lang_out give different seeds; '%s'", cls, pv_esc(str)); } }
        if (st2 == POLYSEED_OK) pv_api_free(a2);
        pv_countf(1, "lang_out_null.%s", pv_status_name(st2));
    }
    if (st == POLYSEED_OK) pv_api_free(a);
    pv_countf(1, "outcome.%s", oc);
    pv_countf(1, "class.%s", cls);
    if (ok) PV_DISTINCT("nontrivial", pv_mix(pv_hash_str(str), coin));
    { static int sampled[16]; int h = (int)(pv_hash_str(oc) % 16); if (sampled[h] < 2) { sampled[h]++; pv_sample(oc, "[%s] coin %u '%s' -> auto %s (R=%d)", cls, coin, pv_esc(str), pv_status_name(st), nR); } }
    /* precedence with a failing allocator */
    if (with_armed) {
        pv_w->fail_countdown = 1; a = NULL; lo = SENTINEL;
        int sa = pv_api_decode(str, coin, pv_randn(rng, 2) ? &lo : NULL, &a);
        bool consumed = pv_w->fail_countdown == 0; pv_w->fail_countdown = 0;
        bool refused = pv_w->alloc_failed_in_call > 0;
        PV_COUNT("evaluations", 1);
        /* word-count, language and checksum errors come before the memory error whatever the allocator does; where the fault-free answer
         * is OK or UNSUPPORTED the memory status is due exactly when a request was really refused (the statement does not order
         * "memory" against "unsupported": a library that looks at the features before it allocates never asks the allocator) */
        int want = (st == POLYSEED_OK || st == POLYSEED_ERR_UNSUPPORTED) ? (refused ? POLYSEED_ERR_MEMORY : st) : st;
        if (sa != want) pv_violation("C09/precedence/auto", "[%s] allocator failing: auto %s, expected %s (unarmed result %s); '%s'", cls, pv_status_name(sa), pv_status_name(want), pv_status_name(st), pv_esc(str));
        else { pv_countf(1, "armed.auto.%s", pv_status_name(sa)); if (st == POLYSEED_ERR_UNSUPPORTED && refused) PV_COUNT("armed.memory_before_unsupported", 1); if (st == POLYSEED_ERR_CHECKSUM) PV_COUNT("armed.checksum_before_memory", 1); if (!consumed) PV_COUNT("armed.failure_not_reached", 1); }
        if (sa == POLYSEED_OK) pv_api_free(a);
        int l = which >= 0 ? which : (int)pv_randn(rng, (uint32_t)pv_nlangs);
        if (pv_langs[l].lib) {
            pv_w->fail_countdown = 1; a = NULL;
            int se = pv_api_decode_explicit(str, coin, pv_langs[l].lib, &a);
            pv_w->fail_countdown = 0; bool refused2 = pv_w->alloc_failed_in_call > 0;
            PV_COUNT("evaluations", 1);
            int we = (est[l] == POLYSEED_OK || est[l] == POLYSEED_ERR_UNSUPPORTED) ? (refused2 ? POLYSEED_ERR_MEMORY : est[l]) : est[l];
            if (se != we) pv_violation("C09/precedence/explicit", "[%s] allocator failing: explicit(%s) %s, expected %s; '%s'", cls, pv_langs[l].name_en, pv_status_name(se), pv_status_name(we), pv_esc(str));
            else pv_countf(1, "armed.explicit.%s", pv_status_name(se));
            if (se == POLYSEED_OK) pv_api_free(a);
        }
    }
}

static uint64_t n_grammar(void) { return pv_scaled(60000, 1500000); }
static void run_grammar(uint64_t idx, pv_rng* rng) {
    pv_gstr g; pv_gen_string(rng, 3, &g);
    if (pv_randn(rng, 6) == 0) g.seed.features |= 0;
    if (g.len > 8000 && idx % 8) { pv_gstr_free(&g); return; }      /* 64 KiB inputs: a sample is enough, they are slow x 11 */
    unsigned coin = pv_randn(rng, 8) ? g.coin : pv_gen_coin(rng);      /* sometimes the wrong coin */
    check_string(g.s, coin, g.cls, rng, idx % 3 == 0);
    pv_gstr_free(&g);
}

/* ambiguous phrases for every ordered language pair with a non-empty recognised-word intersection */
static uint64_t n_ambig(void) { return (uint64_t)pv_nlangs * (uint64_t)pv_nlangs * pv_scaled(30, 1000); }
static void run_ambig(uint64_t idx, pv_rng* rng) {
    int a = (int)(idx % (uint64_t)pv_nlangs), b = (int)((idx / (uint64_t)pv_nlangs) % (uint64_t)pv_nlangs);
    if (a == b || !pv_langs[a].lib || !pv_langs[b].lib) return;
    unsigned coin = pv_gen_coin(rng), d[16]; pv_mseed m;
    if (!pv_gen_ambiguous(rng, a, b, coin, 3, d, &m)) { PV_COUNT("ambiguous.not_constructible", 1); return; }
    if (pv_randn(rng, 3) == 0) d[pv_randn(rng, 16)] = d[pv_randn(rng, 16)];       /* usually breaks the checksum: MULT_LANG must not depend on it */
    char raw[2048]; pv_m_join_space(&pv_langs[a], d, raw, sizeof raw);
    char* in = (pv_langs[a].compose && pv_randn(rng, 2)) ? pv_nfc_alloc(raw) : pv_exact_str(raw);
    char* ex = pv_exact_str(in); free(in);
    PV_COUNT("ambiguous.constructed", 1);
    check_string(ex, coin, "ambiguous-pair", rng, idx % 2 == 0);
    free(ex);
}

/* tokens recognised by THREE or more languages at once (4-letter abbreviations shared by several Latin lists):
 * auto-detection must still say MULT_LANG, whatever the number of matching languages */
static unsigned* g_m3_idx[PV_MAXLANG]; static uint16_t* g_m3_mask[PV_MAXLANG]; static int g_m3_n[PV_MAXLANG]; static bool g_m3_done;
static void m3_prepare(void) {
    if (g_m3_done) return;
    for (int a = 0; a < pv_nlangs; ++a) {
        pv_mlang* A = &pv_langs[a];
        g_m3_idx[a] = pv_xmalloc(PV_NWORDS * sizeof(unsigned)); g_m3_mask[a] = pv_xmalloc(PV_NWORDS * sizeof(uint16_t)); g_m3_n[a] = 0;
        if (!A->lib) continue;
        for (unsigned w = 0; w < PV_NWORDS; ++w) {
            const uint32_t* cp = A->accents ? A->scp[w] : A->cp[w]; int n = A->accents ? A->nscp[w] : A->ncp[w];
            int tn = (A->prefix && n > 4) ? 4 : n;
            uint16_t mask = 0; int cnt = 0;
            for (int b = 0; b < pv_nlangs; ++b) { int idx, nm; if (pv_langs[b].lib && pv_m_match_cp(&pv_langs[b], cp, tn, &idx, &nm) == PV_ACCEPT) { mask |= (uint16_t)(1u << b); ++cnt; } }
            if (cnt >= 3) { g_m3_idx[a][g_m3_n[a]] = w; g_m3_mask[a][g_m3_n[a]] = mask; g_m3_n[a]++; }
        }
    }
    g_m3_done = true;
}
static uint64_t n_multi3(void) { return (uint64_t)pv_nlangs * pv_scaled(300, 10000); }
static void run_multi3(uint64_t idx, pv_rng* rng) {
    m3_prepare();
    int a = (int)(idx % (uint64_t)pv_nlangs); pv_mlang* A = &pv_langs[a];
    if (g_m3_n[a] < 16) { PV_COUNT("multi3.language_has_too_few_shared_tokens", 1); return; }
    /* anchor on one word's language set; collect the words whose set contains at least the same three languages */
    int k0 = (int)pv_randn(rng, (uint32_t)g_m3_n[a]); uint16_t want = g_m3_mask[a][k0];
    int pool[PV_NWORDS], np = 0;
    for (int k = 0; k < g_m3_n[a]; ++k) if ((g_m3_mask[a][k] & want) == want) pool[np++] = k;
    if (np < 8) { PV_COUNT("multi3.pool_too_small", 1); return; }
    char ph[1024]; size_t pos = 0;
    for (int i = 0; i < 16; ++i) {
        unsigned w = g_m3_idx[a][pool[pv_randn(rng, (uint32_t)np)]];
        const uint32_t* cp = A->accents ? A->scp[w] : A->cp[w]; int n = A->accents ? A->nscp[w] : A->ncp[w];
        int tn = (A->prefix && n > 4) ? 4 : n;
        for (int c = 0; c < tn; ++c) pos += (size_t)pv_utf8_encode(cp[c], ph + pos);
        if (i < 15) ph[pos++] = ' ';
    }
    ph[pos] = 0;
    char* ex = pv_exact_str(ph);
    int nl = 0; for (int b = 0; b < pv_nlangs; ++b) nl += (want >> b) & 1;
    pv_countf(1, "multi3.phrases_recognised_by_%d_languages", nl);
    PV_COUNT("multi3.constructed", 1);
    check_string(ex, pv_gen_coin(rng), "three-or-more-languages", rng, idx % 4 == 0);
    free(ex);
}

/* precedence on phrases built to be simultaneously wrong in several ways */
static uint64_t n_prec(void) { return pv_scaled(8000, 200000); }
static void run_prec(uint64_t idx, pv_rng* rng) {
    pv_mlang* L; do { L = &pv_langs[pv_randn(rng, (uint32_t)pv_nlangs)]; } while (!L->lib);
    pv_mseed m; pv_gen_mseed(rng, 3, true, &m);
    uint32_t k = (uint32_t)(idx % 6);
    if (k & 1) m.features |= pv_randn(rng, 2) ? 8 : 4;                 /* reserved feature */
    unsigned coin = pv_gen_coin(rng), d[16]; pv_m_coeffs(&m, coin, d);
    if (k & 2) d[pv_randn(rng, 16)] ^= 1 + pv_randn(rng, 2046);      /* checksum wrong */
    char raw[4096]; pv_m_join_space(L, d, raw, sizeof raw);
    if (k >= 4) { size_t n = strlen(raw); if (k == 4) { strcpy(raw + n, " zzzzzz"); } else { char* sp = strchr(raw, ' '); memmove(sp + 7, sp, strlen(sp) + 1); memcpy(sp, " qqqqqq", 7); (void)n; } }   /* 17 tokens, one of them unknown */
    char* ex = pv_exact_str(raw);
    check_string(ex, coin, k >= 4 ? "precedence.count+lang" : (k & 2) ? ((k & 1) ? "precedence.checksum+reserved" : "precedence.checksum") : ((k & 1) ? "precedence.reserved" : "precedence.valid"), rng, true);
    free(ex);
}

/* ---------------------------------------------------------------- long runs of redundant accents
 * Spanish and French ignore accents however many are typed: a token of a valid phrase carrying 3 ... 200 combining marks (the
 * whole decomposed phrase still fits the buffer) is the same word for the explicit decoders, so automatic detection must say so too. */
static uint64_t n_marks(void) { return pv_scaled(600, 40000); }
static void run_marks(uint64_t idx, pv_rng* rng) {
    pv_mlang* L = pv_lang_by_name((idx & 1) ? "Spanish" : "French");
    if (!L || !L->lib) return;
    static const int KS[] = { 3, 10, 26, 27, 28, 31, 32, 33, 40, 63, 64, 65, 100, 127, 128, 150, 200 };
    int K = KS[(idx / 2) % (sizeof KS / sizeof *KS)];
    pv_mseed m; pv_gen_mseed(rng, 3, true, &m); unsigned coin = pv_gen_coin(rng), d[16]; pv_m_coeffs(&m, coin, d);
    int p = (int)pv_randn(rng, 16); int ntok = 1 + (int)pv_randn(rng, 2);          /* one or two tokens carry the run */
    char buf[4096]; size_t k = 0;
    for (int i = 0; i < 16; ++i) {
        const uint32_t* cp = L->cp[d[i]]; int n = L->ncp[d[i]];
        bool flood = (i == p) || (ntok == 2 && i == (p + 5) % 16);
        int after = flood ? (int)pv_randn(rng, (uint32_t)n) : -1;
        for (int c = 0; c < n; ++c) {
            k += (size_t)pv_utf8_encode(cp[c], buf + k);
            if (c == after) for (int q = 0; q < (ntok == 2 ? K / 2 : K); ++q) k += (size_t)pv_utf8_encode(0x300 + pv_randn(rng, 0x70), buf + k);
        }
        if (i < 15) buf[k++] = ' ';
    }
    buf[k] = 0;
    char* nf = pv_nfkd_alloc(buf); bool fits = strlen(nf) < POLYSEED_STR_SIZE; free(nf);
    if (!fits) { PV_COUNT("marks.skipped(longer than the buffer)", 1); return; }
    char* in = pv_exact_str(buf);
    pv_countf(1, "marks.run_of_%d", K);
    check_string(in, coin, "accent-run", rng, idx % 4 == 0);
    free(in);
}

/* ---------------------------------------------------------------- the relation while other threads decode their own strings */
static bool conc_iter(pv_rng* r, int iter, void* user, char* err, size_t errsz) {
    (void)iter; (void)user;
    pv_mseed m; pv_gen_mseed(r, 3, true, &m);
    pv_mlang* L; do { L = &pv_langs[pv_randn(r, (uint32_t)pv_nlangs)]; } while (!L->lib);
    unsigned coin = pv_gen_coin(r), d[16]; pv_m_coeffs(&m, coin, d);
    uint32_t edit = pv_randn(r, 5);
    if (edit == 1) { int p = (int)pv_randn(r, 16); d[p] = (d[p] + 1 + pv_randn(r, 2046)) & 2047; }              /* wrong checksum */
    char raw[2048]; pv_m_join_space(L, d, raw, sizeof raw);
    if (edit == 2) { char* sp = strchr(raw, ' '); if (sp) memmove(sp + 1, sp, strlen(sp) + 1); }                 /* empty token */
    if (edit == 3) { size_t n = strlen(raw); raw[n] = ' '; raw[n + 1] = 'x'; raw[n + 2] = 0; }                    /* 17th token */
    char* in = (L->compose && pv_randn(r, 2)) ? pv_nfc_alloc(raw) : pv_exact_str(raw);
    int est[PV_MAXLANG]; uint8_t img[32], eimg[32]; int nR = 0, which = -1, all_nw = 1;
    for (int l = 0; l < pv_nlangs; ++l) {
        est[l] = -2; if (!pv_langs[l].lib) continue;
        if (!strncmp(pv_langs[l].key, "zh", 2) && l != (int)(L - pv_langs) && pv_randn(r, 2)) { est[l] = -3; continue; }     /* the slow lists: not always */
        polyseed_data* s = NULL; est[l] = pv_api_decode_explicit(in, coin, pv_langs[l].lib, &s);
        if (est[l] == POLYSEED_OK) { if (l == (int)(L - pv_langs)) pv_api_store(s, eimg); pv_api_free(s); }
        if (est[l] != POLYSEED_ERR_NUM_WORDS) all_nw = 0;
        if (est[l] != POLYSEED_ERR_NUM_WORDS && est[l] != POLYSEED_ERR_LANG) { ++nR; which = l; }
    }
    bool skipped = false; for (int l = 0; l < pv_nlangs; ++l) if (est[l] == -3) skipped = true;
    const polyseed_lang* lo = NULL; polyseed_data* a = NULL;
    int st = pv_api_decode(in, coin, pv_randn(r, 2) ? &lo : NULL, &a);
    bool ok = true;
    if (all_nw && !skipped) { if (st != POLYSEED_ERR_NUM_WORDS) { ok = false; snprintf(err, errsz, "every explicit decode says NUM_WORDS, auto %s", pv_status_name(st)); } }
    else if (nR >= 2) { if (st != POLYSEED_ERR_MULT_LANG) { ok = false; snprintf(err, errsz, "%d languages recognise all tokens, auto %s", nR, pv_status_name(st)); } }
    else if (nR == 1 && !skipped) {
        if (st != est[which]) { ok = false; snprintf(err, errsz, "only %s recognises all tokens: explicit %s, auto %s; '%.100s'", pv_langs[which].name_en, pv_status_name(est[which]), pv_status_name(st), in); }
        else if (st == POLYSEED_OK) { pv_api_store(a, img); if (which == (int)(L - pv_langs) && memcmp(img, eimg, 32)) { ok = false; snprintf(err, errsz, "auto and explicit(%s) give different seeds", L->name_en); } if (lo && lo != pv_langs[which].lib) { ok = false; snprintf(err, errsz, "lang_out %s, expected %s", polyseed_get_lang_name_en(lo), pv_langs[which].name_en); } }
    }
    else if (nR == 0 && !skipped && !all_nw) { if (st != POLYSEED_ERR_LANG) { ok = false; snprintf(err, errsz, "no language recognises all tokens, auto %s", pv_status_name(st)); } }
    if (edit == 0 && est[L - pv_langs] != POLYSEED_OK) { ok = false; snprintf(err, errsz, "valid %s phrase -> %s", L->name_en, pv_status_name(est[L - pv_langs])); }
    if (st == POLYSEED_OK) pv_api_free(a);
    free(in);
    return ok;
}
static uint64_t n_conc(void) { return pv_scaled(3, 100); }
static void run_conc(uint64_t idx, pv_rng* rng) {
    (void)idx;
    enum { NT = 8, IT = 500 }; static pv_conc_result res[NT];
    uint64_t seed = pv_rand64(rng);
    pv_concurrent(NT, IT, seed, 35, conc_iter, NULL, res);
    if (pv_concurrent_verdict(res, NT, IT, "C09/differs-under-concurrency", "concurrent.strings_satisfying_the_relation")) PV_DISTINCT("nontrivial", seed);
}

int main(int argc, char** argv) {
    static const pv_section secs[] = { { "grammar", n_grammar, run_grammar }, { "ambiguous", n_ambig, run_ambig }, { "multi3", n_multi3, run_multi3 }, { "precedence", n_prec, run_prec }, { "marks", n_marks, run_marks }, { "concurrent", n_conc, run_conc } };
    return pv_main(argc, argv, "C09", secs, (int)(sizeof secs / sizeof *secs), init, NULL);
}
