/* A statically linked application that never mentions time(), malloc() or free() itself (C18, C11).
 *
 * In a static link an archive member is pulled in only by a strong undefined reference.  If the library refers to the C library's
 * clock or allocator weakly ("portability" for bare-metal libcs), or reaches them through anything else that is resolved only when
 * somebody else needs it, the fall-back for NULL optional entries silently stops working in exactly this kind of program: wallets for
 * embedded targets are linked like this.  The host uses no stdio (it would pull malloc) and reads the kernel clock by a raw system call.
 *
 * Output: "V <key> <detail>" lines for violations, then "END <checks>".  Built by ./check (kind 'statichost') with gcc and clang.
 */
#include "polyseed.h"
#include <stdint.h>
#include <stdbool.h>
#include <stddef.h>
#include <string.h>
#include <unistd.h>
#include <sys/syscall.h>

#define EPOCH 1635768000ull
#define STEP 2629746ull

static unsigned g_checks;
static void put(const char* s) { size_t n = strlen(s); while (n) { ssize_t w = write(1, s, n); if (w <= 0) break; s += w; n -= (size_t)w; } }
static void putu(unsigned long long v) { char b[24]; int i = 23; b[i] = 0; do { b[--i] = (char)('0' + v % 10); v /= 10; } while (v); put(b + i); }
static void vio(const char* key, const char* detail, unsigned long long a, unsigned long long b) { put("V "); put(key); put(" "); put(detail); put(" "); putu(a); put(" "); putu(b); put("\n"); }

static unsigned long long kernel_now(void) { long ts[2] = { 0, 0 }; syscall(SYS_clock_gettime, 0 /* CLOCK_REALTIME */, ts); return (unsigned long long)ts[0]; }

static uint8_t g_fill;
static void my_rand(void* p, size_t n) { uint8_t* b = p; for (size_t i = 0; i < n; ++i) b[i] = (uint8_t)(g_fill + 7 * i); }
static void my_kdf(const uint8_t* pw, size_t pwlen, const uint8_t* salt, size_t saltlen, uint64_t it, uint8_t* key, size_t keylen) {
    (void)it; for (size_t i = 0; i < keylen; ++i) key[i] = (uint8_t)(pw[i % pwlen] ^ salt[i % saltlen] ^ i);
}
static void my_zero(void* p, size_t n) { volatile uint8_t* b = p; while (n--) *b++ = 0; }
static size_t my_norm(const char* s, polyseed_str out) { size_t n = strlen(s); if (n >= POLYSEED_STR_SIZE) n = POLYSEED_STR_SIZE - 1; memmove(out, s, n); out[n] = 0; return n; }   /* ASCII only here */

/* own arena for the second half */
static uint8_t g_arena[4096] __attribute__((aligned(16))); static size_t g_used; static unsigned g_allocs, g_frees, g_clock_reads;
static void* my_alloc(size_t n) { n = (n + 15) & ~(size_t)15; if (g_used + n > sizeof g_arena) return NULL; void* p = g_arena + g_used; g_used += n; memset(p, 0xA5, n); ++g_allocs; return p; }
static void my_free(void* p) { if (p) ++g_frees; }
static uint64_t g_clock;
static uint64_t my_time(void) { ++g_clock_reads; return g_clock; }

/* a language whose phrases are pure ASCII (the host's normalisers are the identity); found by content, not by label */
static const polyseed_lang* ascii_lang(const polyseed_data* s) {
    for (int i = 0; i < polyseed_get_num_langs(); ++i) {
        const polyseed_lang* l = polyseed_get_lang(i); polyseed_str ph; bool ascii = true;
        size_t n = polyseed_encode(s, l, POLYSEED_MONERO, ph);
        for (size_t k = 0; k < n; ++k) if ((unsigned char)ph[k] >= 0x80) ascii = false;
        if (ascii && n) return l;
    }
    return polyseed_get_lang(0);
}

static void life_cycle(const char* tag, int libc_clock) {
    polyseed_data* s = NULL;
    unsigned long long before = kernel_now();
    polyseed_status st = polyseed_create(0, &s);
    unsigned long long after = kernel_now();
    ++g_checks;
    if (st != POLYSEED_OK || !s) { vio("static-host/create-failed", tag, (unsigned long long)st, 0); return; }
    uint64_t b = polyseed_get_birthday(s);
    ++g_checks;
    if (libc_clock) {
        /* birthday B of a seed created between `before` and `after` (kernel clock): B <= after and before < B + STEP */
        /* two seconds of slack: time() may read a coarser clock than the system call */
        if (before >= EPOCH && after < EPOCH + 1024 * STEP && !(b <= after + 2 && before < b + STEP + 2)) vio("static-host/birthday-not-from-the-c-library-clock", tag, b, before);
    } else {
        uint64_t want = (g_clock < EPOCH || g_clock == (uint64_t)-1) ? EPOCH : EPOCH + (g_clock - EPOCH) / STEP % 1024 * STEP;
        if (b != want) vio("static-host/birthday-not-from-the-injected-clock", tag, b, want);
    }
    polyseed_storage img, img2; polyseed_store(s, img);
    uint8_t want[19]; my_rand(want, 19); want[18] &= 0x3f;
    ++g_checks;
    if (memcmp(img + 10, want, 19)) vio("static-host/secret-differs-from-random-output", tag, img[10], want[0]);
    polyseed_str ph; const polyseed_lang* en = ascii_lang(s);
    size_t n = polyseed_encode(s, en, POLYSEED_MONERO, ph);
    ++g_checks;
    if (n != strlen(ph)) vio("static-host/encode-length", tag, n, strlen(ph));
    polyseed_data* d = NULL; const polyseed_lang* lo = NULL;
    st = polyseed_decode(ph, POLYSEED_MONERO, &lo, &d);
    ++g_checks;
    if (st != POLYSEED_OK || !d) vio("static-host/decode-failed", tag, (unsigned long long)st, 0);
    else { polyseed_store(d, img2); if (memcmp(img, img2, 32)) vio("static-host/round-trip-differs", tag, img[29], img2[29]); polyseed_free(d); }
    d = NULL; st = polyseed_load(img, &d);
    ++g_checks;
    if (st != POLYSEED_OK || !d) vio("static-host/load-failed", tag, (unsigned long long)st, 0); else polyseed_free(d);
    polyseed_free(s);
}

int main(void) {
    polyseed_dependency deps; memset(&deps, 0, sizeof deps);
    deps.randbytes = my_rand; deps.pbkdf2_sha256 = my_kdf; deps.memzero = my_zero; deps.u8_nfc = my_norm; deps.u8_nfkd = my_norm;
    /* 1: all three optional entries NULL: the C library's clock and allocator */
    polyseed_inject(&deps);
    for (int i = 0; i < 3; ++i) { g_fill = (uint8_t)(17 + 40 * i); life_cycle("all-optional-entries-null", 1); }
    /* 2: own entries */
    deps.time = my_time; deps.alloc = my_alloc; deps.free = my_free;
    polyseed_inject(&deps);
    static const uint64_t CL[] = { EPOCH + 5 * STEP + 1, 0, EPOCH + 1023 * STEP + 99, (uint64_t)-1, EPOCH - 1, EPOCH + 600 * STEP };
    for (unsigned i = 0; i < sizeof CL / sizeof *CL; ++i) { g_clock = CL[i]; g_fill = (uint8_t)(3 + i); life_cycle("own-entries", 0); }
    ++g_checks;
    if (g_allocs == 0 || g_allocs != g_frees) vio("static-host/own-allocator-not-balanced", "allocs/frees", g_allocs, g_frees);
    if (g_clock_reads == 0) vio("static-host/own-clock-not-read", "reads", g_clock_reads, 0);
    /* 3: back to NULL entries after own ones (a later injection replaces every entry); own counters must stand still */
    unsigned a0 = g_allocs, f0 = g_frees, c0 = g_clock_reads;
    deps.time = NULL; deps.alloc = NULL; deps.free = NULL;
    polyseed_inject(&deps);
    for (int i = 0; i < 3; ++i) { g_fill = (uint8_t)(90 + i); life_cycle("null-after-own-entries", 1); }
    ++g_checks;
    if (g_allocs != a0 || g_frees != f0 || g_clock_reads != c0) vio("static-host/stale-dependency", "own entries used after they were replaced by NULL", g_allocs - a0 + g_frees - f0, g_clock_reads - c0);
    put("END "); putu(g_checks); put("\n");
    return 0;
}
