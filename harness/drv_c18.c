/* drv_c18 — injected dependencies are honoured; new seeds carry the full CSPRNG output (DESIGN 3/C18)
 * Monitors: tagged event logs of two complete stub sets (A, B) + link-time interposed libc counters that only
 * count while a library call is in progress. */
#define _GNU_SOURCE
#include "pv.h"
#include <sys/mman.h>
#include <unistd.h>

static char* g_out; static uint8_t* g_img;
static const int ENTROPY_WRAPS[] = { PV_WRAP_GETRANDOM, PV_WRAP_GETENTROPY, PV_WRAP_RAND, PV_WRAP_RANDOM, PV_WRAP_OPEN, PV_WRAP_FOPEN, PV_WRAP_CLOCK_GETTIME, PV_WRAP_GETTIMEOFDAY, PV_WRAP_CLOCK,
                                     PV_WRAP_MKTIME, PV_WRAP_TIMEGM, PV_WRAP_GMTIME, PV_WRAP_GMTIME_R, PV_WRAP_LOCALTIME, PV_WRAP_LOCALTIME_R };

static void init(void) {
    pv_world_init(pv.seed);
    pv_model_init();
    pv_inject_default();
    pv_model_bind_library();
    pv_api_enable_features(7);
    g_out = malloc(POLYSEED_STR_SIZE); g_img = malloc(32);
    pv_info("rule", "(a) polyseed_create with scripted 19-byte random outputs (all 152 single-bit patterns, all-00, all-FF, random) and clock values: exactly 19 bytes requested, store bytes 10-28 "
                    "equal the delivered bytes in order (top two bits of the last dropped), birthday from the injected clock, no interposed libc entropy/time function reached; "
                    "(b) all 2^3 NULL/non-NULL combinations of the optional entries x sequences of 1-4 injections alternating two distinguishable stub sets, the caller's struct destroyed "
                    "(overwritten or unmapped) after polyseed_inject returns, then one call of every API function: every dependency event must carry the tag of the last table; libc "
                    "malloc/free/time must be used inside the library exactly when the entry is NULL. non-trivial = a call whose event log satisfied the routing rule; distinct = distinct "
                    "(random output, clock) / (injection history, API function)");
}

static uint64_t wrap_snapshot[PV_WRAP_N];
static void wraps_begin(void) { memcpy(wrap_snapshot, pv_wrap_count, sizeof wrap_snapshot); }
static uint64_t wraps_delta(int i) { return pv_wrap_count[i] - wrap_snapshot[i]; }

/* ---------------------------------------------------------------- (a) randomness and clock */
static uint64_t n_rand(void) { return 154 + pv_scaled(60000, 15000000); }
static void run_rand(uint64_t idx, pv_rng* rng) {
    static bool fresh = true; if (fresh) { pv_inject_default(); fresh = false; }
    uint8_t script[19]; memset(script, 0, 19);
    if (idx < 152) script[idx / 8] = (uint8_t)(0x80 >> (idx % 8));
    else if (idx == 152) { }
    else if (idx == 153) memset(script, 0xff, 19);
    else pv_randbytes(rng, script, 19);
    /* a random source may repeat itself (a deterministic test generator, a stuck device): every create must still take exactly
     * its own 19 bytes, once.  A quarter of the cases create two or three seeds in a row from identical random output. */
    int reps = (idx % 4 == 1) ? 2 + (int)pv_randn(rng, 2) : 1;
    polyseed_data* keep[3] = { NULL, NULL, NULL };
    for (int rep = 0; rep < reps; ++rep) {
    if (rep) { PV_COUNT("rand.creates_with_repeated_random_output", 1); if (pv_randn(rng, 2)) script[18] ^= (uint8_t)(0x40 << pv_randn(rng, 2)); }     /* same 150 bits, possibly other discarded bits */
    pv_set_rand_script(script, 19);
    uint64_t t = PV_EPOCH + pv_rand64(rng) % (1024 * PV_STEP);
    /* "its birthday comes from the injected clock" for every value the clock can deliver: one case in eight uses a value outside the
     * comfortable range (beyond 2^32 seconds after the epoch, before the epoch, the error value, far future) */
    if (idx % 8 == 3) { static const uint64_t ODD[] = { 0, PV_EPOCH - 1, PV_EPOCH, PV_EPOCH + (1ull << 32) - 1, PV_EPOCH + (1ull << 32), PV_EPOCH + (1ull << 32) + 3 * PV_STEP, PV_EPOCH + (1ull << 33) + 7, 1ull << 32, 1ull << 40, 1ull << 63, UINT64_MAX - 1, UINT64_MAX, PV_EPOCH + 1023 * PV_STEP, PV_EPOCH + 1024 * PV_STEP, PV_EPOCH + 5000 * PV_STEP + 9 };
        t = pv_randn(rng, 3) ? ODD[pv_randn(rng, sizeof ODD / sizeof *ODD)] : (pv_rand64(rng) >> pv_randn(rng, 30)); PV_COUNT("rand.creates_with_out_of_range_clock", 1); }
    pv_w->time_value = t;
    /* a clock moves: should the library read it more than once during one creation, the readings differ (half of the cases);
     * the birthday must then be the birthday of one of the readings it was given */
    pv_w->time_script_n = 0;
    if (idx % 2 == 1) { pv_w->time_script[0] = t; pv_w->time_script[1] = pv_randn(rng, 2) ? t + pv_randn(rng, (uint32_t)(3 * PV_STEP)) : (pv_randn(rng, 2) ? PV_EPOCH - 1 - pv_randn(rng, 1000) : PV_EPOCH + pv_rand64(rng) % (1024 * PV_STEP));
        pv_w->time_script[2] = pv_randn(rng, 2) ? PV_EPOCH - 5 : PV_EPOCH + pv_rand64(rng) % (1024 * PV_STEP); pv_w->time_script_n = 3; }
    unsigned feat = pv_randn(rng, 8);
    wraps_begin();
    polyseed_data* s = NULL; int st = pv_api_create(feat, &s);
    pv_set_rand_prng(); pv_w->time_script_n = 0;
    int nreads = pv_w->time_reads; uint64_t seen[8]; memcpy(seen, pv_w->time_seen, sizeof seen);
    PV_COUNT("evaluations", 1);
    if (st != POLYSEED_OK) { pv_violation("C18/create-failed", "%s", pv_status_name(st)); for (int i = 0; i < 3; ++i) if (keep[i]) pv_api_free(keep[i]); return; }
    bool ok = true;
    if (pv_w->rand_total != 19) { ok = false; pv_violation("C18/random-bytes-requested", "create requested %zu random bytes in %d call(s), expected 19", pv_w->rand_total, pv_ev_count(PV_EV_RAND)); }
    if (nreads < 1) { ok = false; pv_violation("C18/clock-reads", "create did not read the injected clock"); }
    if (nreads > 1) PV_COUNT("rand.creates_reading_the_clock_more_than_once", 1);
    for (unsigned i = 0; i < sizeof ENTROPY_WRAPS / sizeof *ENTROPY_WRAPS; ++i) if (wraps_delta(ENTROPY_WRAPS[i])) { ok = false; char key[96]; snprintf(key, sizeof key, "C18/other-source-consulted/%s", pv_wrap_name(ENTROPY_WRAPS[i])); pv_violation(key, "create called libc %s()", pv_wrap_name(ENTROPY_WRAPS[i])); }
    if (wraps_delta(PV_WRAP_TIME)) { ok = false; pv_violation("C18/other-source-consulted/time", "create called libc time() although a clock is injected"); }
    /* the secret is exactly the delivered bytes, bit for bit */
    int evs = pv_w->nev;       /* pv_api_store below resets the log; keep what we need first */
    (void)evs;
    uint8_t delivered[19]; memcpy(delivered, pv_w->rand_delivered, 19);
    pv_api_store(s, g_img);
    uint8_t want[19]; memcpy(want, delivered, 19); want[18] &= 0x3f;
    if (ok && memcmp(g_img + 10, want, 19)) { ok = false; pv_violation("C18/secret-differs-from-random-output", "random source delivered %s, seed holds %s", pv_hex(delivered, 19), pv_hex(g_img + 10, 19)); }
    if (ok && memcmp(delivered, script, 19)) pv_fatal("C18: world did not deliver the script");
    /* "the seed's 150 secret bits are exactly those bytes": also where the secret is consumed, as the key-derivation password (19 bytes + zero padding) */
    if (ok && idx % 4 == 2) {
        uint8_t* key = malloc(32); pv_api_keygen(s, 0, 32, key); free(key);
        if (pv_w->nkdf == 1 && pv_w->kdf[0].pwlen == 32) { uint8_t pw[32] = { 0 }; memcpy(pw, want, 19);
            if (memcmp(pv_w->kdf[0].pw, pw, 32)) { ok = false; pv_violation("C18/secret-differs-from-random-output", "random source delivered %s, the key-derivation password is %s", pv_hex(delivered, 19), pv_hex(pv_w->kdf[0].pw, 32)); } else PV_COUNT("rand.kdf_password_equals_random_output", 1); }
        else { ok = false; pv_violation("C18/secret-differs-from-random-output", "keygen of the new seed: %d KDF calls", pv_w->nkdf); }
    }
    uint64_t B = pv_api_get_birthday(s);
    { bool from_clock = false; for (int i = 0; i < nreads && i < 8; ++i) if (B == pv_m_birthday_time(pv_m_birthday_of(seen[i]))) from_clock = true;
      if (nreads >= 1 && !from_clock) { ok = false; pv_violation("C18/birthday-not-from-injected-clock", "the clock was read %d time(s) and said %llu%s; birthday %llu belongs to none of the readings", nreads, (unsigned long long)seen[0], nreads > 1 ? ", then other values" : "", (unsigned long long)B); } }
    if (ok) { PV_DISTINCT("nontrivial", pv_mix(pv_hash(script, 19, 18), t)); PV_COUNT("rand.creates_ok", 1); if (idx < 152) PV_COUNT("rand.single_bit_patterns_ok", 1); }
    if (idx == 7 || idx == 200) pv_sample("rand", "random source delivers %s, clock %llu -> secret %s", pv_hex(script, 19), (unsigned long long)t, pv_hex(g_img + 10, 19));
    if (rep + 1 < reps && pv_randn(rng, 2)) keep[rep] = s; else pv_api_free(s);       /* the earlier seed stays alive or not */
    }
    for (int i = 0; i < 3; ++i) if (keep[i]) pv_api_free(keep[i]);
}

/* ---------------------------------------------------------------- (b) injection histories */
typedef struct tbl { int tag; bool time, alloc, free_; } tbl;
static void do_inject(const tbl* t, pv_rng* rng) {
    polyseed_dependency d; pv_world_table(&d, t->tag, t->time, t->alloc, t->free_);
    uint32_t how = pv_randn(rng, 3);
    if (how == 0) {             /* eight pointers at the very end of an mmap'd page that is followed by an inaccessible one; both disappear right after the call */
        long ps = sysconf(_SC_PAGESIZE);
        uint8_t* m = mmap(NULL, (size_t)ps * 2, PROT_READ | PROT_WRITE, MAP_PRIVATE | MAP_ANONYMOUS, -1, 0);
        if (m == MAP_FAILED) pv_fatal("C18: mmap");
        mprotect(m + ps, (size_t)ps, PROT_NONE);
        polyseed_dependency* p = (polyseed_dependency*)(m + ps - PV_DEP_ABI_BYTES);
        memcpy(p, &d, PV_DEP_ABI_BYTES); pv_api_inject_raw(p); munmap(m, (size_t)ps * 2);
        PV_COUNT("inject.struct_unmapped_afterwards", 1);
    } else {                    /* exact-size heap table overwritten with trapping pointers, then freed */
        polyseed_dependency* p = malloc(PV_DEP_ABI_BYTES); memcpy(p, &d, PV_DEP_ABI_BYTES);
        pv_api_inject_raw(p);
        memset(p, 0x5a, PV_DEP_ABI_BYTES); free(p);
        PV_COUNT("inject.struct_overwritten_afterwards", 1);
    }
}
/* judge the event log + libc counters of the call that just returned against table t */
static bool routed(const tbl* t, const char* api, bool expect_alloc, bool expect_free, bool expect_time) {
    bool ok = true;
    for (int i = 0; i < pv_w->nev; ++i) if (pv_w->ev[i].tag != t->tag) {
        ok = false; char key[128]; snprintf(key, sizeof key, "C18/stale-dependency/%s", api);
        static const char* const KN[] = { "randbytes", "time", "pbkdf2", "memzero", "nfc", "nfkd", "alloc", "free" };
        pv_violation(key, "%s reached the %s stub of a previously injected table", api, KN[pv_w->ev[i].kind]); break;
    }
    struct { bool entry; bool expected; int kind; int wrap; const char* name; } o[3] = {
        { t->alloc, expect_alloc, PV_EV_ALLOC, PV_WRAP_MALLOC, "alloc/malloc" }, { t->free_, expect_free, PV_EV_FREE, PV_WRAP_FREE, "free" }, { t->time, expect_time, PV_EV_TIME, PV_WRAP_TIME, "time" } };
    for (int k = 0; k < 3; ++k) {
        uint64_t libc = wraps_delta(o[k].wrap); int inj = pv_ev_count(o[k].kind);
        if (o[k].entry) {
            if (libc) { ok = false; char key[128]; snprintf(key, sizeof key, "C18/libc-used-although-injected/%s", o[k].name); pv_violation(key, "%s: libc %s called %llu time(s) inside the library although the entry is injected", api, o[k].name, (unsigned long long)libc); }
            if (o[k].expected && !inj) { ok = false; char key[128]; snprintf(key, sizeof key, "C18/injected-entry-not-used/%s", o[k].name); pv_violation(key, "%s did not call the injected %s", api, o[k].name); }
        } else {
            if (inj) { ok = false; char key[128]; snprintf(key, sizeof key, "C18/stale-optional-entry/%s", o[k].name); pv_violation(key, "%s called an injected %s although the entry of the current table is NULL", api, o[k].name); }
            if (o[k].expected && !libc) { ok = false; char key[128]; snprintf(key, sizeof key, "C18/libc-fallback-not-used/%s", o[k].name); pv_violation(key, "%s: entry NULL but libc %s was not called", api, o[k].name); }
            if (o[k].expected && libc) pv_countf(1, "inject.libc_fallback_observed.%s", o[k].name);
        }
    }
    if (wraps_delta(PV_WRAP_CALLOC) || wraps_delta(PV_WRAP_REALLOC)) { ok = false; pv_violation("C18/other-libc-allocator", "%s used calloc/realloc", api); }
    return ok;
}
static uint64_t n_inject(void) { return 8 * 8 * pv_scaled(30, 5000); }
static void run_inject(uint64_t idx, pv_rng* rng) {
    /* the last two tables of the history enumerate every ordered pair of NULL-combinations; earlier ones are random */
    int len = 1 + (int)((idx / 64) % 4);
    tbl h[4];
    for (int i = 0; i < len; ++i) { uint32_t c = pv_randn(rng, 8); h[i] = (tbl){ (int)pv_randn(rng, 2), c & 1, (c >> 1) & 1, (c >> 2) & 1 }; }
    unsigned last = (unsigned)(idx % 8), prev = (unsigned)((idx / 8) % 8);
    h[len - 1] = (tbl){ len >= 2 ? 1 - h[len - 2].tag : (int)(idx & 1), last & 1, (last >> 1) & 1, (last >> 2) & 1 };
    if (len >= 2) { h[len - 2].time = prev & 1; h[len - 2].alloc = (prev >> 1) & 1; h[len - 2].free_ = (prev >> 2) & 1; h[len - 1].tag = 1 - h[len - 2].tag; }
    /* a seed created under the previous table stays alive across the last injection (only when both tables route
     * allocation through the monitors, so that the block is released by a function that knows it) */
    polyseed_data* old = NULL;
    for (int i = 0; i < len; ++i) {
        if (i == len - 1 && len >= 2 && h[len - 2].alloc && h[len - 2].free_ && h[len - 1].alloc && h[len - 1].free_) { pv_w->time_value = PV_EPOCH + 5; pv_wrap_time_scripted = 1; pv_wrap_time_value = (time_t)(PV_EPOCH + 5); if (pv_api_create(0, &old) != POLYSEED_OK) old = NULL; pv_wrap_time_scripted = 0; }
        do_inject(&h[i], rng);
    }
    const tbl* t = &h[len - 1];
    char hist[64]; snprintf(hist, sizeof hist, "len%d last(time=%d,alloc=%d,free=%d,set=%c)", len, t->time, t->alloc, t->free_, 'A' + t->tag);
    bool ok = true;
    if (old) {      /* "a later injection replaces every entry": the old seed is wiped and released through the NEW table */
        wraps_begin(); pv_api_free(old); PV_COUNT("evaluations", 1);
        ok &= routed(t, "polyseed_free(seed-from-before-the-injection)", false, true, false);
        if (pv_ev_count(PV_EV_MEMZERO) < 1) { ok = false; pv_violation("C18/injected-entry-not-used/memzero", "free of an older seed did not wipe through the current memzero"); }
        PV_COUNT("inject.old_seed_freed_after_reinjection", 1);
    }
    pv_mlang* L; do { L = &pv_langs[pv_randn(rng, (uint32_t)pv_nlangs)]; } while (!L->lib);
    pv_mlang* KO = pv_lang_by_name("Korean");
    unsigned coin = pv_gen_coin(rng);
    /* create */
    /* whichever clock the last table selects (the injected one or libc's), the birthday is that clock's: both are scripted with the
     * same value, now and then one beyond 2^32 seconds or outside the range */
    uint64_t tclk = PV_EPOCH + 77 * PV_STEP + 5;
    { static const uint64_t ODD[] = { (1ull << 32) + 5, (1ull << 32) + PV_EPOCH, PV_EPOCH + 1023 * PV_STEP + 9, 1ull << 33, 253402300799ull, PV_EPOCH - 1, 0 }; if (idx % 3 == 1) tclk = ODD[(idx / 3) % (sizeof ODD / sizeof *ODD)]; else if (idx % 3 == 2) tclk = PV_EPOCH + pv_rand64(rng) % (1024 * PV_STEP); }
    pv_wrap_time_scripted = 1; pv_wrap_time_value = (time_t)tclk; pv_w->time_value = tclk;
    wraps_begin(); polyseed_data* s = NULL; int st = pv_api_create(pv_randn(rng, 8), &s); PV_COUNT("evaluations", 1);
    pv_wrap_time_scripted = 0;
    if (st != POLYSEED_OK) { pv_violation("C18/create-failed", "%s after %s", pv_status_name(st), hist); goto out; }
    ok &= routed(t, "polyseed_create", true, false, true);
    { int saved_nev = pv_w->nev; (void)saved_nev; uint64_t Bc = polyseed_get_birthday(s);          /* raw call: the event log of create is still needed below */
      if (Bc != pv_m_birthday_time(pv_m_birthday_of(tclk))) { ok = false; pv_violation(t->time ? "C18/birthday-not-from-injected-clock" : "C18/birthday-not-from-libc-clock", "table %s: the selected clock said %llu, birthday %llu", hist, (unsigned long long)tclk, (unsigned long long)Bc); }
      else PV_COUNT(t->time ? "inject.birthday_from_injected_clock" : "inject.birthday_from_libc_clock", 1); }
    for (unsigned i = 0; i < sizeof ENTROPY_WRAPS / sizeof *ENTROPY_WRAPS; ++i) if (wraps_delta(ENTROPY_WRAPS[i])) { ok = false; char key[96]; snprintf(key, sizeof key, "C18/other-source-consulted/%s", pv_wrap_name(ENTROPY_WRAPS[i])); pv_violation(key, "create (table %s) called libc %s()", hist, pv_wrap_name(ENTROPY_WRAPS[i])); }
    if (pv_ev_count(PV_EV_RAND) < 1 || pv_ev_count(PV_EV_MEMZERO) < 1) { ok = false; pv_violation("C18/injected-entry-not-used/randbytes-or-memzero", "create: %d randbytes, %d memzero events", pv_ev_count(PV_EV_RAND), pv_ev_count(PV_EV_MEMZERO)); }
    /* encode (Korean: NFC is needed) */
    wraps_begin(); pv_api_encode(s, KO && KO->lib ? KO->lib : L->lib, coin, g_out); PV_COUNT("evaluations", 1);
    ok &= routed(t, "polyseed_encode", false, false, false);
    if (KO && KO->lib && pv_ev_count(PV_EV_NFC) < 1) { ok = false; pv_violation("C18/injected-entry-not-used/u8_nfc", "encode (Korean) did not call the injected NFC"); }
    /* decode (auto and explicit) of that phrase */
    { char* in = pv_exact_str(g_out); polyseed_data* d = NULL;
      wraps_begin(); st = pv_api_decode(in, coin, NULL, &d); PV_COUNT("evaluations", 1);
      ok &= routed(t, "polyseed_decode", st == POLYSEED_OK, false, false);
      if (pv_ev_count(PV_EV_NFKD) < 1) { ok = false; pv_violation("C18/injected-entry-not-used/u8_nfkd", "decode of a non-ASCII phrase did not call the injected NFKD"); }
      if (st == POLYSEED_OK) { wraps_begin(); pv_api_free(d); ok &= routed(t, "polyseed_free", false, true, false); if (pv_ev_count(PV_EV_MEMZERO) < 1) { ok = false; pv_violation("C18/injected-entry-not-used/memzero", "free did not wipe through the injected memzero"); } }
      d = NULL; wraps_begin(); st = pv_api_decode_explicit(in, coin, KO && KO->lib ? KO->lib : L->lib, &d); PV_COUNT("evaluations", 1);
      ok &= routed(t, "polyseed_decode_explicit", st == POLYSEED_OK, false, false);
      if (st == POLYSEED_OK) pv_api_free(d);
      free(in); }
    /* keygen, crypt, store, load, getters */
    { uint8_t* key = malloc(32); wraps_begin(); pv_api_keygen(s, coin, 32, key); PV_COUNT("evaluations", 1); ok &= routed(t, "polyseed_keygen", false, false, false);
      if (pv_ev_count(PV_EV_KDF) != 1) { ok = false; pv_violation("C18/injected-entry-not-used/pbkdf2", "keygen: %d KDF events", pv_ev_count(PV_EV_KDF)); } free(key); }
    wraps_begin(); pv_api_crypt(s, "contrase\xc3\xb1""a"); PV_COUNT("evaluations", 1); ok &= routed(t, "polyseed_crypt", false, false, false);
    if (pv_ev_count(PV_EV_KDF) != 1 || pv_ev_count(PV_EV_NFKD) < 1) { ok = false; pv_violation("C18/injected-entry-not-used/crypt", "crypt: %d KDF, %d NFKD events", pv_ev_count(PV_EV_KDF), pv_ev_count(PV_EV_NFKD)); }
    wraps_begin(); pv_api_store(s, g_img); ok &= routed(t, "polyseed_store", false, false, false);
    { polyseed_data* d = NULL; uint8_t* b = malloc(32); memcpy(b, g_img, 32); wraps_begin(); st = pv_api_load(b, &d); PV_COUNT("evaluations", 1); ok &= routed(t, "polyseed_load", true, false, false); if (st == POLYSEED_OK) pv_api_free(d); free(b); }
    wraps_begin(); pv_api_get_birthday(s); pv_api_get_feature(s, 7); pv_api_is_encrypted(s); ok &= routed(t, "getters", false, false, false);
    wraps_begin(); pv_api_free(s); PV_COUNT("evaluations", 1); ok &= routed(t, "polyseed_free", false, true, false);
    if (ok) { PV_DISTINCT("nontrivial", pv_mix(pv_hash(h, sizeof(tbl) * (size_t)len, 3), idx)); PV_COUNT("inject.histories_ok", 1); pv_countf(1, "inject.last_table.time%d.alloc%d.free%d", t->time, t->alloc, t->free_); }
    if (idx < 8) pv_sample("inject", "history %s then create/encode/decode/keygen/crypt/store/load/getters/free", hist);
out:
    pv_ledger_forget_all();
}


/* ---------------------------------------------------------------- (c) the application's own state
 * Callbacks and the plain file-scope variables they read live in this translation unit, which calls the API by name; the variables
 * are set right before the call and restored afterwards.  That only works if the compiler of the *caller* knows that the API
 * calls back into this file (a `leaf`, `const` or `pure` attribute in the header would tell it otherwise) */
static uint64_t s_now = 7;
static uint8_t s_fill = 0x11;
static unsigned s_rand_calls;
static uint64_t own_time(void) { return s_now; }
static void own_rand(void* p, size_t n) { uint8_t* b = p; for (size_t i = 0; i < n; ++i) b[i] = (uint8_t)(s_fill + 3 * i); ++s_rand_calls; }
static int create_with(uint64_t t, uint8_t fill, polyseed_data** out) {
    uint64_t saved_t = s_now; uint8_t saved_f = s_fill; unsigned calls = s_rand_calls;
    s_now = t; s_fill = fill;
    polyseed_status st = polyseed_create(0, out);
    s_now = saved_t; s_fill = saved_f;
    return st == POLYSEED_OK ? (int)(s_rand_calls - calls) : -1 - (int)st;
}
static uint64_t n_own(void) { return pv_scaled(4000, 200000); }
static void run_own(uint64_t idx, pv_rng* rng) {
    polyseed_dependency t; pv_world_table(&t, (int)(idx & 1), true, true, true); t.time = own_time; t.randbytes = own_rand;
    pv_api_inject(&t);
    uint64_t tt = PV_EPOCH + pv_rand64(rng) % (1024 * PV_STEP); uint8_t fill = (uint8_t)pv_rand64(rng);
    polyseed_data* sd = NULL;
    pv_world_begin("polyseed_create"); int r = create_with(tt, fill, &sd); pv_world_end();
    PV_COUNT("evaluations", 1);
    if (r < 0) { pv_violation("C18/create-failed", "[own state] -> %s", pv_status_name(-1 - r)); pv_ledger_forget_all(); return; }
    bool ok = true;
    if (r != 1) { ok = false; pv_violation("C18/own-state/random-source-calls", "the application's random source, a function in the calling translation unit, was seen to be called %d times by that translation unit", r); }
    uint64_t B = polyseed_get_birthday(sd);
    if (B != pv_m_birthday_time(pv_m_birthday_of(tt))) { ok = false; pv_violation("C18/birthday-not-from-injected-clock", "[clock value kept in a file-scope variable of the caller, set right before polyseed_create] clock %llu, birthday %llu", (unsigned long long)tt, (unsigned long long)B); }
    pv_api_store(sd, g_img);
    uint8_t want[19]; for (int i = 0; i < 19; ++i) want[i] = (uint8_t)(fill + 3 * i); want[18] &= 0x3f;
    if (memcmp(g_img + 10, want, 19)) { ok = false; pv_violation("C18/secret-not-from-randbytes", "[random bytes derived from a file-scope variable of the caller] secret %s, delivered %s", pv_hex(g_img + 10, 19), pv_hex(want, 19)); }
    pv_api_free(sd);
    if (ok) { PV_COUNT("own.creates_ok", 1); PV_DISTINCT("nontrivial", pv_mix(tt, fill)); }
    pv_ledger_forget_all();
}

int main(int argc, char** argv) {
    static const pv_section secs[] = { { "rand", n_rand, run_rand }, { "inject", n_inject, run_inject }, { "own", n_own, run_own } };
    return pv_main(argc, argv, "C18", secs, 3, init, NULL);
}
