/* drv_c03 — phrases follow the published bit layout exactly and depend on nothing else (DESIGN 3/C03) */
#include "pv.h"

#define NSINGLE 164      /* loadable single-bit seeds: 150 secret bits, 10 birthday bits, 4 of 5 feature bits */
static const unsigned COINS[3] = { 0, 1, 2047 };

static void init(void) {
    pv_world_init(pv.seed);
    pv_model_init();
    pv_inject_default();
    pv_model_bind_library();
    pv_api_enable_features(7);
    pv_info("rule", "polyseed_encode output and the stored check value are compared byte for byte with the reference model (itself checked against the Python spec vectors). "
                    "Cases: the zero seed, all 164 loadable single-bit seeds and all their pairs x 10 languages x coins {0,1,2047}; random/boundary seeds; the same abstract seed "
                    "reached by create, load, decode from another language and double crypt. non-trivial = encode output equalled the model phrase; distinct = distinct (seed,language,coin)");
}

static void set_bit(pv_mseed* m, int b) {
    if (b < 150) { if (b < 144) m->secret[b / 8] |= (uint8_t)(0x80 >> (b % 8)); else m->secret[18] |= (uint8_t)(0x20 >> (b - 144)); }
    else if (b < 160) m->birthday |= 1u << (b - 150);
    else { static const unsigned fb[4] = { 1, 2, 4, 16 }; m->features |= fb[b - 160]; }
}

static char* g_out;
static uint8_t* g_img;

/* encode through the library and compare with the model; returns true if equal */
static bool check_encode(polyseed_data* s, const pv_mseed* m, pv_mlang* L, unsigned coin, const char* how) {
    /* encoding cannot report failure, so the phrase must be the published one whatever the allocator says: every fifth encode
     * runs while the allocator refuses its next request (should the library make any) */
    static unsigned tick; bool armed = (++tick % 5) == 0;
    if (armed) { pv_arm_some_request(); PV_COUNT("encode.calls_with_failing_allocator", 1); }
    size_t n = pv_api_encode(s, L->lib, coin, g_out);
    pv_w->fail_countdown = 0;
    PV_COUNT("evaluations", 1); PV_COUNT("encode.calls", 1);
    char want[2048]; size_t wn = pv_m_encode(m, L, coin, want, sizeof want);
    if (strcmp(want, g_out)) {
        pv_violation("C03/phrase-differs-from-spec", "[%s] %s coin %u seed %s: library '%s', specification '%s'", how, L->name_en, coin, pv_mseed_str(m), pv_esc(g_out), pv_esc(want));
        return false;
    }
    if (n != wn) { pv_violation("C03/returned-length", "[%s] %s: returned %zu, phrase has %zu bytes", how, L->name_en, n, wn); return false; }
    PV_DISTINCT("nontrivial", pv_mix(pv_mix(pv_mseed_hash(m), coin), pv_hash_str(L->key)));
    pv_countf(1, "encode.equal_to_spec.%s", L->key);
    return true;
}
static void check_checkvalue(polyseed_data* s, const pv_mseed* m) {
    pv_api_store(s, g_img);
    unsigned c[16]; pv_m_pack(m, c);
    unsigned got = (g_img[30] | ((unsigned)g_img[31] << 8)) & 2047;
    PV_COUNT("evaluations", 1); PV_COUNT("checkvalue.compared", 1);
    if (got != c[0]) pv_violation("C03/check-value", "seed %s: stored check value %u, specification %u", pv_mseed_str(m), got, c[0]);
}

/* ---------------------------------------------------------------- single bits and pairs */
static uint64_t n_bits(void) { return 1 + NSINGLE + (uint64_t)NSINGLE * (NSINGLE - 1) / 2; }
static void run_bits(uint64_t idx, pv_rng* rng) {
    (void)rng;
    pv_mseed m; memset(&m, 0, sizeof m);
    if (idx >= 1 && idx <= NSINGLE) set_bit(&m, (int)idx - 1);
    else if (idx > NSINGLE) {
        uint64_t k = idx - NSINGLE - 1; int a = 0;
        while (k >= (uint64_t)(NSINGLE - 1 - a)) { k -= (uint64_t)(NSINGLE - 1 - a); ++a; }
        set_bit(&m, a); set_bit(&m, a + 1 + (int)k);
    }
    polyseed_data* s = pv_seed_from_model(&m);
    if (!s) { pv_violation("C03/load-failed", "cannot load %s", pv_mseed_str(&m)); return; }
    check_checkvalue(s, &m);
    for (int l = 0; l < pv_nlangs; ++l) {
        if (!pv_langs[l].lib) continue;
        for (int c = 0; c < 3; ++c) check_encode(s, &m, &pv_langs[l], COINS[c], "bits");
    }
    if (idx < 3 || idx == 200) { pv_api_encode(s, pv_langs[1].lib, 1, g_out); pv_sample("bits", "seed %s coin 1 %s -> '%s'", pv_mseed_str(&m), pv_langs[1].name_en, g_out); }
    pv_api_free(s);
    PV_COUNT("bits.seeds", 1);
}

/* the 165th bit (reserved feature bit) in the decode direction: the model phrase must give UNSUPPORTED */
static uint64_t n_reserved(void) { return (uint64_t)pv_nlangs * 3 * 8; }
static void run_reserved(uint64_t idx, pv_rng* rng) {
    pv_mlang* L = &pv_langs[idx % (uint64_t)pv_nlangs]; unsigned coin = COINS[(idx / (uint64_t)pv_nlangs) % 3];
    if (!L->lib) return;
    pv_mseed m; memset(&m, 0, sizeof m);
    if (idx / ((uint64_t)pv_nlangs * 3) > 0) pv_gen_mseed(rng, 7, true, &m);
    m.features |= 8;
    char ph[2048]; pv_m_encode(&m, L, coin, ph, sizeof ph);
    char* in = pv_exact_str(ph); polyseed_data* s = NULL;
    int st = pv_api_decode_explicit(in, coin, L->lib, &s);
    PV_COUNT("evaluations", 1); PV_COUNT("reserved_bit.decodes", 1);
    if (st != POLYSEED_ERR_UNSUPPORTED) { pv_violation("C03/reserved-bit-position", "%s: phrase with only the reserved feature bit -> %s", L->name_en, pv_status_name(st)); if (st == POLYSEED_OK) pv_api_free(s); }
    else PV_DISTINCT("nontrivial", pv_mix(pv_mix(pv_mseed_hash(&m), coin), pv_hash_str(L->key)));
    free(in);
}

/* ---------------------------------------------------------------- random / boundary seeds */
static uint64_t n_random(void) { return pv_scaled(60000, 15000000); }
static void run_random(uint64_t idx, pv_rng* rng) {
    pv_mseed m; pv_gen_mseed(rng, 7, true, &m);
    polyseed_data* s = pv_seed_any_path(rng, &m, pv_gen_coin(rng));      /* "a pure function of secret, birthday, features, coin and language": not of how the seed was obtained */
    if (!s) { pv_violation("C03/load-failed", "cannot load %s", pv_mseed_str(&m)); return; }
    check_checkvalue(s, &m);
    for (int k = 0; k < 3; ++k) {
        pv_mlang* L = &pv_langs[(idx + (uint64_t)k * 3) % (uint64_t)pv_nlangs];
        if (L->lib) check_encode(s, &m, L, pv_gen_coin(rng), "random");
    }
    if (idx < 2) { pv_api_encode(s, pv_langs[idx].lib, 3, g_out); pv_sample("random", "seed %s coin 3 %s -> '%s'", pv_mseed_str(&m), pv_langs[idx].name_en, pv_esc(g_out)); }
    pv_api_free(s);
}

/* ---------------------------------------------------------------- purity: different histories, same phrase */
static uint64_t n_purity(void) { return pv_scaled(15000, 4000000); }
static void run_purity(uint64_t idx, pv_rng* rng) {
    pv_mseed m; pv_gen_mseed(rng, 7, false, &m);
    unsigned coin = pv_gen_coin(rng);
    pv_mlang* L = &pv_langs[idx % (uint64_t)pv_nlangs]; pv_mlang* L2 = &pv_langs[(idx / 10 + 3) % (uint64_t)pv_nlangs];
    if (!L->lib || !L2->lib) return;
    /* (a) created: scripted random bytes (top two bits of the last byte are junk that must be dropped) and clock */
    uint8_t script[19]; memcpy(script, m.secret, 19); script[18] |= (uint8_t)(pv_randn(rng, 4) << 6);
    pv_set_rand_script(script, 19);
    pv_w->time_value = pv_m_birthday_time(m.birthday) + pv_randn(rng, (uint32_t)PV_STEP);
    /* created while the clock is beyond the 1024-month range, unset, broken or in other units: the phrase carries the birthday the
     * seed reports (and nothing spills into the neighbouring feature bits) */
    if (pv_randn(rng, 8) == 0) { uint64_t t = pv_gen_odd_clock(rng); pv_w->time_value = t; m.birthday = pv_m_birthday_of(t); PV_COUNT("purity.created_at_an_out_of_range_clock", 1); }
    polyseed_data* a = NULL;
    int st = pv_api_create(m.features, &a);
    pv_set_rand_prng();
    if (st != POLYSEED_OK) { pv_violation("C03/create-failed", "create(%u) -> %s", m.features, pv_status_name(st)); return; }
    bool ok = check_encode(a, &m, L, coin, "created");
    /* (b) loaded; encoded once more while a different set of user features is enabled (the phrase depends on the seed only) */
    polyseed_data* b = pv_seed_from_model(&m);
    if (b) ok &= check_encode(b, &m, L, coin, "loaded");
    if (b && idx % 3 == 0) { polyseed_enable_features(pv_randn(rng, 7)); ok &= check_encode(b, &m, L, coin, "other-feature-mask"); polyseed_enable_features(7); PV_COUNT("purity.encoded_under_other_feature_mask", 1); }
    /* (c) decoded from a phrase in another language */
    char ph[2048]; pv_m_encode(&m, L2, coin, ph, sizeof ph);
    char* in = pv_exact_str(ph); polyseed_data* c = NULL;
    st = pv_api_decode_explicit(in, coin, L2->lib, &c);
    free(in);
    if (st == POLYSEED_OK) ok &= check_encode(c, &m, L, coin, "decoded-from-other-language");
    else pv_violation("C03/model-phrase-rejected", "%s: model phrase -> %s", L2->name_en, pv_status_name(st));
    /* (d) encrypted and decrypted again; in between it must match the model of the encrypted seed */
    if (b) {
        char pwd[24]; snprintf(pwd, sizeof pwd, "pw%llu", (unsigned long long)pv_rand64(rng));
        pv_api_crypt(b, pwd);
        if (pv_w->nkdf == 1) {
            pv_mseed e = m; uint8_t mask[32]; memcpy(mask, pv_w->kdf[0].key_written, 32); pv_m_crypt(&e, mask);
            ok &= check_encode(b, &e, L, coin, "encrypted");
        }
        pv_api_crypt(b, pwd);
        ok &= check_encode(b, &m, L, coin, "crypt-twice");
    }
    if (ok) PV_COUNT("purity.histories_agree", 1);
    if (idx < 2) pv_sample("purity", "seed %s coin %u: created/loaded/decoded(%s)/crypt-twice all encode to the model phrase in %s", pv_mseed_str(&m), coin, L2->name_en, L->name_en);
    pv_api_free(a); if (b) pv_api_free(b); if (st == POLYSEED_OK) pv_api_free(c);
}

/* ---------------------------------------------------------------- phrases of every length class, up to the longest each language can produce */
static uint64_t n_lengths(void) { return (uint64_t)pv_nlangs * pv_scaled(400, 60000); }
static void run_lengths(uint64_t idx, pv_rng* rng) {
    pv_mlang* L = &pv_langs[idx % (uint64_t)pv_nlangs];
    if (!L->lib) return;
    long mn, mx; pv_lang_length_range(L, &mn, &mx);
    /* uniform over the whole range: random seeds alone never leave a narrow band around the mean */
    long target = mn + (long)pv_randn(rng, (uint32_t)(mx - mn + 1));
    unsigned coin = pv_gen_coin(rng), d[16]; pv_mseed m;
    if (!pv_gen_exact_length(rng, L, coin, target, 7, d, &m)) { PV_COUNT("lengths.target_unreached", 1); return; }
    polyseed_data* s = pv_seed_any_path(rng, &m, coin);
    if (!s) { pv_violation("C03/load-failed", "cannot load %s", pv_mseed_str(&m)); return; }
    if (check_encode(s, &m, L, coin, "length-class")) { pv_countf(1, "lengths.%s.decile%ld", L->key, (target - mn) * 10 / (mx - mn + 1)); PV_COUNT("lengths.encoded", 1); }
    pv_api_free(s);
}

/* ---------------------------------------------------------------- fresh vectors of the Python spec, generated for this run (PV_EXTRA_VECTORS):
 * the library is compared with the second, independent statement of the format directly, without the C model in between */
static char** g_vec; static size_t g_nvec;
static void load_extra_vectors(void) {
    const char* path = getenv("PV_EXTRA_VECTORS");
    if (!path) return;
    FILE* f = fopen(path, "rb"); if (!f) pv_fatal("C03: cannot open %s", path);
    fseek(f, 0, SEEK_END); long n = ftell(f); fseek(f, 0, SEEK_SET);
    char* b = pv_xmalloc((size_t)n + 1); if (fread(b, 1, (size_t)n, f) != (size_t)n) pv_fatal("C03: short read"); b[n] = 0; fclose(f);
    size_t cap = 1024; g_vec = pv_xmalloc(cap * sizeof *g_vec);
    for (char* line = strtok(b, "\n"); line; line = strtok(NULL, "\n")) { if (line[0] == '#') continue; if (g_nvec == cap) { cap *= 2; g_vec = realloc(g_vec, cap * sizeof *g_vec); } g_vec[g_nvec++] = line; }
}
static uint64_t n_pyvec(void) { return g_nvec; }
static void run_pyvec(uint64_t idx, pv_rng* rng) {
    (void)rng;
    char* line = pv_exact_str(g_vec[idx]); char* f[11]; int k = 0; char* p = line;
    while (k < 11) { f[k++] = p; char* q = strchr(p, '\t'); if (!q) break; *q = 0; p = q + 1; }
    if (k != 11) { free(line); return; }
    pv_mlang* L = pv_lang_by_name(f[0]);
    uint8_t img[32], salt[32], pw[32];
    if (!L || !L->lib || pv_unhex(f[7], img, 32) != 32 || pv_unhex(f[8], salt, 32) != 32 || pv_unhex(f[9], pw, 32) != 32) { free(line); return; }
    unsigned features = (unsigned)atoi(f[3]), coin = (unsigned)atoi(f[4]);
    uint8_t* ib = malloc(32); memcpy(ib, img, 32);
    polyseed_data* s = NULL; int st = pv_api_load(ib, &s);
    PV_COUNT("evaluations", 1);
    if (st != (pv_m_supported(features, 7) ? POLYSEED_OK : POLYSEED_ERR_UNSUPPORTED)) pv_violation("C03/python-spec/image", "image %s of the Python spec -> %s", f[7], pv_status_name(st));
    if (st == POLYSEED_OK) {
        size_t n = pv_api_encode(s, L->lib, coin, g_out);
        if (strcmp(g_out, f[5]) || n != strlen(f[5])) pv_violation("C03/python-spec/phrase", "%s coin %u: library '%s', Python spec '%s'", L->name_en, coin, pv_esc(g_out), pv_esc(f[5]));
        else { PV_COUNT("pyvec.phrases_equal_to_python_spec", 1); PV_DISTINCT("nontrivial", pv_mix(pv_hash(img, 32, 5), pv_mix(coin, pv_hash_str(L->key)))); }
        uint8_t* key = malloc(32); pv_api_keygen(s, coin, 32, key); free(key);
        if (pv_w->nkdf != 1 || pv_w->kdf[0].saltlen != 32 || memcmp(pv_w->kdf[0].salt, salt, 32) || pv_w->kdf[0].pwlen != 32 || memcmp(pv_w->kdf[0].pw, pw, 32)) pv_violation("C03/python-spec/kdf-inputs", "KDF inputs differ from the Python spec for image %s coin %u", f[7], coin);
        pv_api_free(s);
    }
    free(ib); free(line);
}

static void init2(void) { init(); g_out = malloc(POLYSEED_STR_SIZE); g_img = malloc(32); load_extra_vectors(); }
static void fini(void) { pv_set_flag("exhaustive.single_bit_seeds_and_pairs", true); }

/* ---------------------------------------------------------------- the layout while other threads encode their own seeds */
static bool conc_iter(pv_rng* r, int iter, void* user, char* err, size_t errsz) {
    (void)iter; (void)user;
    pv_mseed m; pv_gen_mseed(r, 7, true, &m);
    polyseed_data* s = pv_seed_from_model(&m);
    if (!s) { snprintf(err, errsz, "cannot load %s", pv_mseed_str(&m)); return false; }
    char* out = malloc(POLYSEED_STR_SIZE); bool ok = true;
    for (int k = 0; k < 3 && ok; ++k) {
        pv_mlang* L; do { L = &pv_langs[pv_randn(r, (uint32_t)pv_nlangs)]; } while (!L->lib);
        unsigned coin = pv_gen_coin(r);
        size_t n = pv_api_encode(s, L->lib, coin, out);
        char want[2048]; size_t wn = pv_m_encode(&m, L, coin, want, sizeof want);
        if (n != wn || strcmp(out, want)) { ok = false; snprintf(err, errsz, "%s coin %u seed %s: '%.90s' vs specification '%.90s'", L->name_en, coin, pv_mseed_str(&m), out, want); }
    }
    free(out); pv_api_free(s);
    return ok;
}
static uint64_t n_conc(void) { return pv_scaled(3, 100); }
static void run_conc(uint64_t idx, pv_rng* rng) {
    (void)idx; pv_api_enable_features(7);
    enum { NT = 8, IT = 2500 }; static pv_conc_result res[NT];
    uint64_t seed = pv_rand64(rng);
    pv_concurrent(NT, IT, seed, 35, conc_iter, NULL, res);
    if (pv_concurrent_verdict(res, NT, IT, "C03/differs-under-concurrency", "concurrent.phrases_equal_specification")) PV_DISTINCT("nontrivial", seed);
}

int main(int argc, char** argv) {
    static const pv_section secs[] = {
        { "bits", n_bits, run_bits }, { "reserved", n_reserved, run_reserved },
        { "random", n_random, run_random }, { "purity", n_purity, run_purity }, { "lengths", n_lengths, run_lengths }, { "pyvectors", n_pyvec, run_pyvec }, { "concurrent", n_conc, run_conc },
    };
    return pv_main(argc, argv, "C03", secs, (int)(sizeof secs / sizeof *secs), init2, fini);
}
