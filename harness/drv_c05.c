/* drv_c05 — a phrase is bound to its coin: every other coin value rejects it (DESIGN 3/C05) */
#include "pv.h"

static char *g_a, *g_b;
static const unsigned BOUNDARY[] = { 0, 1, 2, 3, 255, 256, 1023, 1024, 2046, 2047 };

static void init(void) {
    pv_world_init(pv.seed);
    pv_model_init();
    pv_inject_default();
    pv_model_bind_library();
    pv_api_enable_features(7);
    g_a = malloc(POLYSEED_STR_SIZE); g_b = malloc(POLYSEED_STR_SIZE);
    pv_info("rule", "per (language, seed, coin A): polyseed_encode for A; decode_explicit with A must succeed with the same seed and with each of the other 2047 coins B must "
                    "give ERR_CHECKSUM; the phrases for A and B must differ in the second token and only there; auto-detect with a wrong coin is sampled. "
                    "non-trivial = an (A,B) pair with A != B whose status was observed; distinct = distinct (seed, language, A) rows (each row = 2047 pairs)");
}

static int split16(char* s, char* tok[16]) {
    char* nf = pv_nfkd_alloc(s); char* t[17]; int n = pv_m_split(nf, t, 17);
    if (n == 16) for (int i = 0; i < 16; ++i) tok[i] = pv_exact_str(t[i]);
    free(nf);
    return n;
}

static void row(pv_mlang* L, const pv_mseed* m, polyseed_data* s, unsigned A, pv_rng* rng, bool sample) {
    size_t n = pv_api_encode(s, L->lib, A, g_a);
    PV_COUNT("evaluations", 1);
    char want[2048]; pv_m_encode(m, L, A, want, sizeof want);
    if (strcmp(g_a, want) || n != strlen(want)) { pv_violation("C05/phrase-differs-from-model", "%s coin %u seed %s: '%s' vs '%s'", L->name_en, A, pv_mseed_str(m), pv_esc(g_a), pv_esc(want)); return; }
    char* in = pv_exact_str(g_a);
    polyseed_data* d = NULL;
    int st = pv_api_decode_explicit(in, A, L->lib, &d);
    PV_COUNT("evaluations", 1);
    if (st != POLYSEED_OK) pv_violation("C05/own-coin-rejected", "%s coin %u seed %s -> %s", L->name_en, A, pv_mseed_str(m), pv_status_name(st));
    else { const char* mm = pv_seed_mismatch(d, m, A); if (mm) pv_violation("C05/own-coin-other-seed", "%s coin %u: %s", L->name_en, A, mm); pv_api_free(d); PV_COUNT("rows.own_coin_ok", 1); }
    for (unsigned B = 0; B < 2048; ++B) {
        if (B == A) continue;
        d = NULL;
        st = pv_api_decode_explicit(in, B, L->lib, &d);
        PV_COUNT("evaluations", 1);
        if (st != POLYSEED_ERR_CHECKSUM) { pv_violation("C05/other-coin-accepted", "%s: phrase for coin %u decoded with coin %u -> %s; seed %s", L->name_en, A, B, pv_status_name(st), pv_mseed_str(m)); if (st == POLYSEED_OK) pv_api_free(d); }
        else PV_COUNT("pairs.rejected_with_checksum", 1);
    }
    /* a failing allocator must not turn the rejection of a wrong coin into something else (the checksum is verified
     * before any memory is requested), and must turn the acceptance of the right coin into ERR_MEMORY only */
    for (int k = 0; k < 6; ++k) {
        unsigned B = k == 0 ? A : (k < 3 ? (A ^ (1u << pv_randn(rng, 11))) : pv_randn(rng, 2048));
        pv_w->fail_countdown = 1; d = NULL;
        st = (k & 1) ? pv_api_decode(in, B, NULL, &d) : pv_api_decode_explicit(in, B, L->lib, &d);
        pv_w->fail_countdown = 0; bool refused = pv_w->alloc_failed_in_call > 0;
        PV_COUNT("evaluations", 1);
        int want = B == A ? (refused ? POLYSEED_ERR_MEMORY : POLYSEED_OK) : POLYSEED_ERR_CHECKSUM;
        if ((k & 1) && B != A) { pv_mdecode md; pv_m_decode(in, B, NULL, 7, &md); if (md.status == POLYSEED_ERR_MULT_LANG) want = POLYSEED_ERR_MULT_LANG; }
        if ((k & 1) && B == A) { pv_mdecode md; pv_m_decode(in, B, NULL, 7, &md); if (md.status == POLYSEED_ERR_MULT_LANG) want = POLYSEED_ERR_MULT_LANG; }
        if (st != want) { pv_violation(B == A ? "C05/own-coin-with-failing-allocator" : "C05/other-coin-with-failing-allocator", "%s: phrase for coin %u decoded with coin %u while the allocator fails -> %s, expected %s", L->name_en, A, B, pv_status_name(st), pv_status_name(want)); if (st == POLYSEED_OK) pv_api_free(d); }
        else PV_COUNT("pairs.failing_allocator_ok", 1);
    }
    /* auto-detect with wrong coins (sample): CHECKSUM, or MULT_LANG when the model finds the phrase ambiguous */
    for (int k = 0; k < 4; ++k) {
        unsigned B = (k < 2) ? (A ^ (1u << pv_randn(rng, 11))) : pv_randn(rng, 2048);
        if (B == A) continue;
        pv_mdecode md; pv_m_decode(in, B, NULL, 7, &md);
        d = NULL; const polyseed_lang* lo = NULL;
        st = pv_api_decode(in, B, &lo, &d);
        PV_COUNT("evaluations", 1);
        if (md.status >= 0 && st != md.status) pv_violation("C05/auto-other-coin", "%s: phrase for coin %u auto-decoded with coin %u -> %s, model %s", L->name_en, A, B, pv_status_name(st), pv_status_name(md.status));
        else pv_countf(1, "auto.wrong_coin.%s", pv_status_name(st));
        if (st == POLYSEED_OK) pv_api_free(d);
    }
    /* token-wise difference of the phrases for A and for other coins */
    char* ta[16];
    if (split16(g_a, ta) != 16) { pv_violation("C05/phrase-shape", "%s: phrase does not have 16 tokens", L->name_en); free(in); return; }
    for (int k = 0; k < 16; ++k) {
        unsigned B = k < (int)(sizeof BOUNDARY / sizeof *BOUNDARY) ? BOUNDARY[k] : pv_randn(rng, 2048);
        if (B == A) continue;
        pv_api_encode(s, L->lib, B, g_b);
        PV_COUNT("evaluations", 1);
        char* tb[16];
        if (split16(g_b, tb) != 16) { pv_violation("C05/phrase-shape", "%s: phrase does not have 16 tokens", L->name_en); continue; }
        for (int i = 0; i < 16; ++i) {
            bool same = !strcmp(ta[i], tb[i]);
            if (i == 1 && same) pv_violation("C05/second-word-unchanged", "%s: coins %u and %u give the same second word", L->name_en, A, B);
            if (i != 1 && !same) pv_violation("C05/other-word-changed", "%s: coins %u and %u differ in word %d", L->name_en, A, B, i + 1);
            free(tb[i]);
        }
        PV_COUNT("token_diffs.compared", 1);
    }
    for (int i = 0; i < 16; ++i) free(ta[i]);
    PV_DISTINCT("nontrivial", pv_mix(pv_mix(pv_mseed_hash(m), A), pv_hash_str(L->key)));
    pv_countf(1, "rows.%s", L->key);
    if (sample) pv_sample("row", "%s seed %s coin A=%u: '%s' — OK for A, ERR_CHECKSUM for the 2047 others", L->name_en, pv_mseed_str(m), A, pv_esc(in));
    free(in);
}

static uint64_t n_rows(void) { return (uint64_t)pv_nlangs * pv_scaled(2, 16) * 16; }
static void run_rows(uint64_t idx, pv_rng* rng) {
    pv_mlang* L = &pv_langs[idx % (uint64_t)pv_nlangs];
    if (!L->lib) return;
    uint64_t k = idx / (uint64_t)pv_nlangs; unsigned a_i = (unsigned)(k % 16); uint64_t seed_i = k / 16;
    pv_rng sr; pv_rng_seed(&sr, pv.seed, 0xc05, seed_i * 16 + (idx % (uint64_t)pv_nlangs));     /* the same seed for the 16 A values of one row group */
    pv_mseed m; pv_gen_mseed(&sr, 7, true, &m);
    polyseed_data* s = pv_seed_any_path(rng, &m, pv_gen_coin(rng));      /* every seed, however the wallet came by it */
    if (!s) { pv_violation("C05/load-failed", "%s", pv_mseed_str(&m)); return; }
    unsigned A = a_i < sizeof BOUNDARY / sizeof *BOUNDARY ? BOUNDARY[a_i] : pv_randn(rng, 2048);
    /* the wallet may inject its dependencies again at any time (same table): neither the coin binding nor the enabled
     * features of the seeds that are alive may notice */
    if (idx % 3 == 1) { pv_inject_default(); PV_COUNT("rows.after_a_second_injection", 1); }
    row(L, &m, s, A, rng, a_i == 5 && seed_i == 0);
    pv_api_free(s);
}

/* thorough: every ordered coin pair for two English seeds, 256 A values for one seed of each other language */
static uint64_t n_allpairs(void) { return pv.tier ? 2 * 2048 + (uint64_t)(pv_nlangs - 1) * 256 : 64; }
static void run_allpairs(uint64_t idx, pv_rng* rng) {
    pv_mlang* L; unsigned A; uint64_t seed_i;
    pv_mlang* EN = pv_lang_by_name("English");
    if (!pv.tier) { L = EN; A = (unsigned)(idx * 32 + pv_randn(rng, 32)); seed_i = 0; }
    else if (idx < 4096) { L = EN; A = (unsigned)(idx % 2048); seed_i = idx / 2048; }
    else { uint64_t k = idx - 4096; int li = 0, seen = -1; for (li = 0; li < pv_nlangs; ++li) { if (&pv_langs[li] != EN) ++seen; if (seen == (int)(k / 256)) break; } L = &pv_langs[li]; A = (unsigned)((k % 256) * 8 + pv_randn(rng, 8)); seed_i = 7 + k / 256; }
    if (!L || !L->lib) return;
    pv_rng sr; pv_rng_seed(&sr, pv.seed, 0xa11, seed_i);
    pv_mseed m; pv_gen_mseed(&sr, 7, true, &m);
    polyseed_data* s = pv_seed_from_model(&m);
    if (!s) return;
    row(L, &m, s, A, rng, false);
    PV_COUNT("allpairs.rows", 1);
    pv_api_free(s);
}
/* every coin once per language for one seed: the second word then runs through the whole word list, so a word that
 * is recognised as another one (or not at all) breaks the binding for the coin that selects it */
static uint64_t n_allcoins(void) { return (uint64_t)pv_nlangs * 32 * pv_scaled(1, 4); }
static void run_allcoins(uint64_t idx, pv_rng* rng) {
    pv_mlang* L = &pv_langs[idx % (uint64_t)pv_nlangs];
    if (!L->lib) return;
    uint64_t k = idx / (uint64_t)pv_nlangs; unsigned blk = (unsigned)(k % 32); uint64_t seed_i = k / 32;
    pv_rng sr; pv_rng_seed(&sr, pv.seed, 0xa11c, seed_i * 16 + (idx % (uint64_t)pv_nlangs));
    pv_mseed m; pv_gen_mseed(&sr, 7, true, &m);
    polyseed_data* s = pv_seed_from_model(&m);
    if (!s) return;
    uint8_t* img = malloc(32); uint8_t mi[32]; pv_m_image(&m, mi);
    for (unsigned A = blk * 64; A < (blk + 1) * 64; ++A) {
        pv_api_encode(s, L->lib, A, g_a);
        char* in = pv_exact_str(g_a); polyseed_data* d = NULL;
        int st = pv_api_decode_explicit(in, A, L->lib, &d);
        PV_COUNT("evaluations", 1);
        if (st != POLYSEED_OK) pv_violation("C05/own-coin-rejected", "%s coin %u seed %s -> %s; phrase '%s'", L->name_en, A, pv_mseed_str(&m), pv_status_name(st), pv_esc(in));
        else { pv_api_store(d, img); if (memcmp(img, mi, 32)) pv_violation("C05/own-coin-other-seed", "%s coin %u: decodes to %s instead of %s", L->name_en, A, pv_hex(img, 32), pv_hex(mi, 32)); else PV_COUNT("allcoins.own_coin_ok", 1); pv_api_free(d); }
        for (int j = 0; j < 3; ++j) {
            unsigned B = j == 0 ? (A ^ 1) : j == 1 ? (A ^ (1u << pv_randn(rng, 11))) : pv_randn(rng, 2048);
            if (B == A) continue;
            d = NULL; st = pv_api_decode_explicit(in, B, L->lib, &d);
            PV_COUNT("evaluations", 1);
            if (st != POLYSEED_ERR_CHECKSUM) { pv_violation("C05/other-coin-accepted", "%s: phrase for coin %u decoded with coin %u -> %s; seed %s", L->name_en, A, B, pv_status_name(st), pv_mseed_str(&m)); if (st == POLYSEED_OK) pv_api_free(d); }
            else PV_COUNT("pairs.rejected_with_checksum", 1);
        }
        free(in);
    }
    PV_DISTINCT("nontrivial", pv_mix(pv_mix(pv_mseed_hash(&m), 0xa11c0 + blk), pv_hash_str(L->key)));
    free(img);
    pv_api_free(s);
}
/* the binding while other threads decode their own phrases (no callback lies between the steps of word splitting, so this
 * relies on real parallelism: 8 threads, many short decodes) */
static bool conc_iter(pv_rng* r, int iter, void* user, char* err, size_t errsz) {
    (void)iter; (void)user;
    pv_mseed m; pv_gen_mseed(r, 7, true, &m);
    pv_mlang* L; do { L = &pv_langs[pv_randn(r, (uint32_t)pv_nlangs)]; } while (!L->lib || (!strncmp(L->key, "zh", 2) && pv_randn(r, 8)));
    unsigned A = pv_gen_coin(r);
    char ph[2048]; pv_m_encode(&m, L, A, ph, sizeof ph);
    bool ok = true;
    for (int k = 0; k < 6 && ok; ++k) {
        unsigned B = k == 0 ? A : (k < 3 ? (A ^ (1u << pv_randn(r, 11))) : pv_randn(r, 2048));
        polyseed_data* d = NULL; int st = pv_api_decode_explicit(ph, B, L->lib, &d);
        if (B == A) { if (st != POLYSEED_OK) { ok = false; snprintf(err, errsz, "%s: own coin %u -> %s", L->name_en, A, pv_status_name(st)); } else { uint8_t img[32], mi[32]; pv_api_store(d, img); pv_m_image(&m, mi); if (memcmp(img, mi, 32)) { ok = false; snprintf(err, errsz, "%s coin %u: another seed", L->name_en, A); } } }
        else if (st != POLYSEED_ERR_CHECKSUM) { ok = false; snprintf(err, errsz, "%s: phrase for coin %u decoded with coin %u -> %s", L->name_en, A, B, pv_status_name(st)); }
        if (st == POLYSEED_OK) pv_api_free(d);
    }
    return ok;
}
static uint64_t n_conc(void) { return pv_scaled(3, 100); }
static void run_conc(uint64_t idx, pv_rng* rng) {
    (void)idx;
    enum { NT = 8, IT = 6000 }; static pv_conc_result res[NT];
    uint64_t seed = pv_rand64(rng);
    pv_concurrent(NT, IT, seed, 20, conc_iter, NULL, res);
    if (pv_concurrent_verdict(res, NT, IT, "C05/differs-under-concurrency", "concurrent.rows_ok")) PV_DISTINCT("nontrivial", seed);
}
static void fini(void) { pv_set_flag("exhaustive.all_2048x2047_coin_pairs_for_two_seeds", pv.tier == 1);
    pv_set_flag("exhaustive.every_coin_as_own_coin_per_language(one seed)", pv.scale_pct >= 100); }
int main(int argc, char** argv) {
    static const pv_section secs[] = { { "rows", n_rows, run_rows }, { "allpairs", n_allpairs, run_allpairs }, { "allcoins", n_allcoins, run_allcoins }, { "concurrent", n_conc, run_conc } };
    return pv_main(argc, argv, "C05", secs, 4, init, fini);
}
