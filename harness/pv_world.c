/* pv_world.c — instrumented dependency table (monitor below the library), allocator ledger,
 * API wrappers (monitor above the library) and seed observation helpers. */
#define _GNU_SOURCE
#include "pv.h"
#include <errno.h>
#include <sched.h>
#include <sys/mman.h>
#include <unistd.h>
#include <link.h>

__thread pv_world* pv_w;
__thread int pv_in_lib;

#ifdef PV_MSAN
#include <sanitizer/msan_interface.h>
static void msan_fail(const char* what, long off, size_t n) {
    fprintf(stderr, "==PV== WARNING: MemorySanitizer: use-of-uninitialized-value (boundary probe): %s of %s: byte %ld of %zu is uninitialised\n",
            what, pv_cur.api ? (const char*)pv_cur.api : "(no call)", off, n);
    fflush(stderr);
    abort();
}
void pv_msan_probe(const void* p, size_t n, const char* what) {
    if (!p || !n) return;
    long off = (long)__msan_test_shadow(p, n);
    if (off >= 0) msan_fail(what, off, n);
}
void pv_msan_probe_str(const char* s, size_t cap, const char* what) {
    if (!s) return;
    long off = (long)__msan_test_shadow(s, cap);
    size_t lim = off < 0 ? cap : (size_t)off;
    for (size_t i = 0; i < lim; ++i) if (s[i] == 0) return;
    if (off >= 0) msan_fail(what, off, cap);
}
void pv_msan_poison(void* p, size_t n) { __msan_poison(p, n); }
void pv_msan_unpoison(const void* p, size_t n) { __msan_unpoison(p, n); }
#endif

/* stubs suspend the "inside the library" marker while they run, so that libc calls made by the
 * monitors themselves are never attributed to the library (C18 wraps) */
extern bool pv_static_probe_in_callbacks; void pv_static_stub_probe(void);
#define STUB_ENTER int _saved = pv_in_lib; pv_in_lib = 0; pv_world* w = pv_w; if (pv_static_probe_in_callbacks) pv_static_stub_probe(); maybe_yield(w)
/* a callback may leave any errno behind (a read() loop that was interrupted and resumed leaves EINTR although it delivered everything):
 * every monitor returns with a rotating, mostly non-zero errno */
static __thread unsigned stub_errno_rot;
static const int STUB_ERRNO[] = { EINTR, 0, EAGAIN, ERANGE, EINTR, ENOMEM, EOVERFLOW, EINVAL };
#define STUB_LEAVE do { pv_in_lib = _saved; errno = STUB_ERRNO[stub_errno_rot++ % (sizeof STUB_ERRNO / sizeof *STUB_ERRNO)]; } while (0)

static void maybe_yield(pv_world* w) {
    if (w->yield_pct && pv_randn(&w->yield_rng, 100) < (uint32_t)w->yield_pct) {
        if (pv_randn(&w->yield_rng, 4) == 0) { volatile int spin = (int)pv_randn(&w->yield_rng, 2000); while (spin-- > 0) { } }
        else sched_yield();
    }
}
static pv_event* new_event(pv_world* w, int kind, int tag) {
    w->count[kind]++; w->total[kind]++;
    if (w->nev >= PV_MAXEV) { w->ev_overflow++; return NULL; }
    pv_event* e = &w->ev[w->nev++];
    memset(e, 0, sizeof *e);
    e->kind = kind; e->tag = tag; e->kdf = -1;
    return e;
}

static void stub_randbytes(int tag, void* result, size_t n) {
    STUB_ENTER;
    pv_event* e = new_event(w, PV_EV_RAND, tag);
    if (e) { e->ptr = result; e->len = n; }
    uint8_t* out = result;
    for (size_t i = 0; i < n; ++i) {
        uint8_t b;
        if (w->rand_mode == 1 && w->rand_script_len > 0) b = w->rand_script[(w->rand_total) % (size_t)w->rand_script_len];
        else b = (uint8_t)pv_rand64(&w->rand_rng);
        out[i] = b;
        if (w->rand_total < sizeof w->rand_delivered) w->rand_delivered[w->rand_total] = b;
        w->rand_total++;
    }
    STUB_LEAVE;
}
static uint64_t stub_time(int tag) {
    STUB_ENTER;
    pv_event* e = new_event(w, PV_EV_TIME, tag);
    uint64_t v = w->time_value;
    if (w->time_script_n > 0) v = w->time_script[w->time_reads < w->time_script_n ? w->time_reads : w->time_script_n - 1];
    if (w->time_reads < 8) w->time_seen[w->time_reads] = v;
    w->time_reads++;
    if (e) e->a = v;
    STUB_LEAVE;
    return v;
}
static long page_size(void) { static long p; if (!p) p = sysconf(_SC_PAGESIZE); return p; }
static void stub_pbkdf2(int tag, const uint8_t* pw, size_t pwlen, const uint8_t* salt, size_t saltlen,
                        uint64_t iterations, uint8_t* key, size_t keylen) {
    STUB_ENTER;
    pv_event* e = new_event(w, PV_EV_KDF, tag);
    pv_kdfrec* r = NULL;
    if (w->nkdf < PV_MAXKDF) { r = &w->kdf[w->nkdf]; if (e) e->kdf = w->nkdf; w->nkdf++; }
    /* a conforming PBKDF2 may use the key buffer as its accumulator from the first round on, i.e. write it while it still re-reads the
     * password (nothing promises that password, salt and key may overlap): the key buffer is clobbered before anything is read */
    if (!(w->kdf_nowrite_above && keylen > w->kdf_nowrite_above)) { size_t c = keylen < 4096 ? keylen : 4096; memset(key, 0xD5, c); }
    pv_msan_probe(pw, pwlen < 4096 ? pwlen : 4096, "KDF password argument"); pv_msan_probe(salt, saltlen < 4096 ? saltlen : 4096, "KDF salt argument");
    if (r) {
        memset(r, 0, sizeof *r);
        r->pwlen = pwlen; r->pw_ptr = pw; r->saltlen = saltlen; r->iters = iterations; r->key = key; r->keylen = keylen;
        memcpy(r->pw, pw, pwlen < sizeof r->pw ? pwlen : sizeof r->pw);          /* reads exactly what the library claims is readable */
        memcpy(r->salt, salt, saltlen < sizeof r->salt ? saltlen : sizeof r->salt);
    } else {                                                                       /* still touch the claimed ranges (ASan) */
        volatile uint8_t sink = 0;
        for (size_t i = 0; i < pwlen; ++i) sink ^= pw[i];
        for (size_t i = 0; i < saltlen; ++i) sink ^= salt[i];
    }
    if (w->kdf_nowrite_above && keylen > w->kdf_nowrite_above) { /* recorded only */ }
    else if (w->kdf_mode == 1) {
        for (size_t i = 0; i < keylen; ++i) key[i] = w->kdf_mask[i % 32];
    } else {
        pv_kdf_mix(pw, pwlen, salt, saltlen, iterations, key, keylen);
    }
    if (r && !(w->kdf_nowrite_above && keylen > w->kdf_nowrite_above)) memcpy(r->key_written, key, keylen < sizeof r->key_written ? keylen : sizeof r->key_written);
    if (w->kdf_protect && keylen) {
        /* the key lives in a page owned by the driver; any later access by the library faults */
        uintptr_t a = (uintptr_t)key & ~(uintptr_t)(page_size() - 1);
        mprotect((void*)a, (size_t)page_size(), PROT_NONE);
    }
    STUB_LEAVE;
}
void pv_kdf_mix(const uint8_t* pw, size_t pwlen, const uint8_t* salt, size_t saltlen, uint64_t iterations, uint8_t* key, size_t keylen) {
    uint64_t h = pv_hash(pw, pwlen, 0x6b6466);
    h = pv_mix(h, pv_hash(salt, saltlen, 0x73616c74));
    h = pv_mix(h, pwlen); h = pv_mix(h, saltlen); h = pv_mix(h, iterations); h = pv_mix(h, keylen);
    pv_rng g; pv_rng_seed(&g, h, pwlen * 131 + saltlen, iterations);
    for (size_t i = 0; i < keylen; ++i) key[i] = (uint8_t)pv_rand64(&g);
}
static void stub_memzero(int tag, void* const ptr, const size_t len) {
    STUB_ENTER;
    pv_event* e = new_event(w, PV_EV_MEMZERO, tag);
    if (e) { e->ptr = ptr; e->len = len; }
    if (w->memzero_mode == 0 && len) {
        volatile uint8_t* p = ptr;
        for (size_t i = 0; i < len; ++i) p[i] = 0;
    }
    STUB_LEAVE;
}
static size_t stub_nfc(int tag, const char* str, polyseed_str norm) {
    STUB_ENTER;
    pv_event* e = new_event(w, PV_EV_NFC, tag);
    pv_msan_probe_str(str, POLYSEED_STR_SIZE * 4, "string given to the NFC dependency");
    size_t inlen = strlen(str);
    /* a conforming normaliser may write its output buffer before it has finished reading its input (nothing in the
     * header promises that str and norm may alias): the whole buffer is clobbered first */
    if (!((const char*)norm + POLYSEED_STR_SIZE <= str || str + inlen + 1 <= (const char*)norm)) w->aliased_norm_calls++;
    char* stash = NULL;
    if (!w->norm_gentle) memset(norm, 0xDD, POLYSEED_STR_SIZE);
    else if (w->norm_gentle == 2) { stash = strdup(str); }       /* a converter that works in place: the output buffer first receives a copy of the input (as much as fits) ... */
    else norm[0] = (char)0xDD;
    size_t n;
    if (w->norm_invalid_empty && !pv_utf8_valid(str)) { norm[0] = 0; n = 0; }
    else n = pv_dep_nfc(str, norm);
    if (stash) { size_t sl = strlen(stash); if (sl > POLYSEED_STR_SIZE - 1) sl = POLYSEED_STR_SIZE - 1; if (sl > n + 1) memcpy(norm + n + 1, stash + n + 1, sl - n - 1); free(stash); }   /* ... and what the shorter result does not overwrite stays behind its terminator */
    if (e) { e->ptr = str; e->len = inlen; e->b = n; }
    STUB_LEAVE;
    return n;
}
static size_t stub_nfkd(int tag, const char* str, polyseed_str norm) {
    STUB_ENTER;
    pv_event* e = new_event(w, PV_EV_NFKD, tag);
    pv_msan_probe_str(str, POLYSEED_STR_SIZE * 4, "string given to the NFKD dependency");
    size_t inlen = strlen(str);
    if (!((const char*)norm + POLYSEED_STR_SIZE <= str || str + inlen + 1 <= (const char*)norm)) w->aliased_norm_calls++;
    char* stash = NULL;
    if (!w->norm_gentle) memset(norm, 0xDD, POLYSEED_STR_SIZE);
    else if (w->norm_gentle == 2) { stash = strdup(str); }       /* a converter that works in place: the output buffer first receives a copy of the input (as much as fits) ... */
    else norm[0] = (char)0xDD;
    size_t n;
    if (w->norm_invalid_empty && !pv_utf8_valid(str)) { norm[0] = 0; n = 0; }
    else n = pv_dep_nfkd(str, norm);
    if (stash) { size_t sl = strlen(stash); if (sl > POLYSEED_STR_SIZE - 1) sl = POLYSEED_STR_SIZE - 1; if (sl > n + 1) memcpy(norm + n + 1, stash + n + 1, sl - n - 1); free(stash); }   /* ... and what the shorter result does not overwrite stays behind its terminator */
    if (e) { e->ptr = str; e->len = inlen; e->b = n; }
    STUB_LEAVE;
    return n;
}
static void* stub_alloc(int tag, size_t n) {
    STUB_ENTER;
    pv_event* e = new_event(w, PV_EV_ALLOC, tag);
    bool fail = false;
    if (w->fail_countdown > 0 && --w->fail_countdown == 0) fail = true;
    if (w->fail_mask_n > 0) { if (w->fail_mask & 1) fail = true; w->fail_mask >>= 1; w->fail_mask_n--; }
    void* p = NULL;
    if (fail) { w->ledger_fail++; w->alloc_failed_in_call++; }
    else {
        void* base;
        if (w->reuse_mode && w->cache_ptr && w->cache_size == n) { p = w->cache_ptr; base = w->cache_base; w->cache_ptr = NULL; }   /* address reuse, like a LIFO allocator */
        else if (w->align8_mode) { base = malloc(n + 8); p = base ? (uint8_t*)base + 8 : NULL; }     /* pool allocators with an 8-byte header hand out such blocks */
        else { base = malloc(n); p = base; }   /* exact size: ASan red zones sit right behind the block */
        if (!p) pv_fatal("world: malloc failed");
        uint8_t* b = p;                  /* changing, never-zero junk */
        for (size_t i = 0; i < n; ++i) { uint8_t v = (uint8_t)pv_rand64(&w->junk_rng); b[i] = v ? v : 0xA7; }
        pv_msan_poison(p, n);            /* MemorySanitizer flavour: fresh memory is uninitialised, whatever bytes it happens to hold */
        if (w->nlive >= PV_MAXLIVE) pv_fatal("world: ledger full");
        w->live[w->nlive].ptr = p; w->live[w->nlive].base = base; w->live[w->nlive].size = n; w->live[w->nlive].call = w->call_id; w->nlive++;
        for (int i = 0; i < 64; ++i) if (w->freed_ring[i] == p) w->freed_ring[i] = NULL;
        w->ledger_allocs++;
    }
    if (e) { e->ptr = p; e->len = n; e->a = fail; }
    STUB_LEAVE;
    return p;
}
static void stub_free(int tag, void* ptr) {
    STUB_ENTER;
    pv_event* e = new_event(w, PV_EV_FREE, tag);
    uint64_t verdict = 0;
    if (ptr == NULL) verdict |= PV_FREE_NULL;
    else {
        int i;
        for (i = 0; i < w->nlive; ++i) if (w->live[i].ptr == ptr) break;
        if (i == w->nlive) {
            bool dbl = false;
            for (int k = 0; k < 64; ++k) if (w->freed_ring[k] == ptr) dbl = true;
            verdict |= dbl ? PV_FREE_DOUBLE : PV_FREE_FOREIGN;      /* not handed to the real free ... */
            if (!dbl && w->foreign_passthrough) free(ptr);           /* ... unless the allocator of this table is libc malloc */
        } else {
            const uint8_t* b = ptr; size_t n = w->live[i].size;
            for (size_t k = 0; k < n; ++k) if (b[k]) { verdict |= PV_FREE_NOTZERO; break; }
            bool wiped = false;
            for (int k = 0; k < w->nev; ++k)
                if (w->ev[k].kind == PV_EV_MEMZERO && (const uint8_t*)w->ev[k].ptr <= b &&
                    (const uint8_t*)w->ev[k].ptr + w->ev[k].len >= b + n) wiped = true;
            if (!wiped) verdict |= PV_FREE_NOWIPE;
            if (e) e->len = n;
            void* base = w->live[i].base;
            w->live[i] = w->live[--w->nlive];
            w->freed_ring[w->freed_pos++ % 64] = ptr;
            w->ledger_frees++;
            if (w->reuse_mode) { if (w->cache_ptr) free(w->cache_base); w->cache_ptr = ptr; w->cache_base = base; w->cache_size = n; }
            else free(base);
        }
    }
    if (e) { e->ptr = ptr; e->a = verdict; }
    STUB_LEAVE;
}

/* two complete, distinguishable sets of stubs (C18) */
#define DEFSET(T) \
    static void T##_randbytes(void* r, size_t n) { stub_randbytes(TAG_##T, r, n); } \
    static uint64_t T##_time(void) { return stub_time(TAG_##T); } \
    static void T##_pbkdf2(const uint8_t* pw, size_t pwlen, const uint8_t* salt, size_t saltlen, uint64_t it, uint8_t* key, size_t keylen) { stub_pbkdf2(TAG_##T, pw, pwlen, salt, saltlen, it, key, keylen); } \
    static void T##_memzero(void* const p, const size_t n) { stub_memzero(TAG_##T, p, n); } \
    static size_t T##_nfc(const char* s, polyseed_str o) { return stub_nfc(TAG_##T, s, o); } \
    static size_t T##_nfkd(const char* s, polyseed_str o) { return stub_nfkd(TAG_##T, s, o); } \
    static void* T##_alloc(size_t n) { return stub_alloc(TAG_##T, n); } \
    static void T##_free(void* p) { stub_free(TAG_##T, p); }
enum { TAG_A = 0, TAG_B = 1 };
DEFSET(A)
DEFSET(B)

void pv_world_table(polyseed_dependency* t, int tag, bool with_time, bool with_alloc, bool with_free) {
    memset(t, 0, sizeof *t);
    if (tag == 0) {
        t->randbytes = A_randbytes; t->pbkdf2_sha256 = A_pbkdf2; t->memzero = A_memzero; t->u8_nfc = A_nfc; t->u8_nfkd = A_nfkd;
        if (with_time) t->time = A_time;
        if (with_alloc) t->alloc = A_alloc;
        if (with_free) t->free = A_free;
    } else {
        /* set B is written the way a caller bound to the published layout writes it (positional initialiser, a binding generated
         * from the released header): randbytes, pbkdf2_sha256, memzero, u8_nfc, u8_nfkd, time, alloc, free - the order of the
         * pinned release.  Set A uses member names.  A header that reorders members of equal type compiles and is noticed here */
        polyseed_dependency p = { B_randbytes, B_pbkdf2, B_memzero, B_nfc, B_nfkd, with_time ? B_time : NULL, with_alloc ? B_alloc : NULL, with_free ? B_free : NULL };
        *t = p;
    }
}
void pv_world_init(uint64_t seed) {
    pv_world* w = calloc(1, sizeof *w);
    if (!w) pv_fatal("world: oom");
    pv_rng_seed(&w->rand_rng, seed, 0x72616e64, 1);
    pv_rng_seed(&w->junk_rng, seed, 0x6a756e6b, 2);
    pv_rng_seed(&w->yield_rng, seed, 0x7969656c, 3);
    w->time_value = PV_EPOCH + 1000;
    pv_w = w;
}
void pv_inject_default(void) {
    polyseed_dependency t;
    pv_world_table(&t, 0, true, true, true);
    pv_api_inject(&t);
}
void pv_world_begin(const char* api) {
    pv_world* w = pv_w;
    w->nev = 0; w->nkdf = 0; w->ev_overflow = 0; w->rand_total = 0; w->alloc_failed_in_call = 0; w->time_reads = 0;
    memset(w->count, 0, sizeof w->count);
    w->call_id++;
    if (pv_cur.api == NULL && strcmp(api, "polyseed_decode") && strcmp(api, "polyseed_decode_explicit") && strcmp(api, "polyseed_load") && strcmp(api, "polyseed_crypt")) pv_cur.in_ptr = NULL;
    pv_cur.api = api;
    __atomic_store_n(&pv_last_api, api, __ATOMIC_RELAXED);
    /* ambient thread state the caller may legitimately have left behind: a stale errno from some unrelated earlier call */
    { static const int E[] = { 0, EOVERFLOW, ERANGE, EINTR, ENOMEM, EINVAL, EILSEQ, EDOM, EAGAIN, ENOSYS }; errno = E[w->call_id % (sizeof E / sizeof *E)]; }
    pv_in_lib = 1;
}
void pv_world_end(void) { pv_in_lib = 0; pv_cur.api = NULL; __atomic_store_n(&pv_last_api, (const char*)NULL, __ATOMIC_RELAXED); }
int pv_ev_count(int kind) { return (int)pv_w->count[kind]; }
const pv_event* pv_ev_find(int kind, int nth) {
    for (int i = 0; i < pv_w->nev; ++i) if (pv_w->ev[i].kind == kind && nth-- == 0) return &pv_w->ev[i];
    return NULL;
}
/* is p inside a block that is currently allocated?  (a seed handle need not be the block's first byte: the library may keep a header in front of it) */
bool pv_ledger_is_live(const void* p) { for (int i = 0; i < pv_w->nlive; ++i) if ((const uint8_t*)p >= (const uint8_t*)pv_w->live[i].ptr && (const uint8_t*)p < (const uint8_t*)pv_w->live[i].ptr + pv_w->live[i].size) return true; return false; }
int pv_ledger_live(void) { return pv_w->nlive; }
void pv_ledger_forget_all(void) { pv_w->nlive = 0; }
void pv_ledger_reclaim(int keep) { while (pv_w->nlive > keep && pv_w->nlive > 0) { free(pv_w->live[--pv_w->nlive].base); } }
void pv_set_rand_script(const void* bytes, int n) { pv_w->rand_mode = 1; memcpy(pv_w->rand_script, bytes, (size_t)n); pv_w->rand_script_len = n; }
void pv_set_rand_prng(void) { pv_w->rand_mode = 0; }

/* ------------------------------------------------------------------ API wrappers */
/* The table a caller hands over has the size it had in the header that caller was compiled with: eight pointers at the pinned
 * release.  Every injection goes through an exact-size heap copy of those eight pointers (red zone right behind it, scribbled over
 * and freed as soon as the call returns), so a library that reads a ninth entry, or keeps the pointer, is seen by ASan/MSan */
void pv_api_inject_raw(const polyseed_dependency* d) { pv_world_begin("polyseed_inject"); polyseed_inject(d); pv_world_end(); }
void pv_api_inject(const polyseed_dependency* d) {
    void* blk = malloc(PV_DEP_ABI_BYTES); if (!blk) pv_fatal("world: oom");
    memcpy(blk, d, PV_DEP_ABI_BYTES);
    pv_api_inject_raw((const polyseed_dependency*)blk);
    memset(blk, 0x5a, PV_DEP_ABI_BYTES); free(blk);
}
#define PROBE_RET(r) pv_msan_probe(&(r), sizeof(r), "return value")
/* The API is called by name, as applications call it, and every scalar argument is an expression with a side effect (v[k++]): a
 * function evaluates each argument exactly once; a function-like macro laid over it in the header may not, and then the library
 * receives one of the other, different, values and the ordinary oracles see the difference */
#define ONCE(T, name, val) T name##_v[4] = { (T)(val), (T)((val) ^ 0x155), (T)((val) ^ 0x2aa), (T)((val) ^ 0x3ff) }; volatile int name##_k = 0
#define ARG(name) name##_v[name##_k++ & 3]
int pv_api_enable_features(unsigned mask) { pv_world_begin("polyseed_enable_features"); ONCE(unsigned, m, mask); int r = polyseed_enable_features(ARG(m)); PROBE_RET(r); pv_world_end(); return r; }
polyseed_status pv_api_create(unsigned features, polyseed_data** out) { pv_world_begin("polyseed_create"); ONCE(unsigned, f, features); polyseed_status r = polyseed_create(ARG(f), out); PROBE_RET(r); if (r == POLYSEED_OK) pv_msan_probe(out, sizeof *out, "*seed_out"); pv_world_end(); return r; }
void pv_api_free(polyseed_data* s) { pv_world_begin("polyseed_free"); polyseed_free(s); pv_world_end(); }
uint64_t pv_api_get_birthday(const polyseed_data* s) { pv_world_begin("polyseed_get_birthday"); uint64_t r = polyseed_get_birthday(s); PROBE_RET(r); pv_world_end(); return r; }
unsigned pv_api_get_feature(const polyseed_data* s, unsigned mask) { pv_world_begin("polyseed_get_feature"); ONCE(unsigned, m, mask); unsigned r = polyseed_get_feature(s, ARG(m)); PROBE_RET(r); pv_world_end(); return r; }
void pv_api_keygen(const polyseed_data* s, unsigned coin, size_t n, uint8_t* out) { pv_world_begin("polyseed_keygen"); ONCE(unsigned, c, coin); size_t n_v[2] = { n, n ^ 16 }; volatile int n_k = 0; polyseed_keygen(s, (polyseed_coin)ARG(c), n_v[n_k++ & 1], out); if (n <= 4096) pv_msan_probe(out, n, "derived key (computed by the KDF monitor from the arguments the library passed)"); pv_world_end(); }
size_t pv_api_encode(const polyseed_data* s, const polyseed_lang* l, unsigned coin, char* out) { pv_world_begin("polyseed_encode"); ONCE(unsigned, c, coin); size_t r = polyseed_encode(s, l, (polyseed_coin)ARG(c), out); PROBE_RET(r); pv_msan_probe_str(out, POLYSEED_STR_SIZE, "phrase written by polyseed_encode"); pv_world_end(); return r; }
polyseed_status pv_api_decode(const char* str, unsigned coin, const polyseed_lang** lang_out, polyseed_data** out) {
    pv_cur.in_ptr = str; pv_cur.in_len = strlen(str);
    pv_world_begin("polyseed_decode"); ONCE(unsigned, c, coin); polyseed_status r = polyseed_decode(str, (polyseed_coin)ARG(c), lang_out, out); PROBE_RET(r); if (r == POLYSEED_OK) pv_msan_probe(out, sizeof *out, "*seed_out"); if (r == POLYSEED_OK && lang_out) pv_msan_probe(lang_out, sizeof *lang_out, "*lang_out"); pv_world_end(); return r;
}
polyseed_status pv_api_decode_explicit(const char* str, unsigned coin, const polyseed_lang* l, polyseed_data** out) {
    pv_cur.in_ptr = str; pv_cur.in_len = strlen(str);
    pv_world_begin("polyseed_decode_explicit"); ONCE(unsigned, c, coin); polyseed_status r = polyseed_decode_explicit(str, (polyseed_coin)ARG(c), l, out); PROBE_RET(r); if (r == POLYSEED_OK) pv_msan_probe(out, sizeof *out, "*seed_out"); pv_world_end(); return r;
}
void pv_api_store(const polyseed_data* s, uint8_t* storage) { pv_world_begin("polyseed_store"); polyseed_store(s, storage); pv_msan_probe(storage, 32, "bytes written by polyseed_store"); pv_world_end(); }
polyseed_status pv_api_load(const uint8_t* storage, polyseed_data** out) {
    pv_cur.in_ptr = storage; pv_cur.in_len = 32;
    pv_world_begin("polyseed_load"); polyseed_status r = polyseed_load(storage, out); PROBE_RET(r); if (r == POLYSEED_OK) pv_msan_probe(out, sizeof *out, "*seed_out"); pv_world_end(); return r;
}
void pv_api_crypt(polyseed_data* s, const char* password) {
    pv_cur.in_ptr = password; pv_cur.in_len = strlen(password);
    pv_world_begin("polyseed_crypt"); polyseed_crypt(s, password); pv_world_end();
}
int pv_api_is_encrypted(const polyseed_data* s) { pv_world_begin("polyseed_is_encrypted"); int r = polyseed_is_encrypted(s); PROBE_RET(r); pv_world_end(); return r; }

/* ------------------------------------------------------------------ observation */
const char* pv_status_name(int st) {
    static const char* n[] = { "OK", "ERR_NUM_WORDS", "ERR_LANG", "ERR_CHECKSUM", "ERR_UNSUPPORTED", "ERR_FORMAT", "ERR_MEMORY", "ERR_MULT_LANG" };
    if (st == -1) return "(unspecified)";
    return st >= 0 && st < 8 ? n[st] : "(out of range)";
}
void pv_observe(const polyseed_data* s, unsigned coin, pv_obs* o) {
    memset(o, 0, sizeof *o);
    uint8_t* img = malloc(32);                  /* exact-size heap block */
    pv_api_store(s, img); memcpy(o->image, img, 32); free(img);
    o->birthday = pv_api_get_birthday(s);
    for (unsigned m = 0; m < 8; ++m) o->feat[m] = pv_api_get_feature(s, m);
    { static const unsigned HI[] = { 0xfffffff8u, 0x10u, 0x18u, 0x8u, 0xf0u, 0x80000010u }; static __thread unsigned rot;
      for (unsigned m = 0; m < 8; ++m) { o->hi_mask[m] = m | HI[rot++ % (sizeof HI / sizeof *HI)]; o->feat_hi[m] = pv_api_get_feature(s, o->hi_mask[m]); } }
    o->encrypted = pv_api_is_encrypted(s);
    uint8_t* key = malloc(32);
    int saved = pv_w->kdf_mode; pv_w->kdf_mode = 0;
    pv_api_keygen(s, coin, 32, key);
    pv_w->kdf_mode = saved;
    o->nkdf = pv_ev_count(PV_EV_KDF);
    if (pv_w->nkdf > 0) {
        pv_kdfrec* r = &pv_w->kdf[0];
        o->pwlen = r->pwlen; o->saltlen = r->saltlen; o->iters = r->iters; o->keylen = r->keylen;
        memcpy(o->pw, r->pw, 32); memcpy(o->salt, r->salt, 32);
    }
    free(key);
}
const char* pv_seed_mismatch(const polyseed_data* s, const pv_mseed* m, unsigned coin) {
    static __thread char msg[512];
    pv_obs o; pv_observe(s, coin, &o);
    uint8_t img[32], salt[32], pw[32];
    pv_m_image(m, img); pv_m_salt(m, coin, salt); pv_m_password(m, pw);
    if (memcmp(o.image, img, 32)) { snprintf(msg, sizeof msg, "store bytes %s, model %s", pv_hex(o.image, 32), pv_hex(img, 32)); return msg; }
    if (o.birthday != pv_m_birthday_time(m->birthday)) { snprintf(msg, sizeof msg, "get_birthday %llu, model %llu", (unsigned long long)o.birthday, (unsigned long long)pv_m_birthday_time(m->birthday)); return msg; }
    for (unsigned q = 0; q < 8; ++q) if (o.feat[q] != (m->features & q & 7)) { snprintf(msg, sizeof msg, "get_feature(mask %u) = %u, model %u", q, o.feat[q], m->features & q & 7); return msg; }
    for (unsigned q = 0; q < 8; ++q) if (o.feat_hi[q] != (m->features & q & 7)) { snprintf(msg, sizeof msg, "get_feature(mask 0x%x) = %u on a seed with feature bits %u: only the three user bits may be reported (model %u)", o.hi_mask[q], o.feat_hi[q], m->features, m->features & q & 7); return msg; }
    if (o.encrypted != (int)((m->features >> 4) & 1)) { snprintf(msg, sizeof msg, "is_encrypted %d, model %u", o.encrypted, (m->features >> 4) & 1); return msg; }
    if (o.nkdf != 1) { snprintf(msg, sizeof msg, "keygen called the KDF %d times", o.nkdf); return msg; }
    if (o.pwlen != 32 || memcmp(o.pw, pw, 32)) { snprintf(msg, sizeof msg, "KDF password (len %zu) %s, model %s", o.pwlen, pv_hex(o.pw, 32), pv_hex(pw, 32)); return msg; }
    if (o.saltlen != 32 || memcmp(o.salt, salt, 32)) { snprintf(msg, sizeof msg, "KDF salt (len %zu) %s, model %s", o.saltlen, pv_hex(o.salt, 32), pv_hex(salt, 32)); return msg; }
    if (o.iters != 10000 || o.keylen != 32) { snprintf(msg, sizeof msg, "KDF iterations %llu keylen %zu", (unsigned long long)o.iters, o.keylen); return msg; }
    return NULL;
}
polyseed_data* pv_seed_from_model(const pv_mseed* m) {
    uint8_t* img = malloc(32);
    pv_m_image(m, img);
    polyseed_data* s = NULL;
    polyseed_status st = pv_api_load(img, &s);
    free(img);
    return st == POLYSEED_OK ? s : NULL;
}

void pv_arm_some_request(void) { uint32_t k = pv_randn(&pv_w->junk_rng, 6); pv_w->fail_countdown = k < 4 ? 1 : (long)k - 2; }     /* 1 (4/6), 2 or 3 */

/* ---------------------------------------------------------------- the ways a wallet comes by a seed (an axis of every property that says "every seed"):
 * created / loaded / decoded from a phrase / encrypted and decrypted again / stored encrypted, loaded and decrypted.  The result must be the abstract
 * seed m whatever the path; NULL = the path failed (the caller reports it) */
unsigned pv_path_mask = 7;      /* the mask the calling driver keeps enabled (restored after a detour) */
const char* const pv_path_name[PV_NPATHS] = { "created", "loaded", "decoded", "crypt-twice", "decrypted-copy" };

polyseed_data* pv_seed_by_path(pv_rng* rng, const pv_mseed* m, int how, unsigned coin) {
    polyseed_data* s = NULL;
    switch (how) {
    case 0: {
        uint8_t script[19]; memcpy(script, m->secret, 19); script[18] |= (uint8_t)(pv_randn(rng, 4) << 6);
        pv_set_rand_script(script, 19);
        pv_w->time_value = pv_m_birthday_time(m->birthday) + pv_randn(rng, (uint32_t)PV_STEP);
        /* "only the least significant 3 bits are used": higher argument bits must not reach the seed, and so not the salt */
        unsigned arg = m->features;
        if (pv_randn(rng, 2)) { static const unsigned HI[] = { 0x8u, 0x10u, 0x18u, 0x20u, 0x100u, 0x400u, 0x8000u, 0x10000u, 0x80000000u, 0xFFFFFFF8u }; arg |= pv_randn(rng, 3) ? HI[pv_randn(rng, sizeof HI / sizeof *HI)] : ((uint32_t)pv_rand64(rng) & ~7u); PV_COUNT("paths.created_with_high_argument_bits", 1); }
        int st = pv_api_create(arg, &s);
        pv_set_rand_prng();
        return st == POLYSEED_OK ? s : NULL; }
    case 1: {
        /* restoring a wallet file: now and then a damaged file is tried first (and refused); the next, good one must be unaffected
         * (the allocator hands the block of the refused seed out again) */
        if (pv_randn(rng, 3) == 0) {
            int saved = pv_w->reuse_mode; pv_w->reuse_mode = 1;
            uint8_t* bad = malloc(32); pv_m_image(m, bad); bad[pv_randn(rng, 3) ? 8 + pv_randn(rng, 24) : pv_randn(rng, 8)] ^= (uint8_t)(1u << pv_randn(rng, 8));
            polyseed_data* t = NULL; if (pv_api_load(bad, &t) == POLYSEED_OK) pv_api_free(t); free(bad);
            polyseed_data* s2 = pv_seed_from_model(m);
            pv_w->reuse_mode = saved; if (!saved && pv_w->cache_ptr) { free(pv_w->cache_base); pv_w->cache_ptr = NULL; }
            PV_COUNT("paths.loaded_after_a_refused_image", 1);
            return s2;
        }
        return pv_seed_from_model(m); }
    case 2: {
        pv_mlang* L; do { L = &pv_langs[pv_randn(rng, (uint32_t)pv_nlangs)]; } while (!L->lib);
        char ph[2048]; pv_m_encode(m, L, coin, ph, sizeof ph);
        char* in = pv_exact_str(ph);
        int st = pv_api_decode_explicit(in, coin, L->lib, &s);
        free(in);
        return st == POLYSEED_OK ? s : NULL; }
    case 3: {
        s = pv_seed_from_model(m);
        /* encrypted and decrypted while a different set of user features is enabled: the seed must keep its own bits */
        if (s) { bool other = pv_randn(rng, 2); if (other) { polyseed_enable_features(pv_randn(rng, 7)); PV_COUNT("paths.crypt_under_a_different_feature_mask", 1); }
                 /* the password operation cannot report failure: a refused allocation (should it make any) must not change what it does */
                 bool refuse = pv_randn(rng, 3) == 0; if (refuse) { pv_arm_some_request(); PV_COUNT("paths.crypt_with_failing_allocator", 1); }
                 pv_api_crypt(s, "p\xc3\xa4ss"); pv_w->fail_countdown = 0; if (other) polyseed_enable_features(pv_randn(rng, 7)); pv_api_crypt(s, "p\xc3\xa4ss"); if (other) polyseed_enable_features(pv_path_mask); }
        return s; }
    default: {       /* an encrypted copy is stored, loaded and decrypted */
        s = pv_seed_from_model(m);
        if (!s) return NULL;
        const char* pw2 = pv_randn(rng, 2) ? "other" : "\xc3\xb6ther \xef\xac\x81";       /* half of the time a password that normalisation changes */
        pv_api_crypt(s, pw2);
        uint8_t* img = malloc(32); pv_api_store(s, img); pv_api_free(s); s = NULL;
        int st = pv_api_load(img, &s); free(img);
        if (st != POLYSEED_OK) return NULL;
        if (pv_randn(rng, 3) == 0) { pv_arm_some_request(); PV_COUNT("paths.crypt_with_failing_allocator", 1); }
        pv_api_crypt(s, pw2); pv_w->fail_countdown = 0;
        return s; }
    }
}

/* clock values outside the 1024-month range or otherwise odd (a wallet used after 2107, a broken or unset clock, a millisecond clock) */
uint64_t pv_gen_odd_clock(pv_rng* rng) {
    static const uint64_t ODD[] = { 0, 1, PV_EPOCH - 1, PV_EPOCH + 1024 * PV_STEP, PV_EPOCH + 1024 * PV_STEP + 1, PV_EPOCH + 1024 * PV_STEP - 1, PV_EPOCH + 1025 * PV_STEP, PV_EPOCH + 2047 * PV_STEP + 5, 1ull << 32, (1ull << 32) + PV_EPOCH,
                                    1ull << 33, 1ull << 63, (1ull << 63) - 1, UINT64_MAX, UINT64_MAX - 1, 0xFFFFFFFF80000000ull, 1790000000000ull /* milliseconds */, 4328627904ull };
    uint32_t k = pv_randn(rng, (uint32_t)(sizeof ODD / sizeof *ODD) + 4);
    if (k < sizeof ODD / sizeof *ODD) return ODD[k];
    return k & 1 ? PV_EPOCH + 1024 * PV_STEP + pv_rand64(rng) % (4096 * PV_STEP) : pv_rand64(rng);
}

/* a seed with abstract value m by a rotating path (half of the time the plain load); counted per path */
polyseed_data* pv_seed_any_path(pv_rng* rng, const pv_mseed* m, unsigned coin) {
    static __thread unsigned rot;
    int how = 1;
    if (pv_randn(rng, 2)) { how = (int)(rot++ % PV_NPATHS); if (how == 0 && (m->features & 16)) how = 3; }
    polyseed_data* s = pv_seed_by_path(rng, m, how, coin);
    if (s) pv_countf(1, "seedpath.%s", pv_path_name[how]);
    else pv_countf(1, "seedpath.failed.%s", pv_path_name[how]);
    return s;
}


/* ------------------------------------------------------------------ concurrent sections of the functional drivers */
#include <pthread.h>
typedef struct conc_arg { int tid, iters, yield_pct; uint64_t seed; pv_conc_fn fn; void* user; pv_conc_result* res; pthread_barrier_t* bar; } conc_arg;
static void* conc_worker(void* p) {
    conc_arg* a = p;
    pv_world_init(a->seed + (uint64_t)a->tid * 0x9e3779b97f4a7c15ull);
    pv_w->yield_pct = a->yield_pct; pv_rng_seed(&pv_w->yield_rng, a->seed, (uint64_t)a->tid, 0x79);
    pv_rng r; pv_rng_seed(&r, a->seed, 0xc0c0, (uint64_t)a->tid);
    pthread_barrier_wait(a->bar);
    for (int i = 0; i < a->iters; ++i) {
        char err[400]; err[0] = 0;
        bool ok = a->fn(&r, i, a->user, err, sizeof err);
        if (ok) a->res->good++; else if (!a->res->bad++) snprintf(a->res->first, sizeof a->res->first, "thread %d, iteration %d: %s", a->tid, i, err);
        pv_w->nev = 0; pv_w->nkdf = 0; pv_w->fail_countdown = 0;
    }
    a->res->leaked = pv_w->nlive;
    pv_ledger_reclaim(0);
    free(pv_w); pv_w = NULL;
    return NULL;
}
void pv_concurrent(int nthreads, int iters, uint64_t seed, int yield_pct, pv_conc_fn fn, void* user, pv_conc_result* out) {
    pv_world* mainw = pv_w;
    pthread_t th[64]; conc_arg a[64]; pthread_barrier_t bar;
    if (nthreads > 64) nthreads = 64;
    pthread_barrier_init(&bar, NULL, (unsigned)nthreads);
    for (int t = 0; t < nthreads; ++t) {
        memset(&out[t], 0, sizeof out[t]);
        a[t] = (conc_arg){ t, iters, yield_pct, seed, fn, user, &out[t], &bar };
        if (pthread_create(&th[t], NULL, conc_worker, &a[t])) pv_fatal("pv_concurrent: pthread_create");
    }
    for (int t = 0; t < nthreads; ++t) pthread_join(th[t], NULL);
    pthread_barrier_destroy(&bar);
    pv_w = mainw;
}
bool pv_concurrent_verdict(const pv_conc_result* res, int nthreads, int iters, const char* vio_key, const char* counter) {
    bool clean = true; uint64_t good = 0;
    for (int t = 0; t < nthreads; ++t) {
        good += res[t].good;
        if (res[t].bad) { clean = false; pv_violation(vio_key, "%llu of %d iterations differ from the model while %d threads work on their own seeds at the same time; first: %s", (unsigned long long)res[t].bad, iters, nthreads, res[t].first); }
        if (res[t].leaked) { clean = false; pv_violation(vio_key, "thread %d ended with %d blocks still allocated", t, res[t].leaked); }
    }
    pv_count_dyn("evaluations", good); pv_count_dyn(counter, good);
    return clean;
}

#include <sys/wait.h>
#include <signal.h>
int pv_fork_case(int (*fn)(void* arg), void* arg, int seconds) {
    fflush(NULL);
    pid_t pid = fork();
    if (pid < 0) pv_fatal("fork failed");
    if (pid == 0) {
        /* the child reports through its exit status only: default signal dispositions, no result/crash files */
        int sigs[] = { SIGSEGV, SIGABRT, SIGBUS, SIGFPE, SIGILL, SIGALRM };
        for (unsigned i = 0; i < sizeof sigs / sizeof *sigs; ++i) signal(sigs[i], SIG_DFL);
        alarm((unsigned)seconds);
        int rc = fn(arg);
        _exit(rc & 0xff);
    }
    int st = 0;
    while (waitpid(pid, &st, 0) < 0) { }
    if (WIFEXITED(st)) return WEXITSTATUS(st);
    if (WIFSIGNALED(st)) return WTERMSIG(st) == SIGALRM ? -1000 : -WTERMSIG(st);
    return -999;
}

/* ------------------------------------------------------------------ generators */
void pv_gen_secret(pv_rng* r, uint8_t sec[PV_SECRET]) {
    uint32_t k = pv_randn(r, 16);
    memset(sec, 0, PV_SECRET);
    switch (k) {
    case 0: break;                                                   /* all zero */
    case 1: memset(sec, 0xff, PV_SECRET); break;                     /* all one */
    case 2: { int b = (int)pv_randn(r, 150); if (b < 144) sec[b / 8] = (uint8_t)(0x80 >> (b % 8)); else sec[18] = (uint8_t)(0x20 >> (b - 144)); break; }
    case 3: { for (int j = 0; j < 2; ++j) { int b = (int)pv_randn(r, 150); if (b < 144) sec[b / 8] |= (uint8_t)(0x80 >> (b % 8)); else sec[18] |= (uint8_t)(0x20 >> (b - 144)); } break; }
    case 4: memset(sec, 0x55, PV_SECRET); break;
    case 5: memset(sec, 0xaa, PV_SECRET); break;
    case 6: { pv_randbytes(r, sec, PV_SECRET); int b = (int)pv_randn(r, 19); sec[b] = pv_randn(r, 2) ? 0xff : 0x00; break; }
    case 7: { /* runs of ones straddling the 10-bit / 8-bit carry positions */
        int start = (int)pv_randn(r, 15) * 10 - 2 + (int)pv_randn(r, 5); int len = 1 + (int)pv_randn(r, 12);
        for (int b = start < 0 ? 0 : start; b < start + len && b < 150; ++b) { if (b < 144) sec[b / 8] |= (uint8_t)(0x80 >> (b % 8)); else sec[18] |= (uint8_t)(0x20 >> (b - 144)); }
        break; }
    default: pv_randbytes(r, sec, PV_SECRET); break;
    }
    sec[18] &= 0x3f;
}
unsigned pv_gen_birthday(pv_rng* r) {
    static const unsigned b[] = { 0, 1, 511, 512, 1023, 1022, 2, 256, 768 };
    if (pv_randn(r, 3) == 0) return b[pv_randn(r, sizeof b / sizeof *b)];
    return pv_randn(r, 1024);
}
unsigned pv_gen_coin(pv_rng* r) {
    static const unsigned c[] = { 0, 1, 2, 3, 1023, 1024, 2046, 2047, 255, 256 };
    if (pv_randn(r, 2) == 0) return c[pv_randn(r, sizeof c / sizeof *c)];
    return pv_randn(r, 2048);
}
void pv_gen_mseed(pv_rng* r, unsigned enabled, bool allow_encrypted, pv_mseed* s) {
    pv_gen_secret(r, s->secret);
    s->birthday = pv_gen_birthday(r);
    s->features = pv_randn(r, 8) & enabled & 7;
    if (allow_encrypted && pv_randn(r, 3) == 0) s->features |= 16;
}

bool pv_gen_place(pv_rng* r, int p, unsigned i, unsigned coin, bool loadable, unsigned enabled, unsigned d[16], pv_mseed* seed_out) {
    unsigned c[16];
    for (int k = 1; k < 16; ++k) c[k] = pv_randn(r, 2048);
    if (p >= 2) c[p] = i & 2047;
    else if (p == 1) c[1] = (i ^ coin) & 2047;
    if (loadable) {
        /* low bits of c[1..5] are feature bits 4..0 (MSB first): c[2] = reserved, c[3..5] = user bits 2..0 */
        bool ok = true;
        if (c[2] & 1) { if (p == 2) ok = false; else c[2] &= ~1u; }
        for (int k = 3; k <= 5; ++k) {
            unsigned fbit = 1u << (5 - k);
            if ((c[k] & 1) && !(enabled & fbit)) { if (p == k) ok = false; else c[k] &= ~1u; }
        }
        if (!ok) return false;
    }
    if (p == 0) c[1] = pv_m_solve_c1(c, i & 2047);
    c[0] = pv_m_checkvalue(c);
    if (seed_out) pv_m_unpack(c, seed_out);
    memcpy(d, c, sizeof c);
    d[1] ^= coin & 2047;
    return true;
}

static unsigned* ov_idx[PV_MAXLANG][PV_MAXLANG]; static int ov_n[PV_MAXLANG][PV_MAXLANG]; static bool ov_done[PV_MAXLANG][PV_MAXLANG];
static bool (*ov_member)[PV_MAXLANG][PV_NWORDS];     /* heap: keeps the static data segment small (C16 scans it) */
int pv_overlap(int a, int b, const unsigned** idx_out) {
    if (!ov_member) { ov_member = calloc(PV_MAXLANG, sizeof *ov_member); if (!ov_member) pv_fatal("oom"); }
    if (!ov_done[a][b]) {
        unsigned* v = pv_xmalloc(PV_NWORDS * sizeof *v); int n = 0;
        for (unsigned i = 0; i < PV_NWORDS; ++i) {
            int idx, nm;
            if (pv_m_match_cp(&pv_langs[b], pv_langs[a].cp[i], pv_langs[a].ncp[i], &idx, &nm) == PV_ACCEPT) { v[n++] = i; ov_member[a][b][i] = true; }
        }
        ov_idx[a][b] = v; ov_n[a][b] = n; ov_done[a][b] = true;
    }
    if (idx_out) *idx_out = ov_idx[a][b];
    return ov_n[a][b];
}
bool pv_gen_ambiguous(pv_rng* r, int a, int b, unsigned coin, unsigned enabled, unsigned d[16], pv_mseed* seed_out) {
    const unsigned* S; int n = pv_overlap(a, b, &S);
    if (n < 2) return false;
    /* pairs that share too few words for a checksum-valid phrase to be found are remembered (not thread-safe: only the
     * single-threaded drivers construct ambiguous phrases) */
    static int fails[PV_MAXLANG][PV_MAXLANG]; static bool ever[PV_MAXLANG][PV_MAXLANG];
    if (!ever[a][b] && fails[a][b] >= 3) return false;
    for (int attempt = 0; attempt < 400; ++attempt) {
        unsigned c[16]; bool ok = true;
        for (int k = 2; k < 16 && ok; ++k) {
            int tries = 0;
            do { c[k] = S[pv_randn(r, (uint32_t)n)]; ++tries; }
            while (tries < 64 && ((k == 2 && (c[k] & 1)) || (k >= 3 && k <= 5 && (c[k] & 1) && !(enabled & (1u << (5 - k))))));
            if (tries >= 64) ok = false;
        }
        if (!ok) continue;
        int start = (int)pv_randn(r, (uint32_t)n);
        for (int t = 0; t < n; ++t) {
            unsigned w1 = S[(start + t) % n];          /* the word shown at position 2 */
            c[1] = (w1 ^ coin) & 2047;
            c[0] = pv_m_checkvalue(c);
            if (ov_member[a][b][c[0]]) {
                if (seed_out) pv_m_unpack(c, seed_out);
                memcpy(d, c, sizeof c); d[1] ^= coin & 2047;
                ever[a][b] = true;
                return true;
            }
        }
    }
    fails[a][b]++;
    return false;
}

/* ------------------------------------------------------------------ static-storage monitor */
typedef struct srange { uint8_t* lo; size_t len; char obj[48]; char sec[16]; bool tls; size_t tls_off; uint8_t* snap; uint8_t* once; } srange;
static srange sr[128]; static int nsr; static size_t static_skipped_bytes;
static uintptr_t exe_base; static size_t tls_memsz, tls_align, tls_vaddr; static bool have_tls;
static int phdr_cb(struct dl_phdr_info* info, size_t size, void* data) {
    (void)size; (void)data;
    if (exe_base == (uintptr_t)-1) {          /* first entry = the main executable */
        exe_base = info->dlpi_addr;
        for (int i = 0; i < info->dlpi_phnum; ++i) if (info->dlpi_phdr[i].p_type == PT_TLS) { tls_memsz = info->dlpi_phdr[i].p_memsz; tls_align = info->dlpi_phdr[i].p_align; tls_vaddr = info->dlpi_phdr[i].p_vaddr; have_tls = true; }
    }
    return 0;
}
static uint8_t* tls_addr(size_t off) {
    /* x86-64 variant II static TLS: the executable's block ends at the thread pointer */
    if (!have_tls) return NULL;
    size_t a = tls_align ? tls_align : 1; size_t blk = (tls_memsz + a - 1) / a * a;
    uint8_t* tp;
#if defined(__x86_64__)
    __asm__("mov %%fs:0, %0" : "=r"(tp));
#else
    tp = (uint8_t*)__builtin_thread_pointer();
#endif
    return tp - blk + off;
}
int pv_static_init(void) {
    const char* path = getenv("PV_LINKMAP");
    nsr = 0;
    if (!path || getenv("PV_NO_STATIC_MONITOR")) return 0;      /* MemorySanitizer keeps origin descriptors in the objects' .data: not the library's state */
    FILE* f = fopen(path, "r");
    if (!f) return 0;
    exe_base = (uintptr_t)-1; dl_iterate_phdr(phdr_cb, NULL);
    char line[4096], pending[64] = "";
    while (fgets(line, sizeof line, f)) {
        char sec[128]; unsigned long long addr, len; char obj[2048];
        int n = sscanf(line, " %127s 0x%llx 0x%llx %2047s", sec, &addr, &len, obj);
        if (n == 1 && sec[0] == '.') { snprintf(pending, sizeof pending, "%.60s", sec); continue; }        /* long section name: address on the next line */
        if (n != 4) { n = sscanf(line, " 0x%llx 0x%llx %2047s", &addr, &len, obj); if (n == 3 && pending[0]) { snprintf(sec, sizeof sec, "%s", pending); n = 4; } }
        pending[0] = 0;
        if (n != 4 || len == 0) continue;
        const char* base = strrchr(obj, '/'); base = base ? base + 1 : obj;
        if (strncmp(base, "lib_", 4)) continue;
        bool data = !strcmp(sec, ".data") || !strncmp(sec, ".data.", 6), bss = !strcmp(sec, ".bss") || !strncmp(sec, ".bss.", 5);
        bool tls = !strcmp(sec, ".tbss") || !strncmp(sec, ".tbss.", 6) || !strcmp(sec, ".tdata") || !strncmp(sec, ".tdata.", 7);
        if (!strncmp(sec, ".data.rel.ro", 12)) continue;                              /* constant after relocation (word tables) */
        if (!(data || bss || tls) || nsr >= 128) continue;
        if (len > 16384) { static_skipped_bytes += (size_t)len; continue; }          /* relocated constant tables (word-pointer arrays, sanitizer metadata): far too large for per-call comparison and never scratch space */
        srange* r = &sr[nsr++];
        memset(r, 0, sizeof *r);
        snprintf(r->obj, sizeof r->obj, "%.47s", base); snprintf(r->sec, sizeof r->sec, "%.15s", sec);
        r->len = (size_t)len; r->tls = tls;
        if (tls) { if (!have_tls || addr < tls_vaddr || addr - tls_vaddr + len > tls_memsz) { --nsr; continue; } r->tls_off = (size_t)(addr - tls_vaddr); }
        else r->lo = (uint8_t*)(exe_base + (uintptr_t)addr);
        r->snap = malloc(r->len); r->once = calloc(r->len, 1);
    }
    fclose(f);
    return nsr;
}
static uint8_t* range_ptr(const srange* r) { return r->tls ? tls_addr(r->tls_off) : r->lo; }
/* plain byte loops / memcmp on purpose: the ranges include sanitizer red zones between globals */
__attribute__((no_sanitize("address")))
static bool range_equal(const uint8_t* p, const uint8_t* q, size_t n) {
    size_t i = 0;
    for (; i + 8 <= n; i += 8) { uint64_t a, b; __builtin_memcpy(&a, p + i, 8); __builtin_memcpy(&b, q + i, 8); if (a != b) return false; }
    for (; i < n; ++i) if (p[i] != q[i]) return false;
    return true;
}
/* Rule: a byte of the library's static / thread-local storage may change ONCE in the life of the process outside
 * polyseed_inject / polyseed_enable_features (one-time lazy initialisation of a derived table is invisible to every caller and is
 * tolerated here; whether it is race-free is C20's business).  A byte that changes a second time is mutable hidden state: a cache,
 * a "last used" hint, a counter, a scratch buffer that is filled and wiped.  The probe also runs inside the dependency callbacks,
 * where a scratch buffer is caught while it is in use. */
static bool st_pending; static char st_msg[200];
__attribute__((no_sanitize("address")))
static void static_scan(const char* where) {
    uint64_t once_bytes = 0;
    for (int i = 0; i < nsr; ++i) {
        const uint8_t* p = range_ptr(&sr[i]); if (!p || !sr[i].snap) continue;
        if (range_equal(p, sr[i].snap, sr[i].len)) continue;
        for (size_t k = 0; k < sr[i].len; ++k) if (p[k] != sr[i].snap[k]) {
            if (sr[i].once[k]) { if (!st_pending) { st_pending = true; snprintf(st_msg, sizeof st_msg, "%s %s+%zu (%zu-byte %s range) changed again%s", sr[i].obj, sr[i].sec, k, sr[i].len, sr[i].tls ? "thread-local" : "static", where); } }
            else { sr[i].once[k] = 1; ++once_bytes; }
            sr[i].snap[k] = p[k];
        }
    }
    if (once_bytes) pv_count_dyn("static_storage.bytes_that_changed_once(tolerated: one-time initialisation)", once_bytes);
}
uint64_t pv_static_digest(void) { static_scan(""); bool r = st_pending; st_pending = false; return r ? 1 : 0; }   /* 0 = nothing changed a second time since the last call */
bool pv_static_probe_in_callbacks;
void pv_static_stub_probe(void) { static unsigned n; if (nsr && (++n % 6) == 0) static_scan(" (seen inside a dependency callback)"); }     /* a sample of the callbacks: a scratch buffer is in use during every one of them */
__attribute__((no_sanitize("address")))
void pv_static_snapshot(void) { for (int i = 0; i < nsr; ++i) { const uint8_t* p = range_ptr(&sr[i]); if (p && sr[i].snap) for (size_t k = 0; k < sr[i].len; ++k) sr[i].snap[k] = p[k]; } }
const char* pv_static_diff(void) { return st_msg; }


void pv_lang_length_range(const pv_mlang* L, long* min_total, long* max_total) {
    long mn = 0, mx = 0;
    for (int p = 0; p < 16; ++p) {
        int lo = 1 << 30, hi = 0;
        for (unsigned i = 0; i < PV_NWORDS; ++i) { if (p == 2 && (i & 1)) continue; if (L->len[i] < lo) lo = L->len[i]; if (L->len[i] > hi) hi = L->len[i]; }
        mn += lo; mx += hi;
    }
    *min_total = mn + 15; *max_total = mx + 15;
}
bool pv_gen_exact_length(pv_rng* r, const pv_mlang* L, unsigned coin, long target, unsigned enabled, unsigned d[16], pv_mseed* seed_out) {
    int lo = 1 << 30, hi = 0;
    for (unsigned i = 0; i < PV_NWORDS; ++i) { if (L->len[i] < lo) lo = L->len[i]; if (L->len[i] > hi) hi = L->len[i]; }
    for (int attempt = 0; attempt < 60; ++attempt) {
        unsigned c[16]; long rem = target - 15; bool ok = true;
        for (int k = 15; k >= 2 && ok; --k) {
            long left = k;                                  /* positions k-1 .. 0 still to fill after this one */
            long need_lo = rem - (long)hi * left, need_hi = rem - (long)lo * left;
            if (need_lo < lo) need_lo = lo;
            if (need_hi > hi) need_hi = hi;
            if (need_lo > need_hi) { ok = false; break; }
            /* stay near the average that the rest of the phrase needs, so that the last two words (of which the check
             * word cannot be chosen freely) are left with an ordinary length and not an extreme one */
            { long avg = rem / (left + 1), dl = (hi - lo) / 4 + 3;
              if (avg - dl > need_lo) need_lo = avg - dl;
              if (avg + dl < need_hi) need_hi = avg + dl;
              if (need_lo > need_hi) { need_lo = need_hi = avg; } }
            /* a random admissible word whose length is inside the feasible window (bucketed by length, so that windows
             * that only the few longest or shortest words satisfy are hit as well) */
            unsigned pick = 0; bool found = false;
            {
                static unsigned short* bucket[PV_MAXLANG][128]; static int bn[PV_MAXLANG][128]; static bool built[PV_MAXLANG];
                int li = (int)(L - pv_langs);
                if (!built[li]) {
                    for (unsigned i = 0; i < PV_NWORDS; ++i) { int ln = L->len[i] < 127 ? L->len[i] : 127; bn[li][ln]++; }
                    for (int ln = 0; ln < 128; ++ln) { bucket[li][ln] = bn[li][ln] ? pv_xmalloc((size_t)bn[li][ln] * sizeof(unsigned short)) : NULL; bn[li][ln] = 0; }
                    for (unsigned i = 0; i < PV_NWORDS; ++i) { int ln = L->len[i] < 127 ? L->len[i] : 127; bucket[li][ln][bn[li][ln]++] = (unsigned short)i; }
                    built[li] = true;
                }
                long total = 0; for (long ln = need_lo; ln <= need_hi && ln < 128; ++ln) total += bn[li][ln];
                for (int t = 0; t < 40 && !found && total > 0; ++t) {
                    long pos = (long)pv_randn(r, (uint32_t)total); unsigned i = 0;
                    for (long ln = need_lo; ln <= need_hi && ln < 128; ++ln) { if (pos < bn[li][ln]) { i = bucket[li][ln][pos]; break; } pos -= bn[li][ln]; }
                    if (k == 2 && (i & 1)) continue;
                    if (k >= 3 && k <= 5 && (i & 1) && !(enabled & (1u << (5 - k)))) continue;
                    pick = i; found = true;
                }
            }
            if (!found) { ok = false; break; }
            c[k] = pick; rem -= L->len[pick];
        }
        if (!ok) continue;
        unsigned start = pv_randn(r, 2048);
        for (unsigned t = 0; t < 2048; ++t) {
            unsigned x = (start + t) & 2047;
            c[1] = x; c[0] = pv_m_checkvalue(c);
            if ((long)L->len[(x ^ coin) & 2047] + (long)L->len[c[0]] == rem) {
                if (seed_out) pv_m_unpack(c, seed_out);
                memcpy(d, c, sizeof c); d[1] ^= coin & 2047;
                return true;
            }
        }
    }
    return false;
}

bool pv_gen_from_set(pv_rng* r, const unsigned* S, int n, unsigned coin, unsigned enabled, unsigned d[16], pv_mseed* seed_out) {
    if (n < 2) return false;
    static uint8_t member[PV_NWORDS];
    memset(member, 0, sizeof member);
    for (int i = 0; i < n; ++i) member[S[i] & 2047] = 1;
    for (int attempt = 0; attempt < 300; ++attempt) {
        unsigned c[16]; bool ok = true;
        for (int k = 2; k < 16 && ok; ++k) {
            int tries = 0;
            do { c[k] = S[pv_randn(r, (uint32_t)n)]; ++tries; }
            while (tries < 64 && ((k == 2 && (c[k] & 1)) || (k >= 3 && k <= 5 && (c[k] & 1) && !(enabled & (1u << (5 - k))))));
            if (tries >= 64) ok = false;
        }
        if (!ok) continue;
        int start = (int)pv_randn(r, (uint32_t)n);
        for (int t = 0; t < n; ++t) {
            unsigned w1 = S[(start + t) % n];
            c[1] = (w1 ^ coin) & 2047;
            c[0] = pv_m_checkvalue(c);
            if (member[c[0]]) { if (seed_out) pv_m_unpack(c, seed_out); memcpy(d, c, sizeof c); d[1] ^= coin & 2047; return true; }
        }
    }
    return false;
}
