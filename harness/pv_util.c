/* pv_util.c — PRNG, result records, section runner, crash/sanitizer hooks */
#define _GNU_SOURCE
#include "pv.h"
#include <sys/mman.h>
#include <signal.h>
#include <unistd.h>
#include <fcntl.h>
#include <errno.h>
#include <time.h>
#include <pthread.h>
#include <locale.h>

pv_ctx pv = { .prop = "?", .nshards = 1, .scale_pct = 100 };
__thread pv_cur_t pv_cur;

/* ------------------------------------------------------------------ PRNG */
static uint64_t splitmix(uint64_t* x) {
    uint64_t z = (*x += 0x9e3779b97f4a7c15ull);
    z = (z ^ (z >> 30)) * 0xbf58476d1ce4e5b9ull;
    z = (z ^ (z >> 27)) * 0x94d049bb133111ebull;
    return z ^ (z >> 31);
}
void pv_rng_seed(pv_rng* r, uint64_t a, uint64_t b, uint64_t c) {
    uint64_t x = a * 0x9e3779b97f4a7c15ull ^ pv_mix(b, c) ^ 0x5851f42d4c957f2dull;
    x = pv_mix(x, a); x = pv_mix(x, b); x = pv_mix(x, c);
    for (int i = 0; i < 4; ++i) r->s[i] = splitmix(&x);
}
static inline uint64_t rotl(uint64_t x, int k) { return (x << k) | (x >> (64 - k)); }
uint64_t pv_rand64(pv_rng* r) {
    uint64_t* s = r->s;
    uint64_t result = rotl(s[1] * 5, 7) * 9, t = s[1] << 17;
    s[2] ^= s[0]; s[3] ^= s[1]; s[1] ^= s[2]; s[0] ^= s[3]; s[2] ^= t; s[3] = rotl(s[3], 45);
    return result;
}
uint32_t pv_randn(pv_rng* r, uint32_t n) { return (uint32_t)(((pv_rand64(r) >> 32) * (uint64_t)n) >> 32); }
void pv_randbytes(pv_rng* r, void* dst, size_t n) {
    uint8_t* p = dst;
    while (n) { uint64_t v = pv_rand64(r); size_t k = n < 8 ? n : 8; memcpy(p, &v, k); p += k; n -= k; }
}
uint64_t pv_hash(const void* data, size_t n, uint64_t seed) {
    const uint8_t* p = data; uint64_t h = 0xcbf29ce484222325ull ^ seed;
    for (size_t i = 0; i < n; ++i) { h ^= p[i]; h *= 0x100000001b3ull; }
    h ^= h >> 29; h *= 0xbf58476d1ce4e5b9ull; h ^= h >> 32;
    return h;
}
uint64_t pv_hash_str(const char* s) { return pv_hash(s, strlen(s), 0); }

/* ------------------------------------------------------------------ small helpers */
void* pv_xmalloc(size_t n) { void* p = malloc(n ? n : 1); if (!p) { fprintf(stderr, "pv: out of memory\n"); _exit(2); } return p; }
char* pv_exact_str(const char* s) { size_t n = strlen(s); char* p = pv_xmalloc(n + 1); memcpy(p, s, n + 1); return p; }

#define NROT 16
#define ROTSZ 4608
static __thread char rot[NROT][ROTSZ]; static __thread int rot_i;
static char* rotbuf(void) { rot_i = (rot_i + 1) % NROT; return rot[rot_i]; }
char* pv_hex(const void* p, size_t n) {
    char* b = rotbuf(); const uint8_t* u = p; size_t k = 0;
    for (size_t i = 0; i < n && k + 3 < ROTSZ; ++i) k += (size_t)sprintf(b + k, "%02x", u[i]);
    b[k] = 0; return b;
}
int pv_unhex(const char* s, uint8_t* out, size_t cap) {
    size_t n = 0;
    while (s[0] && s[1]) { unsigned v; if (n >= cap || sscanf(s, "%2x", &v) != 1) return -1; out[n++] = (uint8_t)v; s += 2; }
    return (int)n;
}
char* pv_escn(const void* sv, size_t n) {
    char* b = rotbuf(); const unsigned char* s = sv; size_t k = 0;
    for (size_t i = 0; i < n && k + 8 < ROTSZ; ++i) {
        unsigned char c = s[i];
        if (c == '"' || c == '\\') { b[k++] = '\\'; b[k++] = (char)c; }
        else if (c < 0x20 || c == 0x7f) k += (size_t)sprintf(b + k, "\\u%04x", c);
        else b[k++] = (char)c;       /* UTF-8 bytes pass through; invalid sequences are repaired by the orchestrator */
    }
    if (n && k + 8 >= ROTSZ) { memcpy(b + k, "...", 3); k += 3; }
    b[k] = 0; return b;
}
char* pv_esc(const char* s) { return pv_escn(s, strlen(s)); }

/* ------------------------------------------------------------------ counters */
#define MAXCNT 1024
static struct { char* name; uint64_t v; } cnt[MAXCNT]; static int ncnt;
static pthread_mutex_t rec_mu = PTHREAD_MUTEX_INITIALIZER;
int pv_counter_id(const char* name) {
    pthread_mutex_lock(&rec_mu);
    int i;
    for (i = 0; i < ncnt; ++i) if (!strcmp(cnt[i].name, name)) break;
    if (i == ncnt) {
        if (ncnt == MAXCNT) { pthread_mutex_unlock(&rec_mu); pv_fatal("too many counters"); }
        cnt[ncnt].name = strdup(name); cnt[ncnt].v = 0; ++ncnt;
    }
    pthread_mutex_unlock(&rec_mu);
    return i;
}
void pv_counter_add(int id, uint64_t n) { __atomic_fetch_add(&cnt[id].v, n, __ATOMIC_RELAXED); }
void pv_count_dyn(const char* name, uint64_t n) { pv_counter_add(pv_counter_id(name), n); }
void pv_countf(uint64_t n, const char* fmt, ...) {
    char b[256]; va_list ap; va_start(ap, fmt); vsnprintf(b, sizeof b, fmt, ap); va_end(ap);
    pv_count_dyn(b, n);
}
void pv_maxf(uint64_t v, const char* fmt, ...) {
    char b[256] = "max."; va_list ap; va_start(ap, fmt); vsnprintf(b + 4, sizeof b - 4, fmt, ap); va_end(ap);
    int id = pv_counter_id(b);
    pthread_mutex_lock(&rec_mu);
    if (cnt[id].v < v) cnt[id].v = v;
    pthread_mutex_unlock(&rec_mu);
}
uint64_t pv_counter_get(const char* name) {
    for (int i = 0; i < ncnt; ++i) if (!strcmp(cnt[i].name, name)) return cnt[i].v;
    return 0;
}

/* ------------------------------------------------------------------ distinct sets (open addressing) */
#define MAXSET 32
#define SETCAP_MAX (1u << 21)
typedef struct { char* name; uint64_t* tab; size_t cap, n; uint64_t dropped; bool has_zero; } hset;
static hset sets[MAXSET]; static int nsets;
int pv_set_id(const char* name) {
    pthread_mutex_lock(&rec_mu);
    int i;
    for (i = 0; i < nsets; ++i) if (!strcmp(sets[i].name, name)) break;
    if (i == nsets) {
        if (nsets == MAXSET) { pthread_mutex_unlock(&rec_mu); pv_fatal("too many sets"); }
        sets[i].name = strdup(name); sets[i].cap = 1024; sets[i].tab = calloc(1024, 8); sets[i].n = 0; ++nsets;
    }
    pthread_mutex_unlock(&rec_mu);
    return i;
}
static void hset_put(hset* s, uint64_t h) {
    size_t m = s->cap - 1, i = (size_t)(h * 0x9e3779b97f4a7c15ull >> 20) & m;
    while (s->tab[i]) { if (s->tab[i] == h) return; i = (i + 1) & m; }
    s->tab[i] = h; s->n++;
}
void pv_set_add(int id, uint64_t h) {
    pthread_mutex_lock(&rec_mu);
    hset* s = &sets[id];
    if (h == 0) { s->has_zero = true; pthread_mutex_unlock(&rec_mu); return; }
    if ((s->n + 1) * 10 > s->cap * 7) {
        if (s->cap >= SETCAP_MAX) { s->dropped++; pthread_mutex_unlock(&rec_mu); return; }
        uint64_t* old = s->tab; size_t oc = s->cap;
        s->cap *= 2; s->tab = calloc(s->cap, 8); s->n = 0;
        if (!s->tab) { pthread_mutex_unlock(&rec_mu); pv_fatal("oom set"); }
        for (size_t i = 0; i < oc; ++i) if (old[i]) hset_put(s, old[i]);
        free(old);
    }
    hset_put(s, h);
    pthread_mutex_unlock(&rec_mu);
}

/* ------------------------------------------------------------------ samples / violations / info */
#define MAXSAMP 160
#define SAMP_PER_CLASS 2
static struct { char* cls; char* text; } samp[MAXSAMP]; static int nsamp;
void pv_sample(const char* cls, const char* fmt, ...) {
    pthread_mutex_lock(&rec_mu);
    int k = 0;
    for (int i = 0; i < nsamp; ++i) if (!strcmp(samp[i].cls, cls)) ++k;
    if (k >= SAMP_PER_CLASS || nsamp == MAXSAMP) { pthread_mutex_unlock(&rec_mu); return; }
    char b[6000]; va_list ap; va_start(ap, fmt); vsnprintf(b, sizeof b, fmt, ap); va_end(ap);
    samp[nsamp].cls = strdup(cls); samp[nsamp].text = strdup(b); ++nsamp;
    pthread_mutex_unlock(&rec_mu);
}
#define MAXVIO 256
static struct { char* key; char* detail[3]; char* sect[3]; uint64_t idx[3]; uint64_t n; } vio[MAXVIO]; static int nvio;
static uint64_t vio_total;
void pv_violation(const char* key, const char* fmt, ...) {
    char b[12000]; va_list ap; va_start(ap, fmt); vsnprintf(b, sizeof b, fmt, ap); va_end(ap);
    pthread_mutex_lock(&rec_mu);
    ++vio_total;
    int i;
    for (i = 0; i < nvio; ++i) if (!strcmp(vio[i].key, key)) break;
    if (i == nvio) {
        if (nvio == MAXVIO) { pthread_mutex_unlock(&rec_mu); return; }
        vio[i].key = strdup(key); vio[i].n = 0; ++nvio;
    }
    if (vio[i].n < 3) {
        vio[i].detail[vio[i].n] = strdup(b);
        vio[i].sect[vio[i].n] = strdup(pv_cur.section ? pv_cur.section : "");
        vio[i].idx[vio[i].n] = pv_cur.idx;
    }
    vio[i].n++;
    pthread_mutex_unlock(&rec_mu);
    if (pv.verbose) fprintf(stderr, "VIOLATION-DETAIL key=%s section=%s idx=%llu: %s\n", key,
                            pv_cur.section ? pv_cur.section : "", (unsigned long long)pv_cur.idx, b);
}
uint64_t pv_violation_count(void) { return vio_total; }
#define MAXINFO 128
static struct { char* key; char* text; } info[MAXINFO]; static int ninfo;
void pv_info(const char* key, const char* fmt, ...) {
    char b[4000]; va_list ap; va_start(ap, fmt); vsnprintf(b, sizeof b, fmt, ap); va_end(ap);
    pthread_mutex_lock(&rec_mu);
    int i;
    for (i = 0; i < ninfo; ++i) if (!strcmp(info[i].key, key)) break;
    if (i == ninfo) { if (ninfo == MAXINFO) { pthread_mutex_unlock(&rec_mu); return; } info[i].key = strdup(key); info[i].text = NULL; ++ninfo; }
    free(info[i].text); info[i].text = strdup(b);
    pthread_mutex_unlock(&rec_mu);
}
static struct { char* name; int v; } flags[64]; static int nflags;
void pv_set_flag(const char* name, int v) {
    for (int i = 0; i < nflags; ++i) if (!strcmp(flags[i].name, name)) { flags[i].v = v; return; }
    if (nflags < 64) { flags[nflags].name = strdup(name); flags[nflags].v = v; ++nflags; }
}
/* transcripts: one digest per case, compared across builds by the orchestrator */
static struct trow { const char* sec; uint64_t idx, h; }* trows; static size_t ntrows, captrows;
void pv_transcript(uint64_t h) {
    pthread_mutex_lock(&rec_mu);
    if (ntrows == captrows) { captrows = captrows ? captrows * 2 : 4096; trows = realloc(trows, captrows * sizeof *trows); if (!trows) { pthread_mutex_unlock(&rec_mu); pv_fatal("oom transcript"); } }
    trows[ntrows].sec = pv_cur.section; trows[ntrows].idx = pv_cur.idx; trows[ntrows].h = h; ++ntrows;
    pthread_mutex_unlock(&rec_mu);
}
void pv_tlog(const char* fmt, ...) {
    if (!pv.verbose) return;
    va_list ap; va_start(ap, fmt); fputs("T| ", stdout); vfprintf(stdout, fmt, ap); fputc('\n', stdout); va_end(ap);
}
void pv_fatal(const char* fmt, ...) {
    va_list ap; va_start(ap, fmt);
    fprintf(stderr, "PV-HARNESS-FAILURE (%s): ", pv.prop); vfprintf(stderr, fmt, ap); fprintf(stderr, "\n");
    va_end(ap);
    _exit(2);
}

/* ------------------------------------------------------------------ result file */
static void jstr(FILE* f, const char* s) { fputc('"', f); fputs(pv_esc(s), f); fputc('"', f); }
static void jstr_long(FILE* f, const char* s) {
    fputc('"', f);
    for (const unsigned char* p = (const unsigned char*)s; *p; ++p) {
        if (*p == '"' || *p == '\\') { fputc('\\', f); fputc(*p, f); }
        else if (*p < 0x20 || *p == 0x7f) fprintf(f, "\\u%04x", *p);
        else fputc(*p, f);
    }
    fputc('"', f);
}
static void write_result(bool complete, const char* resume_sec, uint64_t resume_idx) {
    if (!pv.out_path) return;
    char tmp[4096]; snprintf(tmp, sizeof tmp, "%s.tmp", pv.out_path);
    FILE* f = fopen(tmp, "w");
    if (!f) { fprintf(stderr, "pv: cannot write %s\n", tmp); _exit(2); }
    fprintf(f, "{\"prop\":"); jstr(f, pv.prop);
    fprintf(f, ",\"shard\":%d,\"nshards\":%d,\"seed\":%llu,\"tier\":%d,\"complete\":%s", pv.shard, pv.nshards,
            (unsigned long long)pv.seed, pv.tier, complete ? "true" : "false");
    if (resume_sec) { fprintf(f, ",\"resume\":"); jstr(f, resume_sec); fprintf(f, ",\"resume_idx\":%llu", (unsigned long long)resume_idx); }
    fprintf(f, ",\n\"counters\":{");
    for (int i = 0; i < ncnt; ++i) { if (i) fputc(',', f); jstr(f, cnt[i].name); fprintf(f, ":%llu", (unsigned long long)cnt[i].v); }
    fprintf(f, "},\n\"flags\":{");
    for (int i = 0; i < nflags; ++i) { if (i) fputc(',', f); jstr(f, flags[i].name); fprintf(f, ":%s", flags[i].v ? "true" : "false"); }
    fprintf(f, "},\n\"sets\":{");
    for (int i = 0; i < nsets; ++i) {
        if (i) fputc(',', f);
        jstr(f, sets[i].name);
        fprintf(f, ":{\"n\":%llu,\"dropped\":%llu}", (unsigned long long)(sets[i].n + (sets[i].has_zero ? 1 : 0)), (unsigned long long)sets[i].dropped);
        char sp[4200]; snprintf(sp, sizeof sp, "%s.set.%s.h64", pv.out_path, sets[i].name);
        FILE* g = fopen(sp, "wb");
        if (g) {
            uint64_t z = 0;
            if (sets[i].has_zero) fwrite(&z, 8, 1, g);
            for (size_t k = 0; k < sets[i].cap; ++k) if (sets[i].tab[k]) fwrite(&sets[i].tab[k], 8, 1, g);
            fclose(g);
        }
    }
    fprintf(f, "},\n\"samples\":[");
    for (int i = 0; i < nsamp; ++i) { if (i) fputc(',', f); fprintf(f, "{\"class\":"); jstr(f, samp[i].cls); fprintf(f, ",\"case\":"); jstr_long(f, samp[i].text); fputc('}', f); }
    fprintf(f, "],\n\"info\":{");
    for (int i = 0; i < ninfo; ++i) { if (i) fputc(',', f); jstr(f, info[i].key); fputc(':', f); jstr_long(f, info[i].text); }
    fprintf(f, "},\n\"violations\":[");
    for (int i = 0; i < nvio; ++i) {
        if (i) fputc(',', f);
        fprintf(f, "{\"key\":"); jstr(f, vio[i].key); fprintf(f, ",\"count\":%llu,\"cases\":[", (unsigned long long)vio[i].n);
        for (uint64_t k = 0; k < vio[i].n && k < 3; ++k) {
            if (k) fputc(',', f);
            fprintf(f, "{\"section\":"); jstr(f, vio[i].sect[k]); fprintf(f, ",\"idx\":%llu,\"detail\":", (unsigned long long)vio[i].idx[k]);
            jstr_long(f, vio[i].detail[k]); fputc('}', f);
        }
        fprintf(f, "]}");
    }
    fprintf(f, "]}\n");
    fclose(f);
    if (ntrows) {
        char tp[4200]; snprintf(tp, sizeof tp, "%s.transcript", pv.out_path);
        FILE* g = fopen(tp, "w");
        if (g) { for (size_t i = 0; i < ntrows; ++i) fprintf(g, "%s %llu %016llx\n", trows[i].sec, (unsigned long long)trows[i].idx, (unsigned long long)trows[i].h); fclose(g); }
    }
    rename(tmp, pv.out_path);
}

/* ------------------------------------------------------------------ crash handling */
static void write_result(bool complete, const char* resume_sec, uint64_t resume_idx);
static int crash_fd = -1;
static volatile sig_atomic_t final_written;      /* the complete result file exists: never overwrite it from a handler */
static volatile sig_atomic_t crash_written;
static void wr(const char* s) { if (crash_fd >= 0) { ssize_t r = write(crash_fd, s, strlen(s)); (void)r; } }
static void wru(uint64_t v) { char b[24]; int i = 23; b[i] = 0; do { b[--i] = (char)('0' + v % 10); v /= 10; } while (v); wr(b + i); }
__attribute__((no_sanitize("address", "undefined")))
static void write_crash(const char* kind, const char* extra) {
    if (crash_written) return;
    crash_written = 1;
    wr("kind="); wr(kind); wr("\nextra="); wr(extra ? extra : ""); wr("\nsection="); wr(pv_cur.section ? pv_cur.section : "");
    wr("\nidx="); wru(pv_cur.idx); wr("\napi="); wr(pv_cur.api ? (const char*)pv_cur.api : "(none)");
    wr("\nnote="); wr(pv_cur.note ? (const char*)pv_cur.note : "");
    wr("\ninput=");
    const uint8_t* p = (const uint8_t*)pv_cur.in_ptr; size_t n = pv_cur.in_len;
    if (p) { if (n > 1500) n = 1500; for (size_t i = 0; i < n; ++i) { char h[3] = { "0123456789abcdef"[p[i] >> 4], "0123456789abcdef"[p[i] & 15], 0 }; wr(h); } }
    wr("\nend\n");
    /* best effort: keep what this process had observed so far (not async-signal-safe; the crash record above is) */
    static volatile sig_atomic_t partial_done;
    if (!partial_done && !final_written) { partial_done = 1; alarm(20); write_result(false, pv_cur.section, pv_cur.idx); }
}
const char* pv_last_api;                  /* relaxed atomic: the library call most recently begun on any thread and not yet finished (diagnostic only) */
const char* (*pv_hang_probe)(void);       /* multi-threaded drivers: which library call some worker thread is stuck in (the alarm lands on any thread) */
static void on_signal(int sig) {
    if (sig == SIGALRM && pv_cur.api == NULL) {
        const char* a = pv_hang_probe ? pv_hang_probe() : NULL;
        if (!a) a = __atomic_load_n(&pv_last_api, __ATOMIC_RELAXED);         /* a call begun on another thread (C16 trampolines, C04/C14 worker threads) and not finished */
        if (a) pv_cur.api = a;
    }
    const char* k = sig == SIGSEGV ? "SIGSEGV" : sig == SIGABRT ? "SIGABRT" : sig == SIGBUS ? "SIGBUS" : sig == SIGFPE ? "SIGFPE" :
                    sig == SIGILL ? "SIGILL" : sig == SIGALRM ? "HANG" : "SIGNAL";
    if (sig == SIGALRM && crash_written) _exit(4);     /* stuck while saving partial results after a crash */
    write_crash(k, "");
    if (sig == SIGALRM) _exit(3);
    signal(sig, SIG_DFL);
    raise(sig);
}
/* sanitizer callbacks (weak references resolved when the runtime is linked) */
const char* __asan_get_report_description(void) __attribute__((weak));
extern uint64_t pv_bsearch_calls[5] __attribute__((weak));
void __asan_on_error(void);
void __asan_on_error(void) {
    const char* d = __asan_get_report_description ? __asan_get_report_description() : "asan";
    write_crash("ASAN", d);
}
static stack_t altstack;
static void install_handlers(void) {
    /* NOTE: drivers that scan thread stacks (C16) never take signals on the monitored thread */
    altstack.ss_sp = malloc(1 << 16); altstack.ss_size = 1 << 16; sigaltstack(&altstack, NULL);
    struct sigaction sa; memset(&sa, 0, sizeof sa); sa.sa_handler = on_signal; sa.sa_flags = SA_ONSTACK;
    int sigs[] = { SIGSEGV, SIGABRT, SIGBUS, SIGFPE, SIGILL, SIGALRM };
    for (unsigned i = 0; i < sizeof sigs / sizeof *sigs; ++i) sigaction(sigs[i], &sa, NULL);
}

/* ------------------------------------------------------------------ section runner */
uint64_t pv_scaled(uint64_t quick, uint64_t thorough) {
    uint64_t v = pv.tier ? thorough : quick;
    v = v * pv.scale_pct / 100;
    return v ? v : 1;
}
static double now_s(void) { struct timespec ts; clock_gettime(CLOCK_MONOTONIC, &ts); return ts.tv_sec + ts.tv_nsec * 1e-9; }

static long g_case_timeout = 120;
void pv_case_watchdog(long seconds) {          /* a case that is known to be slow (2^31-byte strings) asks for a longer watchdog for itself */
    long t = seconds * (pv.tier ? 4 : 1); if (t < g_case_timeout) t = g_case_timeout;
    alarm((unsigned)t);
}
int pv_main(int argc, char** argv, const char* prop, const pv_section* secs, int nsecs, void (*init)(void), void (*fini)(void)) {
    pv.prop = prop;
    const char* only_sec = NULL; uint64_t only_idx = 0; bool have_only = false;
    const char* resume_sec = NULL; uint64_t resume_idx = 0;
    const char* e;
    if ((e = getenv("VERIF_SEED")) && *e) pv.seed = strtoull(e, NULL, 0); else pv.seed = 1;
    if ((e = getenv("PV_SCALE")) && *e) pv.scale_pct = strtoull(e, NULL, 0);
    long case_timeout = 120;
    for (int i = 1; i < argc; ++i) {
        if (!strcmp(argv[i], "--tier") && i + 1 < argc) pv.tier = !strcmp(argv[++i], "thorough");
        else if (!strcmp(argv[i], "--seed") && i + 1 < argc) pv.seed = strtoull(argv[++i], NULL, 0);
        else if (!strcmp(argv[i], "--shard") && i + 1 < argc) { sscanf(argv[++i], "%d/%d", &pv.shard, &pv.nshards); }
        else if (!strcmp(argv[i], "--golden") && i + 1 < argc) pv.golden_dir = argv[++i];
        else if (!strcmp(argv[i], "--out") && i + 1 < argc) pv.out_path = argv[++i];
        else if (!strcmp(argv[i], "--crash") && i + 1 < argc) pv.crash_path = argv[++i];
        else if (!strcmp(argv[i], "--only") && i + 2 < argc) { only_sec = argv[++i]; only_idx = strtoull(argv[++i], NULL, 0); have_only = true; pv.verbose = 1; }
        else if (!strcmp(argv[i], "--resume") && i + 2 < argc) { resume_sec = argv[++i]; resume_idx = strtoull(argv[++i], NULL, 0); }
        else if (!strcmp(argv[i], "--positive-control")) pv.positive_control = 1;
        else if (!strcmp(argv[i], "--case-timeout") && i + 1 < argc) case_timeout = atol(argv[++i]);
        else if (!strcmp(argv[i], "--verbose")) pv.verbose = 1;
        else if (!strcmp(argv[i], "--tag") && i + 1 < argc) pv.tag = argv[++i];
        else { fprintf(stderr, "pv: unknown argument %s\n", argv[i]); return 2; }
    }
    if ((e = getenv("PV_LOCALE")) && *e) { if (!setlocale(LC_ALL, e)) { fprintf(stderr, "pv: locale %s not available\n", e); return 2; } }     /* the library must not care about the process locale */
    if (!pv.golden_dir) pv.golden_dir = getenv("PV_GOLDEN");
    if (!pv.golden_dir) { fprintf(stderr, "pv: --golden required\n"); return 2; }
    if (pv.nshards < 1 || pv.shard < 0 || pv.shard >= pv.nshards) { fprintf(stderr, "pv: bad shard\n"); return 2; }
    if (pv.crash_path) crash_fd = open(pv.crash_path, O_WRONLY | O_CREAT | O_TRUNC, 0644);
    install_handlers();
    double t0 = now_s();
    pv_cur.section = "init"; pv_cur.idx = 0;
    if (init) init();
    bool resuming = resume_sec != NULL;
    const char* skip = getenv("PV_SKIP_SECTIONS");      /* comma-separated section names a flavour cannot run (e.g. 2^31-byte strings under MemorySanitizer) */
    for (int s = 0; s < nsecs; ++s) {
        if (skip && !have_only) { size_t L = strlen(secs[s].name); const char* q = skip; bool hit = false;
            while (*q) { const char* e2 = strchr(q, ','); size_t n2 = e2 ? (size_t)(e2 - q) : strlen(q); if (n2 == L && !strncmp(q, secs[s].name, L)) hit = true; q += n2; if (*q == ',') ++q; }
            if (hit) { pv_countf(1, "sections_skipped.%s", secs[s].name); continue; } }
        if (have_only && strcmp(secs[s].name, only_sec)) continue;
        if (resuming && strcmp(secs[s].name, resume_sec)) continue;
        uint64_t n = secs[s].count();
        uint64_t start = 0;
        if (resuming) { start = resume_idx; resuming = false; }
        uint64_t sechash = pv_hash_str(secs[s].name) ^ pv_hash_str(prop);
        double ts0 = now_s(); uint64_t ran = 0; double slowest = 0;
        for (uint64_t idx = start; idx < n; ++idx) {
            if (have_only) { if (idx != only_idx) continue; }
            else if ((int)(idx % (uint64_t)pv.nshards) != pv.shard) continue;
            pv_cur.section = secs[s].name; pv_cur.idx = idx; pv_cur.api = NULL; pv_cur.in_ptr = NULL; pv_cur.note = NULL;
            pv_rng rng; pv_rng_seed(&rng, pv.seed, sechash, idx);
            g_case_timeout = case_timeout;
            alarm((unsigned)case_timeout);
            double tc0 = now_s();
            secs[s].run(idx, &rng);
            alarm(0);
            double tc = now_s() - tc0; if (tc > slowest) slowest = tc;
            ++ran;
        }
        pv_countf(ran, "cases.%s", secs[s].name);
        pv_countf((uint64_t)((now_s() - ts0) * 1000), "ms.%s", secs[s].name);
        pv_maxf((uint64_t)(slowest * 1000), "slowest_case_ms.%s", secs[s].name);        /* against the per-case watchdog */
    }
    pv_cur.section = "fini"; pv_cur.idx = 0; pv_cur.api = NULL;
    if (getenv("PV_PREMAIN") && pv.shard == 0) {
        static const struct { const char* prop; unsigned what; } W[] = { { "C01", 2 }, { "C03", 1 }, { "C04", 4 }, { "C06", 4 }, { "C07", 1 | 2 }, { "C10", 4 }, { "C12", 8 }, { "C13", 15 } };
        pv_cur.section = "premain"; pv_cur.idx = 0;
        for (unsigned i = 0; i < sizeof W / sizeof *W; ++i) if (!strcmp(W[i].prop, prop)) pv_premain_judge(prop, W[i].what);
    }
    if (fini) fini();
    if (pv_bsearch_calls) {       /* only linked in the bsearch flavours */
        static const char* const M[5] = { "libc", "upper-middle-pivot", "random-pivot", "first-equal", "last-equal" };
        for (int i = 0; i < 5; ++i) pv_countf((long long)pv_bsearch_calls[i], "bsearch.served_by.%s", M[i]);
    }
    pv_countf((uint64_t)((now_s() - t0) * 1000), "ms.total");
    write_result(true, NULL, 0);
    final_written = 1;
    return 0;
}

/* n bytes of 'a' + terminator costing a few MiB of memory: one 2 MiB chunk of a memfd mapped over and over, private pages at both ends */
char* pv_map_repeated(uint64_t n, uint64_t* maplen) {
    const size_t CH = 2u << 20;
    uint64_t total = ((n + 1 + CH - 1) / CH) * CH;
    int fd = memfd_create("pv-huge", 0); if (fd < 0) return NULL;
    if (ftruncate(fd, (off_t)CH) != 0) { close(fd); return NULL; }
    char* fill = mmap(NULL, CH, PROT_READ | PROT_WRITE, MAP_SHARED, fd, 0); if (fill == MAP_FAILED) { close(fd); return NULL; }
    memset(fill, 'a', CH); munmap(fill, CH);
    char* base = mmap(NULL, total, PROT_NONE, MAP_PRIVATE | MAP_ANONYMOUS | MAP_NORESERVE, -1, 0);
    if (base == MAP_FAILED) { close(fd); return NULL; }
    for (uint64_t off = 0; off < total; off += CH) {
        bool edge = off == 0 || off + CH >= total;
        void* r = edge ? mmap(base + off, CH, PROT_READ | PROT_WRITE, MAP_PRIVATE | MAP_ANONYMOUS | MAP_FIXED, -1, 0) : mmap(base + off, CH, PROT_READ, MAP_SHARED | MAP_FIXED, fd, 0);
        if (r == MAP_FAILED) { munmap(base, total); close(fd); return NULL; }
        if (edge) memset(base + off, 'a', CH);
    }
    close(fd);
    base[n] = 0; *maplen = total;
    return base;
}

/* well-formed UTF-8 (no overlong forms, no surrogates, nothing above U+10FFFF)? */
bool pv_utf8_valid(const char* str) {
    const uint8_t* p = (const uint8_t*)str;
    while (*p) {
        uint8_t c = *p; int n; uint32_t cp, min;
        if (c < 0x80) { ++p; continue; }
        else if ((c & 0xE0) == 0xC0) { n = 1; cp = c & 0x1F; min = 0x80; }
        else if ((c & 0xF0) == 0xE0) { n = 2; cp = c & 0x0F; min = 0x800; }
        else if ((c & 0xF8) == 0xF0) { n = 3; cp = c & 0x07; min = 0x10000; }
        else return false;
        for (int i = 1; i <= n; ++i) { if ((p[i] & 0xC0) != 0x80) return false; cp = (cp << 6) | (p[i] & 0x3F); }
        if (cp < min || cp > 0x10FFFF || (cp >= 0xD800 && cp <= 0xDFFF)) return false;
        p += n + 1;
    }
    return true;
}
