#ifndef PV_SHIM_STRING_H
#define PV_SHIM_STRING_H
#include <stddef.h>
void* memcpy(void*, const void*, size_t); void* memset(void*, int, size_t); int memcmp(const void*, const void*, size_t);
void* memmove(void*, const void*, size_t);
size_t strlen(const char*); int strcmp(const char*, const char*); int strncmp(const char*, const char*, size_t);
char* strncpy(char*, const char*, size_t); char* strcpy(char*, const char*);
#endif
