#ifndef PV_SHIM_STRING_H
#define PV_SHIM_STRING_H
#include <stddef.h>
void* memcpy(void*, const void*, size_t); void* memset(void*, int, size_t); int memcmp(const void*, const void*, size_t);
void* memmove(void*, const void*, size_t); void* memchr(const void*, int, size_t); void* memrchr(const void*, int, size_t);
size_t strlen(const char*); size_t strnlen(const char*, size_t); int strcmp(const char*, const char*); int strncmp(const char*, const char*, size_t);
char* strncpy(char*, const char*, size_t); char* strcpy(char*, const char*); char* strcat(char*, const char*); char* strncat(char*, const char*, size_t);
char* strchr(const char*, int); char* strrchr(const char*, int); char* strstr(const char*, const char*);
size_t strspn(const char*, const char*); size_t strcspn(const char*, const char*); char* strpbrk(const char*, const char*);
#endif
