#ifndef PV_SHIM_STDLIB_H
#define PV_SHIM_STDLIB_H
#include <stddef.h>
void* malloc(size_t); void* calloc(size_t, size_t); void* realloc(void*, size_t); void free(void*); void abort(void) __attribute__((noreturn));
void* bsearch(const void* key, const void* base, size_t n, size_t size, int (*cmp)(const void*, const void*));
void qsort(void* base, size_t n, size_t size, int (*cmp)(const void*, const void*));
int abs(int); long labs(long);
#endif
