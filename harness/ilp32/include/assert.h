#ifndef PV_SHIM_ASSERT_H
#define PV_SHIM_ASSERT_H
void pv_assert_fail(const char* expr, const char* file, int line) __attribute__((noreturn));
#ifdef NDEBUG
#define assert(e) ((void)0)
#else
#define assert(e) ((e) ? (void)0 : pv_assert_fail(#e, __FILE__, __LINE__))
#endif
#ifndef static_assert
#define static_assert _Static_assert
#endif
#endif
