#ifndef PV_SHIM_CTYPE_H
#define PV_SHIM_CTYPE_H
/* "C" locale only */
static inline int isupper(int c) { return c >= 'A' && c <= 'Z'; }
static inline int islower(int c) { return c >= 'a' && c <= 'z'; }
static inline int isalpha(int c) { return isupper(c) || islower(c); }
static inline int isdigit(int c) { return c >= '0' && c <= '9'; }
static inline int isalnum(int c) { return isalpha(c) || isdigit(c); }
static inline int isspace(int c) { return c == ' ' || (c >= 9 && c <= 13); }
static inline int isascii(int c) { return c >= 0 && c < 128; }
static inline int isprint(int c) { return c >= 32 && c < 127; }
static inline int tolower(int c) { return isupper(c) ? c + 32 : c; }
static inline int toupper(int c) { return islower(c) ? c - 32 : c; }
#endif
