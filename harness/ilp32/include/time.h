#ifndef PV_SHIM_TIME_H
#define PV_SHIM_TIME_H
typedef long time_t;
time_t time(time_t*);
#endif
