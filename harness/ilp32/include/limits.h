#ifndef PV_SHIM_LIMITS_H
#define PV_SHIM_LIMITS_H
#define CHAR_BIT __CHAR_BIT__
#define INT_MAX __INT_MAX__
#define UINT_MAX (__INT_MAX__ * 2U + 1U)
#endif
