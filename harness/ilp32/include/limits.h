#ifndef PV_SHIM_LIMITS_H
#define PV_SHIM_LIMITS_H
/* from the compiler's predefined macros: correct for -m32 and -m64 alike */
#define CHAR_BIT __CHAR_BIT__
#define SCHAR_MAX __SCHAR_MAX__
#define SCHAR_MIN (-__SCHAR_MAX__ - 1)
#define UCHAR_MAX (__SCHAR_MAX__ * 2 + 1)
#ifdef __CHAR_UNSIGNED__
#define CHAR_MIN 0
#define CHAR_MAX UCHAR_MAX
#else
#define CHAR_MIN SCHAR_MIN
#define CHAR_MAX SCHAR_MAX
#endif
#define SHRT_MAX __SHRT_MAX__
#define SHRT_MIN (-__SHRT_MAX__ - 1)
#define USHRT_MAX (__SHRT_MAX__ * 2 + 1)
#define INT_MAX __INT_MAX__
#define INT_MIN (-__INT_MAX__ - 1)
#define UINT_MAX (__INT_MAX__ * 2U + 1U)
#define LONG_MAX __LONG_MAX__
#define LONG_MIN (-__LONG_MAX__ - 1L)
#define ULONG_MAX (__LONG_MAX__ * 2UL + 1UL)
#define LLONG_MAX __LONG_LONG_MAX__
#define LLONG_MIN (-__LONG_LONG_MAX__ - 1LL)
#define ULLONG_MAX (__LONG_LONG_MAX__ * 2ULL + 1ULL)
#endif
