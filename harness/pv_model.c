/* pv_model.c — independent reference model of the polyseed format.
 * Written from README.md and the property texts; deliberately not in the style of the library:
 * generic GF(2^11) multiplication, explicit powers of 2, bit-string packing. */
#include "pv.h"

pv_mlang pv_langs[PV_MAXLANG];
int pv_nlangs;

/* ---- facts taken from the property statements (C03, C08), keyed by English name */
static const char* const PREFIX_LANGS[] = { "English", "Spanish", "French", "Italian", "Czech", "Portuguese", NULL };
static const char* const ACCENT_LANGS[] = { "Spanish", "French", NULL };
static const char* const COMPOSE_LANGS[] = { "Spanish", "French", "Japanese", "Korean", NULL };
static const char* const IDEOSEP_LANGS[] = { "Japanese", NULL };
static bool in_list(const char* const* l, const char* s) { for (; *l; ++l) if (!strcmp(*l, s)) return true; return false; }

/* ------------------------------------------------------------------ field arithmetic */
unsigned pv_gf_mul(unsigned a, unsigned b) {
    unsigned r = 0;
    while (b) {
        if (b & 1) r ^= a;
        a <<= 1;
        if (a & 0x800) a ^= 0x805;      /* x^11 + x^2 + 1 */
        b >>= 1;
    }
    return r;
}
unsigned pv_gf_pow2(int i) {
    static unsigned tab[16]; static bool ready;           /* filled by pv_model_init (single-threaded) */
    if (i >= 0 && i < 16) { if (!ready) { for (int k = 0; k < 16; ++k) { unsigned r = 1; for (int j = 0; j < k; ++j) r = pv_gf_mul(r, 2); tab[k] = r; } ready = true; } return tab[i]; }
    unsigned r = 1; while (i-- > 0) r = pv_gf_mul(r, 2); return r;
}
unsigned pv_m_checkvalue(const unsigned c[16]) {
    unsigned v = 0;
    for (int i = 1; i < 16; ++i) v ^= pv_gf_mul(c[i] & 2047, pv_gf_pow2(i));
    return v;                            /* c0 + sum_{i>=1} c_i 2^i = 0  <=>  c0 = that sum (char. 2) */
}
unsigned pv_m_solve_c1(const unsigned c[16], unsigned want) {
    unsigned rest = 0;
    for (int i = 2; i < 16; ++i) rest ^= pv_gf_mul(c[i] & 2047, pv_gf_pow2(i));
    unsigned target = (want ^ rest) & 2047;       /* need c1 * 2 == target */
    for (unsigned x = 0; x < 2048; ++x) if (pv_gf_mul(x, 2) == target) return x;
    pv_fatal("model: no solution for c1");
}

/* ------------------------------------------------------------------ packing (bit strings) */
static int secret_bit(const pv_mseed* s, int i) {        /* i in 0..149, MSB first; last byte holds 6 bits */
    if (i < 144) return (s->secret[i / 8] >> (7 - i % 8)) & 1;
    return (s->secret[18] >> (5 - (i - 144))) & 1;
}
static void secret_setbit(pv_mseed* s, int i, int v) {
    if (!v) return;
    if (i < 144) s->secret[i / 8] |= (uint8_t)(0x80 >> (i % 8));
    else s->secret[18] |= (uint8_t)(0x20 >> (i - 144));
}
static int extra_bit(const pv_mseed* s, int k) {         /* k in 0..14: features(5) || birthday(10), MSB first */
    if (k < 5) return (s->features >> (4 - k)) & 1;
    return (s->birthday >> (9 - (k - 5))) & 1;
}
void pv_m_pack(const pv_mseed* s, unsigned c[16]) {
    for (int k = 1; k < 16; ++k) {
        unsigned v = 0;
        for (int j = 0; j < 10; ++j) v = (v << 1) | (unsigned)secret_bit(s, 10 * (k - 1) + j);
        v = (v << 1) | (unsigned)extra_bit(s, k - 1);
        c[k] = v;
    }
    c[0] = pv_m_checkvalue(c);
}
void pv_m_unpack(const unsigned c[16], pv_mseed* s) {
    memset(s, 0, sizeof *s);
    for (int k = 1; k < 16; ++k) {
        for (int j = 0; j < 10; ++j) secret_setbit(s, 10 * (k - 1) + j, (c[k] >> (10 - j)) & 1);
        int e = c[k] & 1;
        if (k - 1 < 5) s->features |= (unsigned)e << (4 - (k - 1));
        else s->birthday |= (unsigned)e << (9 - (k - 1 - 5));
    }
}
void pv_m_coeffs(const pv_mseed* s, unsigned coin, unsigned c[16]) { pv_m_pack(s, c); c[1] ^= coin; }

/* ------------------------------------------------------------------ phrases */
static size_t join(const pv_mlang* L, const unsigned c[16], const char* sep, char* out, size_t cap) {
    size_t n = 0, sl = strlen(sep);
    for (int i = 0; i < 16; ++i) {
        const char* w = L->word[c[i] & 2047]; size_t wl = (size_t)L->len[c[i] & 2047];
        if (n + wl + sl + 1 > cap) pv_fatal("model: phrase buffer too small");
        memcpy(out + n, w, wl); n += wl;
        if (i < 15) { memcpy(out + n, sep, sl); n += sl; }
    }
    out[n] = 0;
    return n;
}
size_t pv_m_join(const pv_mlang* L, const unsigned c[16], char* out, size_t cap) { return join(L, c, L->sep, out, cap); }
size_t pv_m_join_space(const pv_mlang* L, const unsigned c[16], char* out, size_t cap) { return join(L, c, " ", out, cap); }
size_t pv_m_encode(const pv_mseed* s, const pv_mlang* L, unsigned coin, char* out, size_t cap) {
    unsigned c[16]; pv_m_coeffs(s, coin, c);
    char raw[2048];
    size_t n = pv_m_join(L, c, raw, sizeof raw);
    if (L->compose) {
        char* nfc = pv_nfc_alloc(raw);
        n = strlen(nfc);
        if (n + 1 > cap) pv_fatal("model: encode buffer too small");
        memcpy(out, nfc, n + 1);
        free(nfc);
    } else {
        if (n + 1 > cap) pv_fatal("model: encode buffer too small");
        memcpy(out, raw, n + 1);
    }
    return n;
}

/* ------------------------------------------------------------------ storage image, KDF inputs, birthday, features */
void pv_m_image(const pv_mseed* s, uint8_t img[32]) {
    unsigned c[16]; pv_m_pack(s, c);
    unsigned v1 = (s->features << 10) | s->birthday, v2 = 0x7000 | c[0];
    memcpy(img, "POLYSEED", 8);
    img[8] = (uint8_t)(v1 & 255); img[9] = (uint8_t)(v1 >> 8);
    memcpy(img + 10, s->secret, 19);
    img[29] = 0xff;
    img[30] = (uint8_t)(v2 & 255); img[31] = (uint8_t)(v2 >> 8);
}
bool pv_m_supported(unsigned features, unsigned enabled) { return (features & ~((enabled & 7u) | 16u) & 31u) == 0; }
int pv_m_load(const uint8_t img[32], unsigned enabled, pv_mseed* out) {
    pv_mseed s; memset(&s, 0, sizeof s);
    /* format: any structural deviation from the layout */
    if (memcmp(img, "POLYSEED", 8)) return POLYSEED_ERR_FORMAT;
    unsigned v1 = img[8] | ((unsigned)img[9] << 8);
    if (v1 >> 15) return POLYSEED_ERR_FORMAT;
    s.birthday = v1 & 1023; s.features = v1 >> 10;
    memcpy(s.secret, img + 10, 19);
    if (s.secret[18] & 0xc0) return POLYSEED_ERR_FORMAT;
    if (img[29] != 0xff) return POLYSEED_ERR_FORMAT;
    unsigned v2 = img[30] | ((unsigned)img[31] << 8);
    if ((v2 & 0xf800) != 0x7000) return POLYSEED_ERR_FORMAT;
    unsigned c[16]; pv_m_pack(&s, c);
    if (c[0] != (v2 & 2047)) return POLYSEED_ERR_CHECKSUM;
    if (!pv_m_supported(s.features, enabled)) return POLYSEED_ERR_UNSUPPORTED;
    if (out) *out = s;
    return POLYSEED_OK;
}
static void le32(uint8_t* p, uint32_t v) { p[0] = (uint8_t)v; p[1] = (uint8_t)(v >> 8); p[2] = (uint8_t)(v >> 16); p[3] = (uint8_t)(v >> 24); }
void pv_m_salt(const pv_mseed* s, unsigned coin, uint8_t salt[32]) {
    memset(salt, 0, 32);
    memcpy(salt, "POLYSEED key", 12);
    salt[12] = 0; salt[13] = 0xff; salt[14] = 0xff; salt[15] = 0xff;
    le32(salt + 16, coin); le32(salt + 20, s->birthday); le32(salt + 24, s->features);
}
void pv_m_password(const pv_mseed* s, uint8_t pw[32]) { memset(pw, 0, 32); memcpy(pw, s->secret, 19); }
unsigned pv_m_birthday_of(uint64_t t) {
    if (t == UINT64_MAX || t < PV_EPOCH) return 0;
    return (unsigned)(((t - PV_EPOCH) / PV_STEP) % 1024);
}
uint64_t pv_m_birthday_time(unsigned b) { return PV_EPOCH + (uint64_t)b * PV_STEP; }
void pv_m_crypt(pv_mseed* s, const uint8_t mask[32]) {
    for (int i = 0; i < 19; ++i) s->secret[i] ^= mask[i];
    s->secret[18] &= 0x3f;
    s->features ^= 16;
}
bool pv_mseed_eq(const pv_mseed* a, const pv_mseed* b) {
    return !memcmp(a->secret, b->secret, 19) && a->birthday == b->birthday && a->features == b->features;
}
uint64_t pv_mseed_hash(const pv_mseed* s) {
    return pv_mix(pv_hash(s->secret, 19, 7), ((uint64_t)s->birthday << 8) | s->features);
}
char* pv_mseed_str(const pv_mseed* s) {
    static __thread char b[8][96]; static __thread int i;
    i = (i + 1) % 8;
    snprintf(b[i], sizeof b[i], "{secret:%s,birthday:%u,features:%u}", pv_hex(s->secret, 19), s->birthday, s->features);
    return b[i];
}

/* ------------------------------------------------------------------ matcher */
/* accents (U+0300..U+036F) are ignored in the accent languages.  Whether *other* combining marks count as accents
 * is not specified by the property; a token containing them is judged under both readings (ignored / ordinary
 * character) and the verdict is definite only if both readings agree. */
static int strip(const pv_mlang* L, const uint32_t* in, int n, uint32_t* out, bool all_marks, bool* has_other) {
    int k = 0;
    for (int i = 0; i < n; ++i) {
        if (L->accents) {
            if (pv_is_accent(in[i])) continue;
            if (pv_is_mark(in[i])) { *has_other = true; if (all_marks) continue; }
        }
        out[k++] = in[i];
    }
    return k;
}
static int match_stripped(const pv_mlang* L, const uint32_t* t, int tn, int* idx_out) {
    int found = -1, nm = 0;
    for (int w = 0; w < PV_NWORDS; ++w) {
        const uint32_t* wc = L->accents ? L->scp[w] : L->cp[w];
        int wn = L->accents ? L->nscp[w] : L->ncp[w];
        bool ok;
        if (tn > 0 && wn > 0 && wc[0] != t[0]) continue;       /* cheap first-letter filter */
        if (tn == wn) ok = !memcmp(t, wc, (size_t)tn * 4);
        else if (L->prefix && tn >= 4 && tn < wn) ok = !memcmp(t, wc, (size_t)tn * 4);
        else ok = false;
        if (ok) { if (found < 0) found = w; ++nm; }
    }
    *idx_out = found;
    return nm;
}
int pv_m_match_cp(const pv_mlang* L, const uint32_t* tok, int n, int* idx_out, int* nmatch_out) {
    uint32_t t[1024];
    if (n > 1000) { if (nmatch_out) *nmatch_out = 0; return PV_REJECT; }
    bool other = false;
    int tn = strip(L, tok, n, t, false, &other);
    int ia = -1, na = match_stripped(L, t, tn, &ia);
    if (nmatch_out) *nmatch_out = na;
    if (other) {
        bool dummy = false; int ib = -1;
        int tb = strip(L, tok, n, t, true, &dummy);
        int nb = match_stripped(L, t, tb, &ib);
        if ((na == 0) != (nb == 0) || ia != ib) return PV_UNSPEC;
    }
    if (na == 0) return PV_REJECT;
    if (idx_out) *idx_out = ia;
    return PV_ACCEPT;
}
int pv_m_match(const pv_mlang* L, const char* token_nfkd, int* idx_out) {
    uint32_t cp[1024];
    int n = pv_utf8_decode(token_nfkd, cp, 1024);
    if (n < 0) return PV_UNSPEC;        /* invalid UTF-8 / over-long token: outside the model */
    int nm;
    return pv_m_match_cp(L, cp, n, idx_out, &nm);
}

/* token rule of C09: pieces of the NFKD form separated by single U+0020; one trailing space is ignored;
 * empty pieces count.  An empty string has zero tokens. */
int pv_m_split(char* s, char* tok[], int cap) {
    size_t n = strlen(s);
    if (n == 0) return 0;
    if (s[n - 1] == ' ') s[--n] = 0;
    int k = 0;
    char* p = s;
    for (;;) {
        char* q = strchr(p, ' ');
        if (k < cap) tok[k] = p;
        ++k;
        if (!q) break;
        *q = 0;
        p = q + 1;
    }
    return k;
}

void pv_m_decode(const char* str, unsigned coin, const pv_mlang* Lx, unsigned enabled, pv_mdecode* out) {
    memset(out, 0, sizeof *out);
    out->status = -1; out->lang = -1; out->nrecognising = -1;
    char* nf = pv_nfkd_alloc(str);
    if (strlen(nf) > POLYSEED_STR_SIZE - 1) { free(nf); return; }    /* longer than the public buffer: not specified here */
    char* tok[17];
    int nt = pv_m_split(nf, tok, 17);
    out->ntokens = nt;
    if (nt != 16) { out->status = POLYSEED_ERR_NUM_WORDS; free(nf); return; }
    unsigned c[16];
    if (Lx) {
        bool unspec = false, rej = false;
        for (int i = 0; i < 16; ++i) {
            int idx = 0, r = pv_m_match(Lx, tok[i], &idx);
            if (r == PV_REJECT) rej = true; else if (r == PV_UNSPEC) unspec = true; else c[i] = (unsigned)idx;
        }
        if (rej) { out->status = POLYSEED_ERR_LANG; free(nf); return; }
        if (unspec) { free(nf); return; }
    } else {
        int nrec = 0, which = -1; bool unspec = false;
        for (int l = 0; l < pv_nlangs; ++l) {
            unsigned cc[16]; bool all = true, un = false;
            for (int i = 0; i < 16 && all; ++i) {
                int idx = 0, r = pv_m_match(&pv_langs[l], tok[i], &idx);
                if (r == PV_REJECT) all = false; else if (r == PV_UNSPEC) un = true; else cc[i] = (unsigned)idx;
            }
            if (!all) continue;
            if (un) { unspec = true; continue; }
            ++nrec; which = l; memcpy(c, cc, sizeof c);
        }
        if (unspec) { free(nf); return; }
        out->nrecognising = nrec;
        if (nrec == 0) { out->status = POLYSEED_ERR_LANG; free(nf); return; }
        if (nrec >= 2) { out->status = POLYSEED_ERR_MULT_LANG; free(nf); return; }
        out->lang = which;
    }
    free(nf);
    c[1] ^= coin & 2047;
    memcpy(out->c, c, sizeof c);
    out->checksum_ok = pv_m_checkvalue(c) == c[0];
    if (!out->checksum_ok) { out->status = POLYSEED_ERR_CHECKSUM; return; }
    pv_m_unpack(c, &out->seed);
    out->status = pv_m_supported(out->seed.features, enabled) ? POLYSEED_OK : POLYSEED_ERR_UNSUPPORTED;
}

/* ------------------------------------------------------------------ golden data */
static char* read_file(const char* path, size_t* n_out) {
    FILE* f = fopen(path, "rb");
    if (!f) pv_fatal("cannot open %s", path);
    fseek(f, 0, SEEK_END); long n = ftell(f); fseek(f, 0, SEEK_SET);
    char* b = pv_xmalloc((size_t)n + 1);
    if (fread(b, 1, (size_t)n, f) != (size_t)n) pv_fatal("short read %s", path);
    b[n] = 0; fclose(f);
    if (n_out) *n_out = (size_t)n;
    return b;
}
static void load_lang(pv_mlang* L) {
    char path[4096]; snprintf(path, sizeof path, "%s/%s.txt", pv.golden_dir, L->key);
    char* b = read_file(path, NULL);
    char* p = b; int n = 0;
    while (*p) {
        char* q = strchr(p, '\n');
        if (!q) pv_fatal("golden %s: unterminated line", L->key);
        *q = 0;
        if (n >= PV_NWORDS) pv_fatal("golden %s: too many words", L->key);
        L->word[n] = p; L->len[n] = (int)(q - p);
        uint32_t cp[128]; int k = pv_utf8_decode(p, cp, 128);
        if (k <= 0) pv_fatal("golden %s: bad word %d", L->key, n);
        L->cp[n] = pv_xmalloc((size_t)k * 4); memcpy(L->cp[n], cp, (size_t)k * 4); L->ncp[n] = k;
        uint32_t sc[128]; int sk = 0;
        for (int i = 0; i < k; ++i) if (!pv_is_accent(cp[i])) sc[sk++] = cp[i];
        L->scp[n] = pv_xmalloc((size_t)sk * 4); memcpy(L->scp[n], sc, (size_t)sk * 4); L->nscp[n] = sk;
        L->word_nfc[n] = pv_nfc_alloc(p); L->len_nfc[n] = (int)strlen(L->word_nfc[n]);
        ++n; p = q + 1;
    }
    if (n != PV_NWORDS) pv_fatal("golden %s: %d words", L->key, n);
}
pv_mlang* pv_lang_by_name(const char* name_en) {
    for (int i = 0; i < pv_nlangs; ++i) if (!strcmp(pv_langs[i].name_en, name_en)) return &pv_langs[i];
    return NULL;
}
static void selftest_vectors(void) {
    char path[4096]; snprintf(path, sizeof path, "%s/vectors.tsv", pv.golden_dir);
    char* b = read_file(path, NULL);
    int nv = 0;
    for (char* line = strtok(b, "\n"); line; line = strtok(NULL, "\n")) {
        if (line[0] == '#') continue;
        char* f[11]; int k = 0; char* p = line;
        while (k < 11) { f[k++] = p; char* q = strchr(p, '\t'); if (!q) break; *q = 0; p = q + 1; }
        if (k != 11) pv_fatal("vectors.tsv: bad line");
        pv_mlang* L = pv_lang_by_name(f[0]);
        if (!L) pv_fatal("vectors.tsv: unknown language %s", f[0]);
        pv_mseed s; memset(&s, 0, sizeof s);
        if (pv_unhex(f[1], s.secret, 19) != 19) pv_fatal("vectors.tsv: bad secret");
        s.birthday = (unsigned)atoi(f[2]); s.features = (unsigned)atoi(f[3]); unsigned coin = (unsigned)atoi(f[4]);
        char out[2048]; pv_m_encode(&s, L, coin, out, sizeof out);
        if (strcmp(out, f[5])) pv_fatal("oracle disagreement (phrase): model '%s' spec '%s'", out, f[5]);
        char* nf = pv_nfkd_alloc(out);
        if (strcmp(nf, f[6])) pv_fatal("oracle disagreement (NFKD utf8proc vs python): '%s' vs '%s'", nf, f[6]);
        free(nf);
        uint8_t img[32], salt[32], pw[32];
        pv_m_image(&s, img); pv_m_salt(&s, coin, salt); pv_m_password(&s, pw);
        if (strcmp(pv_hex(img, 32), f[7])) pv_fatal("oracle disagreement (storage)");
        if (strcmp(pv_hex(salt, 32), f[8])) pv_fatal("oracle disagreement (salt)");
        if (strcmp(pv_hex(pw, 32), f[9])) pv_fatal("oracle disagreement (password)");
        unsigned c[16]; pv_m_pack(&s, c);
        if ((int)c[0] != atoi(f[10])) pv_fatal("oracle disagreement (check value)");
        /* model decode of its own phrase (explicit and image) must return the seed */
        pv_mseed t; pv_m_unpack(c, &t);
        if (!pv_mseed_eq(&s, &t)) pv_fatal("model: unpack(pack(s)) != s");
        if (pv_m_load(img, 7, &t) != POLYSEED_OK || !pv_mseed_eq(&s, &t)) {
            if (pv_m_supported(s.features, 7)) pv_fatal("model: load(image(s)) != s");
        }
        if (nv % 16 == 0) {
            pv_mdecode d; pv_m_decode(out, coin, L, 7, &d);
            int want = pv_m_supported(s.features, 7) ? POLYSEED_OK : POLYSEED_ERR_UNSUPPORTED;
            if (d.status != want || !pv_mseed_eq(&d.seed, &s)) pv_fatal("model: decode(encode(s)) != s (%s)", f[0]);
        }
        ++nv;
    }
    free(b);
    if (nv < 1000) pv_fatal("vectors.tsv: only %d vectors", nv);
    PV_COUNT("oracle.vectors_reproduced", (uint64_t)nv);
}
void pv_model_init(void) {
    char path[4096]; snprintf(path, sizeof path, "%s/langs.tsv", pv.golden_dir);
    char* b = read_file(path, NULL);
    for (char* line = strtok(b, "\n"); line; line = strtok(NULL, "\n")) {
        if (line[0] == '#') continue;
        char* f[6]; int k = 0; char* p = line;
        while (k < 6) { f[k++] = p; char* q = strchr(p, '\t'); if (!q) break; *q = 0; p = q + 1; }
        if (k != 6) pv_fatal("langs.tsv: bad line");
        if (pv_nlangs >= PV_MAXLANG) pv_fatal("too many languages");
        pv_mlang* L = &pv_langs[pv_nlangs++];
        L->key = f[0]; L->name_en = f[1]; L->name = f[2];
        int sl = pv_unhex(f[3], (uint8_t*)L->sep, 7); if (sl <= 0) pv_fatal("langs.tsv: bad separator"); L->sep[sl] = 0;
        L->golden_compose = atoi(f[4]) != 0;
        L->prefix = in_list(PREFIX_LANGS, L->name_en);
        L->accents = in_list(ACCENT_LANGS, L->name_en);
        L->compose = in_list(COMPOSE_LANGS, L->name_en);
        /* cross-check: published metadata vs the property statements */
        if (L->compose != L->golden_compose) pv_fatal("golden compose flag of %s disagrees with C03", L->name_en);
        if (in_list(IDEOSEP_LANGS, L->name_en) != !strcmp(L->sep, "\xe3\x80\x80")) pv_fatal("golden separator of %s disagrees with C03", L->name_en);
        if (!in_list(IDEOSEP_LANGS, L->name_en) && strcmp(L->sep, " ")) pv_fatal("golden separator of %s disagrees with C03", L->name_en);
        load_lang(L);
    }
    if (pv_nlangs != 10) pv_fatal("golden: %d languages", pv_nlangs);
    (void)pv_gf_pow2(1);
    /* field sanity: 2 generates a group in which x -> 2x is a bijection */
    bool seen[2048] = { false };
    for (unsigned x = 0; x < 2048; ++x) { unsigned y = pv_gf_mul(x, 2); if (y >= 2048 || seen[y]) pv_fatal("model: mul2 not injective"); seen[y] = true; }
    selftest_vectors();
}
void pv_model_bind_library(void) {
    int n = polyseed_get_num_langs();
    for (int i = 0; i < n; ++i) {
        const polyseed_lang* l = polyseed_get_lang(i);
        const char* en = polyseed_get_lang_name_en(l);
        pv_mlang* L = en ? pv_lang_by_name(en) : NULL;
        if (L && !L->lib) L->lib = l;
    }
    /* a language is its word list, not its label: what the names did not identify (a renamed language, say - no property speaks about
     * names) is identified by content: the phrase the library encodes for a fixed seed equals the model phrase of exactly one list */
    bool missing = false; for (int q = 0; q < pv_nlangs; ++q) if (!pv_langs[q].lib) missing = true;
    if (missing && pv_w) {
        pv_mseed m; memset(&m, 0, sizeof m); for (int i = 0; i < 19; ++i) m.secret[i] = (uint8_t)(0x35 + 11 * i); m.secret[18] &= 0x3f; m.birthday = 77;
        polyseed_data* sd = pv_seed_from_model(&m);
        char* out = malloc(POLYSEED_STR_SIZE * 2);
        for (int i = 0; sd && i < n; ++i) {
            const polyseed_lang* l = polyseed_get_lang(i);
            bool known = false; for (int q = 0; q < pv_nlangs; ++q) if (pv_langs[q].lib == l) known = true;
            if (known) continue;
            pv_api_encode(sd, l, 0, out);
            for (int q = 0; q < pv_nlangs; ++q) if (!pv_langs[q].lib) { char want[2048]; pv_m_encode(&m, &pv_langs[q], 0, want, sizeof want); if (!strcmp(want, out)) { pv_langs[q].lib = l; break; } }
        }
        free(out); if (sd) pv_api_free(sd);
    }
}
