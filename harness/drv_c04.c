/* drv_c04 — key derivation receives exact, deterministic, domain-separated inputs (DESIGN 3/C04) */
#define _GNU_SOURCE
#include "pv.h"
#include <sys/mman.h>
#include <unistd.h>
#include <pthread.h>

static const size_t KEYSIZES[] = { 0, 1, 16, 32, 33, 64, 4096 };
static uint8_t* g_page;          /* three pages; the key of the protected sub-sample lives in the middle one */
static long g_ps;

/* online determinism / injectivity map: abstract (secret, coin, birthday, features) <-> (password, salt) */
typedef struct ent { uint8_t abs[32]; uint8_t val[64]; bool used; } ent;
#define MAPCAP (1u << 19)
static ent* map_by_abs; static ent* map_by_val; static uint64_t map_n;
static void map_check(const uint8_t abs[32], const uint8_t val[64]) {
    if (map_n * 2 > MAPCAP) return;
    size_t i = (size_t)pv_hash(abs, 32, 1) & (MAPCAP - 1);
    while (map_by_abs[i].used && memcmp(map_by_abs[i].abs, abs, 32)) i = (i + 1) & (MAPCAP - 1);
    if (map_by_abs[i].used) { if (memcmp(map_by_abs[i].val, val, 64)) pv_violation("C04/not-deterministic", "same abstract seed/coin %s gave KDF inputs %s and %s", pv_hex(abs, 32), pv_hex(map_by_abs[i].val, 64), pv_hex(val, 64)); PV_COUNT("map.repeat_visits_agree", 1); }
    else { map_by_abs[i].used = true; memcpy(map_by_abs[i].abs, abs, 32); memcpy(map_by_abs[i].val, val, 64); ++map_n; }
    size_t j = (size_t)pv_hash(val, 64, 2) & (MAPCAP - 1);
    while (map_by_val[j].used && memcmp(map_by_val[j].val, val, 64)) j = (j + 1) & (MAPCAP - 1);
    if (map_by_val[j].used) { if (memcmp(map_by_val[j].abs, abs, 32)) pv_violation("C04/not-domain-separated", "abstract inputs %s and %s gave the same KDF inputs %s", pv_hex(map_by_val[j].abs, 32), pv_hex(abs, 32), pv_hex(val, 64)); }
    else { map_by_val[j].used = true; memcpy(map_by_val[j].abs, abs, 32); memcpy(map_by_val[j].val, val, 64); }
}

static void init(void) {
    pv_world_init(pv.seed);
    pv_model_init();
    pv_inject_default();
    pv_model_bind_library();
    pv_api_enable_features(7);
    g_ps = sysconf(_SC_PAGESIZE);
    g_page = mmap(NULL, (size_t)g_ps * 3, PROT_READ | PROT_WRITE, MAP_PRIVATE | MAP_ANONYMOUS, -1, 0);
    if (g_page == MAP_FAILED) pv_fatal("C04: mmap");
    map_by_abs = calloc(MAPCAP, sizeof(ent)); map_by_val = calloc(MAPCAP, sizeof(ent));
    if (!map_by_abs || !map_by_val) pv_fatal("C04: oom");
    pv_info("rule", "polyseed_keygen on seeds reached by create / load / decode from a phrase in every language / double crypt, coins boundary+random, key sizes {0,1,16,32,33,64,4096}: "
                    "the PBKDF2 monitor must be called exactly once with password = 19 secret bytes + 13 zero bytes (len 32), the 32-byte salt of the specification, 10000 iterations, the caller's "
                    "key pointer and size; the key buffer (exact-size heap block, or a page that the monitor makes inaccessible when it returns) must hold exactly what the monitor wrote. "
                    "non-trivial = a keygen call whose full argument list equalled the model; distinct = distinct (seed, coin, key size, path)");
}

#define HOW pv_path_name
#define obtain pv_seed_by_path

static uint64_t n_keygen(void) { return pv_scaled(200000, 20000000); }
static void run_keygen(uint64_t idx, pv_rng* rng) {
    pv_mseed m; pv_gen_mseed(rng, 7, true, &m);
    int how = (int)(idx % 5);
    if (how == 0) m.features &= 7;                           /* create cannot produce the encrypted bit */
    if (pv_randn(rng, 4) == 0) m.birthday = 512 + pv_randn(rng, 512);
    unsigned coin = pv_gen_coin(rng);
    polyseed_data* s = obtain(rng, &m, how, coin);
    if (!s) { pv_violation("C04/cannot-obtain-seed", "[%s] %s", HOW[how], pv_mseed_str(&m)); return; }
    size_t ks = KEYSIZES[pv_randn(rng, sizeof KEYSIZES / sizeof *KEYSIZES)];
    bool protect = (idx % 16 == 3) && ks > 0 && ks <= (size_t)g_ps;
    uint8_t* key; uint8_t* block = NULL;
    if (protect) { key = g_page + g_ps + (g_ps - (long)ks) * (long)(idx & 1); memset(g_page, 0xEE, (size_t)g_ps * 3); }
    else { size_t off = idx % 4; block = malloc((ks ? ks : 1) + off); key = block + off; memset(key, 0xEE, ks ? ks : 1); }      /* any alignment; the block still ends right behind the key */
    pv_w->kdf_protect = protect;
    bool other_mask = idx % 7 == 3;
    if (other_mask) polyseed_enable_features(pv_randn(rng, 7));      /* keygen does not depend on the enabled-feature mask */
    pv_api_keygen(s, coin, ks, key);
    if (other_mask) polyseed_enable_features(7);
    pv_w->kdf_protect = 0;
    if (protect) mprotect(g_page + g_ps, (size_t)g_ps, PROT_READ | PROT_WRITE);
    PV_COUNT("evaluations", 1); pv_countf(1, "keygen.path.%s", HOW[how]); pv_countf(1, "keygen.keysize.%zu", ks);
    if (protect) PV_COUNT("keygen.key_page_made_inaccessible_on_kdf_return", 1);
    bool ok = true;
    int nk = pv_ev_count(PV_EV_KDF);
    if (nk != 1) { ok = false; pv_violation("C04/kdf-call-count", "[%s] keygen invoked the KDF %d times", HOW[how], nk); }
    if (nk >= 1 && pv_w->nkdf >= 1) {
        pv_kdfrec* r = &pv_w->kdf[0];
        uint8_t pw[32], salt[32]; pv_m_password(&m, pw); pv_m_salt(&m, coin, salt);
        if (r->pwlen != 32) { ok = false; pv_violation("C04/password-length", "[%s] password length %zu", HOW[how], r->pwlen); }
        else if (memcmp(r->pw, pw, 32)) { ok = false; pv_violation("C04/password-bytes", "[%s] seed %s: password %s, specification %s", HOW[how], pv_mseed_str(&m), pv_hex(r->pw, 32), pv_hex(pw, 32)); }
        if (r->saltlen != 32) { ok = false; pv_violation("C04/salt-length", "[%s] salt length %zu", HOW[how], r->saltlen); }
        else if (memcmp(r->salt, salt, 32)) { ok = false; pv_violation("C04/salt-bytes", "[%s] seed %s coin %u: salt %s, specification %s", HOW[how], pv_mseed_str(&m), coin, pv_hex(r->salt, 32), pv_hex(salt, 32)); }
        if (r->iters != 10000) { ok = false; pv_violation("C04/iterations", "[%s] %llu iterations", HOW[how], (unsigned long long)r->iters); }
        if (r->key != key) { ok = false; pv_violation("C04/key-pointer", "[%s] the KDF received another key buffer than the caller's", HOW[how]); }
        if (r->keylen != ks) { ok = false; pv_violation("C04/key-length", "[%s] key length %zu, caller asked for %zu", HOW[how], r->keylen, ks); }
        /* the key the caller sees is exactly what the KDF monitor wrote */
        if (r->key == key && r->keylen == ks && ks > 0) {
            uint8_t* exp = malloc(ks); pv_kdf_mix(r->pw, r->pwlen, r->salt, r->saltlen, r->iters, exp, ks);
            if (memcmp(exp, key, ks)) { ok = false; pv_violation("C04/key-rewritten-after-kdf", "[%s] key buffer differs from what the KDF wrote (size %zu)", HOW[how], ks); }
            free(exp);
        }
        if (ok) {
            uint8_t abs[32] = { 0 }, val[64];
            memcpy(abs, m.secret, 19); abs[19] = (uint8_t)coin; abs[20] = (uint8_t)(coin >> 8); abs[21] = (uint8_t)m.birthday; abs[22] = (uint8_t)(m.birthday >> 8); abs[23] = (uint8_t)m.features;
            memcpy(val, r->pw, 32); memcpy(val + 32, r->salt, 32);
            map_check(abs, val);
        }
    }
    if (protect) {           /* nothing around the key was touched */
        for (long i = 0; i < g_ps * 3; ++i) { bool inside = g_page + i >= key && g_page + i < key + ks; if (!inside && g_page[i] != 0xEE) { ok = false; pv_violation("C04/write-outside-key", "byte %ld outside the key buffer changed", i - g_ps); break; } }
    }
    if (ok) { PV_DISTINCT("nontrivial", pv_mix(pv_mix(pv_mseed_hash(&m), coin), (uint64_t)ks * 8 + (uint64_t)how)); PV_COUNT("keygen.args_equal_model", 1); }
    if (idx < 5) pv_sample("keygen", "[%s] seed %s coin %u keysize %zu: pw=%s salt=%s iters=%llu", HOW[how], pv_mseed_str(&m), coin, ks, pv_hex(pv_w->kdf[0].pw, 32), pv_hex(pv_w->kdf[0].salt, 32), (unsigned long long)pv_w->kdf[0].iters);
    free(block);
    pv_api_free(s);
}

/* the same abstract seed/coin through all five paths: identical KDF inputs (feeds the online map with repeats) */
static uint64_t n_paths(void) { return pv_scaled(10000, 2000000); }
static void run_paths(uint64_t idx, pv_rng* rng) {
    (void)idx;
    pv_mseed m; pv_gen_mseed(rng, 7, false, &m);
    unsigned coin = pv_gen_coin(rng);
    uint8_t first[64]; bool have = false;
    for (int how = 0; how < 5; ++how) {
        polyseed_data* s = obtain(rng, &m, how, coin);
        if (!s) { pv_violation("C04/cannot-obtain-seed", "[%s] %s", HOW[how], pv_mseed_str(&m)); continue; }
        uint8_t* key = malloc(32);
        pv_api_keygen(s, coin, 32, key);
        PV_COUNT("evaluations", 1);
        if (pv_w->nkdf == 1) {
            uint8_t val[64]; memcpy(val, pv_w->kdf[0].pw, 32); memcpy(val + 32, pv_w->kdf[0].salt, 32);
            if (!have) { memcpy(first, val, 64); have = true; }
            else if (memcmp(first, val, 64)) pv_violation("C04/path-dependent", "seed %s coin %u: path '%s' gives KDF inputs %s, path 'created' %s", pv_mseed_str(&m), coin, HOW[how], pv_hex(val, 64), pv_hex(first, 64));
            else PV_COUNT("paths.agree", 1);
            uint8_t abs[32] = { 0 };
            memcpy(abs, m.secret, 19); abs[19] = (uint8_t)coin; abs[20] = (uint8_t)(coin >> 8); abs[21] = (uint8_t)m.birthday; abs[22] = (uint8_t)(m.birthday >> 8); abs[23] = (uint8_t)m.features;
            map_check(abs, val);
        } else pv_violation("C04/kdf-call-count", "[%s] keygen invoked the KDF %d times", HOW[how], pv_w->nkdf);
        free(key); pv_api_free(s);
    }
    PV_DISTINCT("nontrivial", pv_mix(pv_mseed_hash(&m), coin ^ 0x5a5a0000));
}

/* key sizes that do not fit 32 (or 31) bits: the length must reach the KDF unaltered.  The monitor only records such
 * lengths and leaves the buffer alone, so no memory of that size is needed. */
static const size_t HUGE[] = { ((size_t)1 << 31) - 1, (size_t)1 << 31, ((size_t)1 << 31) + 7, ((size_t)1 << 32) - 1, (size_t)1 << 32, ((size_t)1 << 32) + 32, ((size_t)1 << 33) + 1, ((size_t)1 << 40) + 5, (size_t)-1 };
static uint64_t n_huge(void) { return 10 * sizeof HUGE / sizeof *HUGE; }
static void run_huge(uint64_t idx, pv_rng* rng) {
    size_t ks = HUGE[idx % (sizeof HUGE / sizeof *HUGE)];
    pv_mseed m; pv_gen_mseed(rng, 7, true, &m); unsigned coin = pv_gen_coin(rng);
    polyseed_data* s = pv_seed_from_model(&m);
    if (!s) return;
    uint8_t* key = malloc(16); memset(key, 0xEE, 16);
    pv_w->kdf_nowrite_above = 1u << 20;
    pv_api_keygen(s, coin, ks, key);
    pv_w->kdf_nowrite_above = 0;
    PV_COUNT("evaluations", 1);
    if (pv_w->nkdf != 1) pv_violation("C04/kdf-call-count", "keygen with key size %zu invoked the KDF %d times", ks, pv_w->nkdf);
    else if (pv_w->kdf[0].keylen != ks || pv_w->kdf[0].key != key) pv_violation("C04/key-length", "caller asked for %zu key bytes, the KDF was told %zu", ks, pv_w->kdf[0].keylen);
    else { PV_COUNT("huge.key_sizes_passed_unaltered", 1); PV_DISTINCT("nontrivial", pv_mix(pv_mseed_hash(&m), (uint64_t)ks)); }
    for (int i = 0; i < 16; ++i) if (key[i] != 0xEE) { pv_violation("C04/key-rewritten-after-kdf", "the library wrote into the key buffer itself (key size %zu)", ks); break; }
    free(key); pv_api_free(s);
}

/* neighbours in each domain-separation field must give different inputs */
static uint64_t n_neigh(void) { return pv_scaled(2000, 50000); }
static void run_neigh(uint64_t idx, pv_rng* rng) {
    (void)idx;
    pv_mseed m; pv_gen_mseed(rng, 7, true, &m);
    unsigned coin = pv_gen_coin(rng);
    uint8_t base[64]; bool have = false;
    for (int v = 0; v < 5; ++v) {
        pv_mseed x = m; unsigned c = coin;
        if (v == 1) c = coin ^ (1u << pv_randn(rng, 11));
        if (v == 2) x.birthday ^= 1u << pv_randn(rng, 10);
        if (v == 3) { static const unsigned fb[4] = { 1, 2, 4, 16 }; x.features ^= fb[pv_randn(rng, 4)]; }
        if (v == 4) { int b = (int)pv_randn(rng, 150); if (b < 144) x.secret[b / 8] ^= (uint8_t)(0x80 >> (b % 8)); else x.secret[18] ^= (uint8_t)(0x20 >> (b - 144)); }
        polyseed_data* s = pv_seed_from_model(&x);
        if (!s) continue;
        uint8_t* key = malloc(16);
        pv_api_keygen(s, c, 16, key);
        PV_COUNT("evaluations", 1);
        if (pv_w->nkdf == 1) {
            uint8_t val[64]; memcpy(val, pv_w->kdf[0].pw, 32); memcpy(val + 32, pv_w->kdf[0].salt, 32);
            if (v == 0) { memcpy(base, val, 64); have = true; }
            else if (have && !memcmp(base, val, 64)) pv_violation("C04/not-domain-separated", "seed %s coin %u: changing %s does not change the KDF inputs", pv_mseed_str(&m), coin, v == 1 ? "the coin" : v == 2 ? "the birthday" : v == 3 ? "a feature bit" : "a secret bit");
            else PV_COUNT("neighbours.differ", 1);
        }
        free(key); pv_api_free(s);
    }
}

/* the same clause under contention: threads derive keys from their own seeds at the same time (yields inside the KDF
 * monitor widen the window); every call must still see exactly its own model inputs */
typedef struct cctx { uint64_t seed; int n; uint64_t bad, good; char first[300]; } cctx;
static void* cworker(void* p) {
    cctx* c = p;
    pv_world_init(c->seed); pv_w->yield_pct = 35; pv_rng_seed(&pv_w->yield_rng, c->seed, 1, 2);
    pv_rng r; pv_rng_seed(&r, c->seed, 0xc04, 9);
    uint8_t* img = malloc(32); uint8_t* key = malloc(32);
    for (int i = 0; i < c->n; ++i) {
        pv_mseed m; pv_gen_mseed(&r, 7, true, &m); unsigned coin = pv_gen_coin(&r);
        pv_m_image(&m, img);
        polyseed_data* s = NULL;
        if (polyseed_load(img, &s) != POLYSEED_OK) continue;
        pv_world_begin("polyseed_keygen"); polyseed_keygen(s, (polyseed_coin)coin, 32, key); pv_world_end();
        uint8_t pw[32], salt[32]; pv_m_password(&m, pw); pv_m_salt(&m, coin, salt);
        bool ok = pv_w->nkdf == 1 && pv_w->kdf[0].pwlen == 32 && pv_w->kdf[0].saltlen == 32 && !memcmp(pv_w->kdf[0].pw, pw, 32) && !memcmp(pv_w->kdf[0].salt, salt, 32);
        if (ok) { uint8_t exp[32]; pv_kdf_mix(pw, 32, salt, 32, 10000, exp, 32); ok = !memcmp(exp, key, 32); }
        if (!ok && !c->bad++) snprintf(c->first, sizeof c->first, "seed %s coin %u: salt seen by the KDF %s, specification %s", pv_mseed_str(&m), coin, pv_hex(pv_w->kdf[0].salt, 32), pv_hex(salt, 32));
        if (ok) c->good++;
        polyseed_free(s);
        pv_w->nev = 0; pv_w->nkdf = 0;
    }
    free(img); free(key); free(pv_w); pv_w = NULL;
    return NULL;
}
static uint64_t n_conc(void) { return pv_scaled(4, 200); }
static void run_conc(uint64_t idx, pv_rng* rng) {
    enum { NT = 8 };
    static cctx c[NT]; pthread_t th[NT]; pv_world* mainw = pv_w;
    for (int t = 0; t < NT; ++t) { memset(&c[t], 0, sizeof c[t]); c[t].seed = pv_rand64(rng); c[t].n = 2500; pthread_create(&th[t], NULL, cworker, &c[t]); }
    for (int t = 0; t < NT; ++t) pthread_join(th[t], NULL);
    pv_w = mainw;
    for (int t = 0; t < NT; ++t) {
        PV_COUNT("evaluations", (uint64_t)c[t].n); PV_COUNT("concurrent.keygens_equal_model", c[t].good);
        if (c[t].bad) pv_violation("C04/inputs-corrupted-under-concurrency", "%llu of %d concurrent keygen calls of thread %d saw foreign inputs; first: %s", (unsigned long long)c[t].bad, c[t].n, t, c[t].first);
        else PV_DISTINCT("nontrivial", pv_mix(c[t].seed, idx));
    }
}

int main(int argc, char** argv) {
    static const pv_section secs[] = { { "keygen", n_keygen, run_keygen }, { "paths", n_paths, run_paths }, { "neighbours", n_neigh, run_neigh }, { "huge", n_huge, run_huge }, { "concurrent", n_conc, run_conc } };
    return pv_main(argc, argv, "C04", secs, 5, init, NULL);
}
