/* drv_c15 — no leak, double free or foreign free; allocation failure is reported cleanly (DESIGN 3/C15)
 * Level: fault enumeration.  Oracle: the allocator ledger of the instrumented world after every call (conservation:
 * allocated = freed + held by live seeds), verdicts of the injected free, and the status rule
 * "an allocation failed during the call => ERR_MEMORY, no seed; none failed => the fault-free status". */
#include "pv.h"

enum { E_CREATE, E_DECODE, E_EXPLICIT, E_LOAD, E_N };
static const char* const ENAME[] = { "create", "decode", "decode_explicit", "load" };
enum { O_OK, O_NUM_WORDS, O_LANG, O_MULT_LANG, O_CHECKSUM, O_FORMAT, O_UNSUPPORTED, O_N };
static const char* const ONAME[] = { "OK", "NUM_WORDS", "LANG", "MULT_LANG", "CHECKSUM", "FORMAT", "UNSUPPORTED" };
static const int OSTATUS[] = { POLYSEED_OK, POLYSEED_ERR_NUM_WORDS, POLYSEED_ERR_LANG, POLYSEED_ERR_MULT_LANG, POLYSEED_ERR_CHECKSUM, POLYSEED_ERR_FORMAT, POLYSEED_ERR_UNSUPPORTED };
static bool possible(int e, int o) {
    if (e == E_CREATE) return o == O_OK || o == O_UNSUPPORTED;
    if (e == E_LOAD) return o == O_OK || o == O_FORMAT || o == O_CHECKSUM || o == O_UNSUPPORTED;
    if (e == E_EXPLICIT) return o != O_MULT_LANG && o != O_FORMAT;
    return o != O_FORMAT;
}

static void init(void) {
    pv_world_init(pv.seed);
    pv_model_init();
    pv_inject_default();
    pv_model_bind_library();
    pv_api_enable_features(3);
    pv_info("rule", "fault enumeration: entry point {create, decode, decode_explicit, load} x outcome class {OK, NUM_WORDS, LANG, MULT_LANG, CHECKSUM, FORMAT, UNSUPPORTED} x which allocation "
                    "request fails {none, 1st, ..., one more than observed fault-free}; all 2^n fault masks over call sequences of n <= 8 constructors mixed with free/crypt/encode; random "
                    "sequences with random masks; the libc path (alloc/free entries NULL) observed through link-time interposition and LeakSanitizer. After every call: ledger conservation, "
                    "no foreign/double free, free(NULL) silent, failed allocation => ERR_MEMORY and no seed, next call normal, results equal to the model although fresh memory is junk-filled. "
                    "non-trivial = a (site, outcome, fault choice) execution whose ledger and status satisfied the rule; distinct = distinct (entry, outcome, fault index, input)");
}

typedef struct input { int e, o; unsigned coin, features; pv_mlang* L; char* str; uint8_t* buf; pv_mseed m; bool have_seed; } input;
static void input_free(input* in) { free(in->str); free(in->buf); }

static bool make_input(int e, int o, pv_rng* rng, input* in) {
    memset(in, 0, sizeof *in); in->e = e; in->o = o;
    do { in->L = &pv_langs[pv_randn(rng, (uint32_t)pv_nlangs)]; } while (!in->L->lib);
    in->coin = pv_gen_coin(rng);
    pv_gen_mseed(rng, 3, e != E_CREATE, &in->m); in->have_seed = true;
    if (o == O_UNSUPPORTED) in->m.features |= (e == E_CREATE) ? 4 : (pv_randn(rng, 2) ? 8 : 4);
    if (e == E_CREATE) { in->features = in->m.features; return true; }
    if (e == E_LOAD) {
        in->buf = malloc(32); pv_m_image(&in->m, in->buf);
        if (o == O_FORMAT) { uint32_t k = pv_randn(rng, 4); if (k == 0) in->buf[pv_randn(rng, 8)] ^= 1; else if (k == 1) in->buf[29] = 0xfe; else if (k == 2) in->buf[28] |= 0x80; else in->buf[31] |= 0x80; }
        if (o == O_CHECKSUM) in->buf[30] ^= (uint8_t)(1u << pv_randn(rng, 8));
        return true;
    }
    unsigned d[16]; pv_m_coeffs(&in->m, in->coin, d);
    if (o == O_MULT_LANG) {
        int a = (int)(in->L - pv_langs), b = -1;
        for (int k = 0; k < pv_nlangs; ++k) if (k != a && pv_langs[k].lib && pv_overlap(a, k, NULL) >= 200) b = k;
        if (b < 0) { a = (int)(pv_lang_by_name("Chinese (Simplified)") - pv_langs); b = (int)(pv_lang_by_name("Chinese (Traditional)") - pv_langs); in->L = &pv_langs[a]; }
        if (!pv_gen_ambiguous(rng, a, b, in->coin, 3, d, &in->m)) return false;
    }
    if (o == O_CHECKSUM) { int p = (int)pv_randn(rng, 16); d[p] = (d[p] + 1 + pv_randn(rng, 2046)) & 2047; }
    char raw[4096]; pv_m_join_space(in->L, d, raw, sizeof raw);
    if (o == O_NUM_WORDS) { if (pv_randn(rng, 2)) strcat(raw, " extra"); else *strrchr(raw, ' ') = 0; }
    if (o == O_LANG) { char* sp = strchr(raw, ' '); memmove(sp + 8, sp, strlen(sp) + 1); memcpy(sp, " qqqqqqq", 8); char* last = strrchr(raw, ' '); *last = 0; }
    char* s = (in->L->compose && pv_randn(rng, 2)) ? pv_nfc_alloc(raw) : pv_exact_str(raw);
    in->str = pv_exact_str(s); free(s);
    return true;
}
static bool g_stale_out;       /* leave a stale pointer (the most recently freed seed) in *seed_out, as callers that reuse a variable do */
static int call(const input* in, polyseed_data** out) {
    *out = (g_stale_out && pv_w->cache_ptr) ? (polyseed_data*)pv_w->cache_ptr : NULL;
    switch (in->e) {
    case E_CREATE: return pv_api_create(in->features, out);
    case E_DECODE: return pv_api_decode(in->str, in->coin, NULL, out);
    case E_EXPLICIT: return pv_api_decode_explicit(in->str, in->coin, in->L->lib, out);
    default: return pv_api_load(in->buf, out);
    }
}

/* ledger verdicts of the call that just returned */
static bool ledger_ok(const char* what, int held_before, int held_after_expected) {
    bool ok = true;
    for (int i = 0; i < pv_w->nev; ++i) if (pv_w->ev[i].kind == PV_EV_FREE) {
        uint64_t v = pv_w->ev[i].a;
        if (v & PV_FREE_FOREIGN) { ok = false; pv_violation("C15/foreign-free", "%s: a pointer that did not come from the injected allocator was passed to the injected free", what); }
        if (v & PV_FREE_DOUBLE) { ok = false; pv_violation("C15/double-free", "%s: a block was passed to the injected free twice", what); }
        if (v & PV_FREE_NULL) { ok = false; pv_violation("C15/free-null-reaches-free", "%s: NULL reached the injected free", what); }
    }
    if (pv_ledger_live() != held_after_expected) {
        ok = false;
        char key[128]; snprintf(key, sizeof key, pv_ledger_live() > held_after_expected ? "C15/leak/%s" : "C15/lost-block/%s", what);
        pv_violation(key, "%s: %d blocks live, expected %d (before the call: %d)", what, pv_ledger_live(), held_after_expected, held_before);
        if (pv_ledger_live() > held_after_expected) pv_ledger_reclaim(held_after_expected);
    }
    return ok;
}

/* ---------------------------------------------------------------- the first call of a process meets the failing allocator
 * Forked children of a process that has made no call yet (this section runs first): whatever the library sets up on first
 * use happens while the allocator refuses its k-th request.  The status rule and the ledger must hold for that call, and
 * "subsequent calls behave normally": one fault-free call of every entry point afterwards equals the model. */
typedef struct fu_arg { int e, o, k; uint64_t seed; } fu_arg;
static int fu_child(void* p) {
    fu_arg* a = p; pv_rng r; pv_rng_seed(&r, a->seed, 0xf15, (uint64_t)(a->e * 64 + a->o * 8 + a->k));
    input in; if (!make_input(a->e, a->o, &r, &in)) return 0;
    polyseed_data* s = NULL;
    pv_w->fail_countdown = a->k;
    int st = call(&in, &s);
    bool failed = pv_w->alloc_failed_in_call > 0; pv_w->fail_countdown = 0;
    if (failed && st != POLYSEED_ERR_MEMORY) return 20 + (st & 7);
    int exp = OSTATUS[a->o];
    if (a->e == E_DECODE || a->e == E_EXPLICIT) { pv_mdecode md; pv_m_decode(in.str, in.coin, a->e == E_DECODE ? NULL : in.L, 3, &md); if (md.status >= 0) exp = md.status; }     /* e.g. a phrase that happens to be valid in two lists */
    if (!failed && st != exp) return 30 + (st & 7);
    if (st == POLYSEED_OK ? pv_ledger_live() < 1 : pv_ledger_live() != 0) return 40;
    if (st == POLYSEED_OK) pv_api_free(s);
    for (int e2 = 0; e2 < E_N; ++e2) for (int rep = 0; rep < 8; ++rep) {
        input i2; if (!make_input(e2, O_OK, &r, &i2)) continue;
        s = NULL; st = call(&i2, &s);
        if (e2 == E_DECODE && st == POLYSEED_ERR_MULT_LANG) { pv_mdecode md; pv_m_decode(i2.str, i2.coin, NULL, 3, &md); if (md.status == POLYSEED_ERR_MULT_LANG) { input_free(&i2); continue; } }
        if (st != POLYSEED_OK) return 50 + e2;
        if (e2 != E_CREATE) { const char* mm = pv_seed_mismatch(s, &i2.m, i2.coin); if (mm) return 60 + e2; }
        pv_api_free(s); input_free(&i2);
        if (pv_ledger_live() != 0) return 70 + e2;
    }
    return 0;
}
static uint64_t n_firstuse(void) { return (uint64_t)E_N * 3 * 3; }
static void run_firstuse(uint64_t idx, pv_rng* rng) {
    static const int OS[3] = { O_OK, O_CHECKSUM, O_UNSUPPORTED };
    fu_arg a = { (int)(idx % E_N), OS[(idx / E_N) % 3], 1 + (int)(idx / (E_N * 3)), pv_rand64(rng) };
    if (!possible(a.e, a.o)) return;
    pv_cur.note = "forked child: first call of the process with a failing allocator";
    int rc = pv_fork_case(fu_child, &a, 300);
    PV_COUNT("evaluations", 33);
    char what[96]; snprintf(what, sizeof what, "first-call/%s/%s/fail-request-%d", ENAME[a.e], ONAME[a.o], a.k);
    if (rc == 0) { PV_COUNT("firstuse.children_ok", 1); PV_DISTINCT("nontrivial", pv_mix(0xf15, idx)); return; }
    char key[160];
    if (rc >= 20 && rc < 30) { snprintf(key, sizeof key, "C15/status-after-failed-allocation/%s", what); pv_violation(key, "%s: a request was refused but the call returned %s", what, pv_status_name(rc - 20)); }
    else if (rc >= 30 && rc < 40) { snprintf(key, sizeof key, "C15/status/%s", what); pv_violation(key, "%s: no request was refused, status %s, expected %s", what, pv_status_name(rc - 30), ONAME[a.o]); }
    else if (rc == 40) { snprintf(key, sizeof key, "C15/leak/%s", what); pv_violation(key, "%s: ledger does not balance after the call", what); }
    else if (rc >= 50 && rc < 80) { snprintf(key, sizeof key, "C15/call-after-failure/%s", what); pv_violation(key, "%s: afterwards a fault-free %s %s", what, ENAME[rc % 10], rc < 60 ? "fails" : rc < 70 ? "returns a seed that differs from the model" : "leaves a block allocated"); }
    else { snprintf(key, sizeof key, "C15/crash/%s", what); pv_violation(key, "%s: child ended with %d", what, rc); }
}

/* How many blocks a seed consists of is the library's business (one today): a successful constructor must keep at least one block,
 * a failed one none, and freeing the seed must give back exactly what its constructor kept. */
static int kept(int st, int held_before) { int k = pv_ledger_live() - held_before; return st == POLYSEED_OK ? (k >= 1 ? k : 1) : 0; }

/* ---------------------------------------------------------------- site x outcome x fault choice */
static uint64_t n_matrix(void) { return (uint64_t)E_N * O_N * pv_scaled(200, 20000); }
static void run_matrix(uint64_t idx, pv_rng* rng) {
    int e = (int)(idx % E_N), o = (int)((idx / E_N) % O_N);
    if (!possible(e, o)) return;
    input in;
    if (!make_input(e, o, rng, &in)) { pv_countf(1, "matrix.unbuildable.%s.%s", ENAME[e], ONAME[o]); return; }
    char what[64]; snprintf(what, sizeof what, "%s/%s", ENAME[e], ONAME[o]);
    /* half of the cases: address-reusing allocator + stale value left in the out parameter */
    pv_w->reuse_mode = (idx / (E_N * O_N)) & 1; g_stale_out = pv_w->reuse_mode;
    if (g_stale_out) { polyseed_data* w0 = NULL; uint8_t* b0 = malloc(32); pv_mseed m0; memset(&m0, 0, sizeof m0); pv_m_image(&m0, b0); if (pv_api_load(b0, &w0) == POLYSEED_OK) pv_api_free(w0); free(b0); PV_COUNT("matrix.cases_with_stale_out_pointer_and_address_reuse", 1); }
    pv_w->align8_mode = (idx / (E_N * O_N)) % 3 == 2;          /* blocks that are 8- but not 16-byte aligned: enough for the seed object */
    if (pv_w->align8_mode) PV_COUNT("matrix.cases_with_8_byte_aligned_blocks", 1);
    int held = pv_ledger_live();
    /* fault-free reference execution */
    polyseed_data* s; int st0 = call(&in, &s);
    PV_COUNT("evaluations", 1);
    int nalloc = pv_ev_count(PV_EV_ALLOC);
    bool ok = true;
    if (st0 != OSTATUS[o]) { pv_countf(1, "matrix.other_outcome.%s.%s", ENAME[e], ONAME[o]); }      /* status agreement with the model is judged by C01/C06/C09 */
    int k0 = kept(st0, held);
    ok &= ledger_ok(what, held, held + k0);
    if (st0 == POLYSEED_OK) {
        if (!pv_ledger_is_live(s)) { ok = false; pv_violation("C15/seed-not-from-injected-allocator", "%s returned a seed that does not lie in any block the injected allocator handed out", what); }
        if (in.have_seed && e != E_CREATE) { const char* mm = pv_seed_mismatch(s, &in.m, in.coin); if (mm) { ok = false; pv_violation("C15/junk-memory-visible", "%s: seed built in junk-filled memory differs from the model: %s", what, mm); } }
        pv_api_free(s);
        ok &= ledger_ok("free", held + k0, held);
    }
    pv_countf(1, "matrix.cell.%s.%s.fault-none", ENAME[e], ONAME[o]);
    /* fail the k-th request */
    for (int k = 1; k <= nalloc + 1; ++k) {
        pv_w->fail_countdown = k;
        int st = call(&in, &s);
        bool failed = pv_w->alloc_failed_in_call > 0;
        pv_w->fail_countdown = 0;
        PV_COUNT("evaluations", 1);
        char w2[96]; snprintf(w2, sizeof w2, "%s/fail-request-%d", what, k);
        if (failed) {
            PV_COUNT("faults.injected", 1);
            if (st != POLYSEED_ERR_MEMORY) { ok = false; char key[128]; snprintf(key, sizeof key, "C15/alloc-failure-not-reported/%s", ENAME[e]); pv_violation(key, "%s: allocation request %d failed but the call returned %s", what, k, pv_status_name(st)); if (st == POLYSEED_OK) { pv_api_free(s); } }
            ok &= ledger_ok(w2, held, held);
        } else {
            if (st != st0) { ok = false; pv_violation("C15/armed-but-unused-failure-changes-result", "%s: no allocation failed, yet status %s instead of %s", w2, pv_status_name(st), pv_status_name(st0)); }
            int k2 = kept(st, held);
            ok &= ledger_ok(w2, held, held + k2);
            if (st == POLYSEED_OK) { pv_api_free(s); ok &= ledger_ok("free", held + k2, held); }
        }
        pv_countf(1, "matrix.cell.%s.%s.fault-%d%s", ENAME[e], ONAME[o], k, failed ? "(hit)" : "(not reached)");
        /* the next call behaves normally */
        st = call(&in, &s);
        PV_COUNT("evaluations", 1);
        if (st != st0) { ok = false; pv_violation("C15/call-after-failure-misbehaves", "%s: after a failed allocation the same call returns %s instead of %s", what, pv_status_name(st), pv_status_name(st0)); }
        if (st == POLYSEED_OK) pv_api_free(s);
        ok &= ledger_ok("call-after-failure", held, held);
        PV_DISTINCT("nontrivial", pv_mix(pv_mix((uint64_t)e * 16 + (uint64_t)o, (uint64_t)k), in.str ? pv_hash_str(in.str) : in.buf ? pv_hash(in.buf, 32, 1) : in.features));
    }
    /* free(NULL) does nothing */
    pv_api_free(NULL);
    if (pv_ev_count(PV_EV_FREE) || pv_ev_count(PV_EV_MEMZERO)) { ok = false; pv_violation("C15/free-null-reaches-free", "polyseed_free(NULL) called %d free / %d memzero", pv_ev_count(PV_EV_FREE), pv_ev_count(PV_EV_MEMZERO)); }
    else PV_COUNT("free_null.silent", 1);
    g_stale_out = false; pv_w->reuse_mode = 0; pv_w->align8_mode = 0; if (pv_w->cache_ptr) { free(pv_w->cache_base); pv_w->cache_ptr = NULL; }
    if (ok) PV_COUNT("matrix.cases_ok", 1);
    if (idx < E_N * O_N) pv_sample("matrix", "%s: %d allocation request(s) fault-free; failing request 1..%d; input %s", what, nalloc, nalloc + 1, in.str ? pv_esc(in.str) : in.buf ? pv_hex(in.buf, 32) : "create");
    input_free(&in);
}

/* ---------------------------------------------------------------- all 2^n fault masks over short sequences */
#define MAXSEQ 8
static uint64_t n_masks(void) { return pv_scaled(200, 20000); }
static void run_masks(uint64_t idx, pv_rng* rng) {
    int n = 3 + (int)(idx % (MAXSEQ - 2));
    input in[MAXSEQ]; int nin = 0;
    for (int i = 0; i < n; ++i) { int e = (int)pv_randn(rng, E_N), o = pv_randn(rng, 3) ? O_OK : (int)pv_randn(rng, O_N); if (!possible(e, o) || !make_input(e, o, rng, &in[nin])) { --i; continue; } ++nin; }
    char* out = malloc(POLYSEED_STR_SIZE);
    for (unsigned mask = 0; mask < (1u << n); ++mask) {
        int held0 = pv_ledger_live();
        polyseed_data* live[MAXSEQ]; int liveblocks[MAXSEQ]; int nlive = 0;
        pv_w->fail_mask = mask; pv_w->fail_mask_n = n;        /* the i-th allocation request of the sequence fails iff bit i is set */
        for (int i = 0; i < n; ++i) {
            polyseed_data* s; int before = pv_ledger_live();
            int st = call(&in[i], &s);
            bool failed = pv_w->alloc_failed_in_call > 0;
            PV_COUNT("evaluations", 1);
            if (failed && st != POLYSEED_ERR_MEMORY) { pv_violation("C15/alloc-failure-not-reported/sequence", "step %d (%s): allocation failed, status %s", i, ENAME[in[i].e], pv_status_name(st)); }
            if (!failed && st == POLYSEED_ERR_MEMORY) pv_violation("C15/spurious-memory-error", "step %d (%s): ERR_MEMORY although no allocation failed", i, ENAME[in[i].e]);
            int kq = kept(st, before);
            ledger_ok("sequence-step", before, before + kq);
            if (st == POLYSEED_OK) {
                liveblocks[nlive] = kq; live[nlive++] = s;
                /* interleave other operations on the seed; whatever they allocate must be returned before they return */
                int b2 = pv_ledger_live();
                if (i & 1) { pv_api_crypt(s, "k"); pv_api_crypt(s, "k"); }
                else pv_api_encode(s, in[i].L->lib, in[i].coin, out);
                if (pv_ledger_live() != b2) pv_violation("C15/leak/crypt-or-encode", "crypt/encode changed the number of live blocks by %d", pv_ledger_live() - b2);
            }
            if (nlive && pv_randn(rng, 3) == 0) { int b4 = pv_ledger_live(); --nlive; pv_api_free(live[nlive]); ledger_ok("sequence-free", b4, b4 - liveblocks[nlive]); }
        }
        pv_w->fail_mask_n = 0; pv_w->fail_mask = 0;
        while (nlive) { int b4 = pv_ledger_live(); --nlive; pv_api_free(live[nlive]); ledger_ok("sequence-free", b4, b4 - liveblocks[nlive]); }
        if (pv_ledger_live() != held0) pv_violation("C15/leak/sequence", "mask %#x over %d calls: %d blocks left", mask, n, pv_ledger_live() - held0);
        PV_COUNT("masks.enumerated", 1);
        PV_DISTINCT("nontrivial", pv_mix(pv_mix(0x3a5c, idx), mask));
    }
    if (idx < 2) pv_sample("masks", "sequence of %d constructor calls (%s, %s, %s, ...) under all %u fault masks", n, ENAME[in[0].e], ENAME[in[1].e], ENAME[in[2].e], 1u << n);
    free(out);
    for (int i = 0; i < nin; ++i) input_free(&in[i]);
}

/* ---------------------------------------------------------------- libc path: alloc/free entries NULL */
static uint64_t n_libc(void) { return pv_scaled(3000, 600000); }
static void run_libc(uint64_t idx, pv_rng* rng) {
    static bool switched;
    if (!switched) { polyseed_dependency t; pv_world_table(&t, 0, true, false, false); pv_api_inject(&t); switched = true; }
    int e = (int)(idx % E_N), o = pv_randn(rng, 2) ? O_OK : (int)pv_randn(rng, O_N);
    input in;
    if (!possible(e, o) || !make_input(e, o, rng, &in)) return;
    uint64_t m0 = pv_wrap_count[PV_WRAP_MALLOC], f0 = pv_wrap_count[PV_WRAP_FREE];
    polyseed_data* s; int st = call(&in, &s);
    PV_COUNT("evaluations", 1);
    uint64_t dm = pv_wrap_count[PV_WRAP_MALLOC] - m0, df = pv_wrap_count[PV_WRAP_FREE] - f0;
    if (pv_ev_count(PV_EV_ALLOC) || pv_ev_count(PV_EV_FREE)) pv_violation("C15/libc-path/stale-injected-allocator", "%s: injected alloc/free called although the entries are NULL", ENAME[e]);
    uint64_t keptl = dm > df ? dm - df : 0;          /* blocks the returned seed consists of (one today) */
    if (st == POLYSEED_OK ? keptl < 1 : dm != df) pv_violation("C15/libc-path/leak", "%s -> %s: %llu malloc, %llu free inside the call", ENAME[e], pv_status_name(st), (unsigned long long)dm, (unsigned long long)df);
    else pv_countf(1, "libc.calls_balanced.%s", pv_status_name(st));
    if (st == POLYSEED_OK) {
        f0 = pv_wrap_count[PV_WRAP_FREE]; m0 = pv_wrap_count[PV_WRAP_MALLOC];
        pv_api_free(s);           /* ASan reports double/invalid frees on this path; LeakSanitizer reports leaks at exit */
        if (pv_wrap_count[PV_WRAP_FREE] - f0 != keptl || pv_wrap_count[PV_WRAP_MALLOC] != m0) pv_violation("C15/libc-path/free", "polyseed_free: %llu libc free calls", (unsigned long long)(pv_wrap_count[PV_WRAP_FREE] - f0));
        else PV_COUNT("libc.seed_freed_once", 1);
    }
    /* the libc allocator runs out of memory: the same status rule as for an injected allocator (no crash, MEMORY, no seed, balanced) */
    if (idx % 3 == 0) {
        uint64_t r0 = pv_wrap_malloc_refused; m0 = pv_wrap_count[PV_WRAP_MALLOC] + pv_wrap_count[PV_WRAP_CALLOC]; f0 = pv_wrap_count[PV_WRAP_FREE];
        pv_wrap_malloc_fail_countdown = 1 + (long)pv_randn(rng, 2);
        pv_cur.note = "libc malloc/calloc refuses a request made inside this call";
        polyseed_data* s2 = NULL; int st2 = call(&in, &s2);
        pv_wrap_malloc_fail_countdown = 0; pv_cur.note = NULL;
        PV_COUNT("evaluations", 1);
        bool refused = pv_wrap_malloc_refused != r0;
        dm = pv_wrap_count[PV_WRAP_MALLOC] + pv_wrap_count[PV_WRAP_CALLOC] - m0 - (refused ? 1 : 0); df = pv_wrap_count[PV_WRAP_FREE] - f0;
        if (refused && st2 != POLYSEED_ERR_MEMORY) pv_violation("C15/libc-path/alloc-failure-not-reported", "%s: libc refused an allocation but the call returned %s", ENAME[e], pv_status_name(st2));
        else if (!refused && st2 != st) pv_violation("C15/libc-path/status", "%s: %s, then %s for the same input", ENAME[e], pv_status_name(st), pv_status_name(st2));
        else if (st2 == POLYSEED_OK ? dm < df + 1 : dm != df) pv_violation("C15/libc-path/leak", "%s -> %s with a refused libc allocation: %llu successful allocations, %llu frees", ENAME[e], pv_status_name(st2), (unsigned long long)dm, (unsigned long long)df);
        else if (refused) PV_COUNT("libc.refused_allocation_reported_as_MEMORY", 1);
        if (st2 == POLYSEED_OK) pv_api_free(s2);
    }
    PV_DISTINCT("nontrivial", pv_mix(0x11bc, idx));
    input_free(&in);
}

static void fini(void) { pv_set_flag("exhaustive.site_x_outcome_x_failing_request", true); pv_set_flag("exhaustive.all_fault_masks_over_each_sampled_sequence", true); }
int main(int argc, char** argv) {
    /* "libc" is last: it re-injects a table without alloc/free for the rest of the process */
    static const pv_section secs[] = { { "firstuse", n_firstuse, run_firstuse }, { "matrix", n_matrix, run_matrix }, { "masks", n_masks, run_masks }, { "libc", n_libc, run_libc } };
    return pv_main(argc, argv, "C15", secs, 4, init, fini);
}
