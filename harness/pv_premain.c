/* pv_premain.c — process phase.  A "sequence of API operations" may start before main(): a static initialiser of the application
 * (a C++ global, a constructor function) may create or restore a wallet.  When PV_PREMAIN is set, the first history of the process
 * is executed from a constructor that runs before every default-priority constructor - the library's own included, should it ever
 * grow one - and its results are kept; pv_main judges them against the model once the harness is up.  (Opt-in per run, because the
 * first-use sections of other runs need a process that has not touched the library yet.) */
#include "pv.h"
static struct { bool ran, created; int nl; char phrase[16][POLYSEED_STR_SIZE]; int st_explicit[16], st_auto[16]; uint8_t img[32], img_dec[16][32], img_crypt[32], key[32]; uint64_t birthday; unsigned feat; int enable_ret; } g_pre;
static const uint8_t PRE_RAND[19] = { 0x91, 0x3c, 0xe7, 0x05, 0xaa, 0x5f, 0x10, 0xd2, 0x77, 0x08, 0xfe, 0x63, 0x29, 0xb4, 0x4d, 0xc1, 0x36, 0x8a, 0xff };
#define PRE_TIME (PV_EPOCH + 123 * PV_STEP + 4567)
#define PRE_COIN 1u
static void pre_rand(void* p, size_t n) { for (size_t i = 0; i < n; ++i) ((uint8_t*)p)[i] = PRE_RAND[i % 19]; }
static uint64_t pre_time(void) { return PRE_TIME; }
static uint8_t g_salt[64]; static size_t g_saltlen; static uint8_t g_kpw[64]; static size_t g_kpwlen;
static void pre_kdf(const uint8_t* pw, size_t pwlen, const uint8_t* salt, size_t saltlen, uint64_t it, uint8_t* key, size_t keylen) {
    if (keylen == 32 && saltlen <= 64 && pwlen <= 64 && it == 10000 && pwlen == 32) { memcpy(g_salt, salt, saltlen); g_saltlen = saltlen; memcpy(g_kpw, pw, pwlen); g_kpwlen = pwlen; }
    pv_kdf_mix(pw, pwlen, salt, saltlen, it, key, keylen);
}
static void pre_zero(void* const p, const size_t n) { volatile uint8_t* v = p; for (size_t i = 0; i < n; ++i) v[i] = 0; }
__attribute__((constructor(101))) static void before_main(void) {
    if (!getenv("PV_PREMAIN")) return;
    g_pre.ran = true;
    polyseed_dependency d = { pre_rand, pre_kdf, pre_zero, pv_dep_nfc, pv_dep_nfkd, pre_time, NULL, NULL };
    polyseed_inject(&d);
    g_pre.enable_ret = polyseed_enable_features(1);
    polyseed_data* s = NULL;
    if (polyseed_create(1, &s) != POLYSEED_OK) return;
    g_pre.created = true;
    g_pre.birthday = polyseed_get_birthday(s); g_pre.feat = polyseed_get_feature(s, 7);
    polyseed_store(s, g_pre.img);
    polyseed_keygen(s, (polyseed_coin)PRE_COIN, 32, g_pre.key);
    g_pre.nl = polyseed_get_num_langs(); if (g_pre.nl > 16) g_pre.nl = 16;
    for (int l = 0; l < g_pre.nl; ++l) {
        const polyseed_lang* L = polyseed_get_lang(l);
        polyseed_encode(s, L, (polyseed_coin)PRE_COIN, g_pre.phrase[l]);
        polyseed_data* t = NULL; const polyseed_lang* lo = NULL;
        g_pre.st_explicit[l] = polyseed_decode_explicit(g_pre.phrase[l], (polyseed_coin)PRE_COIN, L, &t);
        if (g_pre.st_explicit[l] == POLYSEED_OK) { polyseed_store(t, g_pre.img_dec[l]); polyseed_free(t); }
        t = NULL; g_pre.st_auto[l] = polyseed_decode(g_pre.phrase[l], (polyseed_coin)PRE_COIN, &lo, &t);
        if (g_pre.st_auto[l] == POLYSEED_OK) { if (lo != L) g_pre.st_auto[l] = -1; polyseed_free(t); }
    }
    polyseed_crypt(s, "before main"); polyseed_store(s, g_pre.img_crypt);
    polyseed_free(s);
    polyseed_enable_features(0);          /* back to "no user feature enabled", which is what the sections that follow start from */
}
/* what: 1 phrases vs model, 2 decoding of those phrases, 4 created seed / serialisation / queries / KDF inputs vs model, 8 password operation */
void pv_premain_judge(const char* prop, unsigned what) {
    if (!g_pre.ran) return;
    char key[96];
#define KEY(k) (snprintf(key, sizeof key, "%s/before-main/%s", prop, k), key)
    PV_COUNT("evaluations", 1);
    if (!g_pre.created) { pv_violation(KEY("create-failed"), "polyseed_create called from a constructor (before main) did not return OK"); return; }
    pv_mseed m; memset(&m, 0, sizeof m); memcpy(m.secret, PRE_RAND, 19); m.secret[18] &= 0x3f; m.birthday = pv_m_birthday_of(PRE_TIME); m.features = 1;
    uint8_t want[32]; pv_m_image(&m, want);
    bool ok = true;
    if (what & 4) {
        if (g_pre.enable_ret != 1) { ok = false; pv_violation(KEY("enable-features"), "enable_features(1) before main returned %d", g_pre.enable_ret); }
        if (memcmp(want, g_pre.img, 32)) { ok = false; pv_violation(KEY("seed-differs-from-model"), "a seed created before main(): image %s, model %s", pv_hex(g_pre.img, 32), pv_hex(want, 32)); }
        if (g_pre.birthday != pv_m_birthday_time(m.birthday) || g_pre.feat != 1) { ok = false; pv_violation(KEY("queries"), "birthday %llu, features %u", (unsigned long long)g_pre.birthday, g_pre.feat); }
        uint8_t salt[32], pw[32]; pv_m_salt(&m, PRE_COIN, salt); pv_m_password(&m, pw);
        if (g_saltlen != 32 || memcmp(salt, g_salt, 32) || g_kpwlen != 32 || memcmp(pw, g_kpw, 32)) { ok = false; pv_violation(KEY("kdf-inputs"), "key derivation before main: salt %s (model %s)", pv_hex(g_salt, g_saltlen), pv_hex(salt, 32)); }
    }
    for (int l = 0; l < pv_nlangs; ++l) {
        pv_mlang* L = &pv_langs[l]; if (!L->lib) continue;
        int li = -1; for (int k = 0; k < g_pre.nl; ++k) if (polyseed_get_lang(k) == L->lib) li = k;
        if (li < 0) continue;
        char ph[2048]; pv_m_encode(&m, L, PRE_COIN, ph, sizeof ph);
        PV_COUNT("evaluations", 3);
        if ((what & 1) && strcmp(ph, g_pre.phrase[li])) { ok = false; pv_violation(KEY("phrase-differs-from-model"), "%s: '%s' before main, model '%s'", L->name_en, pv_esc(g_pre.phrase[li]), pv_esc(ph)); }
        if (what & 2) {
            if (g_pre.st_explicit[li] != POLYSEED_OK || memcmp(g_pre.img_dec[li], g_pre.img, 32)) { ok = false; pv_violation(KEY("decode"), "%s: decode_explicit of the phrase encoded before main -> %s", L->name_en, g_pre.st_explicit[li] >= 0 && g_pre.st_explicit[li] <= 7 ? pv_status_name(g_pre.st_explicit[li]) : "?"); }
            pv_mdecode md; pv_m_decode(g_pre.phrase[li], PRE_COIN, NULL, 1, &md);
            if (md.status >= 0 && (g_pre.st_auto[li] == -1 || g_pre.st_auto[li] != md.status)) { ok = false; pv_violation(KEY("decode-auto"), "%s: automatic decode before main -> %d, model %s", L->name_en, g_pre.st_auto[li], pv_status_name(md.status)); }
        }
        PV_COUNT("premain.languages_judged", 1);
    }
    if (what & 8) {
        pv_mseed e = m; uint8_t mask[32]; char* nf = pv_nfkd_alloc("before main"); static const uint8_t SALT[16] = "POLYSEED mask\0\xff\xff";
        pv_kdf_mix((const uint8_t*)nf, strlen(nf), SALT, 16, 10000, mask, 32); free(nf);
        pv_m_crypt(&e, mask); uint8_t w2[32]; pv_m_image(&e, w2);
        if (memcmp(w2, g_pre.img_crypt, 32)) { ok = false; pv_violation(KEY("crypt"), "password operation before main: image %s, model %s", pv_hex(g_pre.img_crypt, 32), pv_hex(w2, 32)); }
    }
    if (ok) { PV_COUNT("premain.history_before_main_agrees", 1); PV_DISTINCT("nontrivial", 0x9e3e ^ what); }
    pv_sample("premain", "a constructor that runs before every default-priority constructor injected, enabled, created, derived a key, encoded in %d languages, decoded, encrypted; judged after start-up (clauses %u)", g_pre.nl, what);
}
