/* drv_c01 — encoding a seed to a phrase and decoding it returns the identical seed (DESIGN 3/C01) */
#include "pv.h"

static char* g_out;
static unsigned g_mask = 7;

static void init(void) {
    pv_world_init(pv.seed);
    pv_model_init();
    pv_inject_default();
    pv_model_bind_library();
    pv_api_enable_features(7);
    g_out = malloc(POLYSEED_STR_SIZE);
    pv_info("rule", "seed (boundary-biased/random; obtained by load, create or crypt) x language x coin x enabled-feature mask: encode, compare with the model phrase, decode "
                    "explicitly and automatically; the decoded seed is compared through every observer (store bytes, birthday, 8 feature masks, encrypted flag, all PBKDF2 arguments). "
                    "Auto-detect must give the same seed and language, or MULT_LANG exactly when the model matcher finds a second language recognising all 16 words. "
                    "non-trivial = full round trip through both decoders completed; distinct = distinct (seed, language, coin)");
}

static void set_mask(unsigned m) { if (m != g_mask) { pv_api_enable_features(m); g_mask = m; } }

/* "identical seed" includes what the decoded seed does next: it is encoded again (same and other coin, same and other language)
 * and that second-generation phrase must be the model's phrase for the original abstract seed and decode again */
static pv_rng* g_rng2;
static bool second_generation(polyseed_data* a, const pv_mseed* m, pv_mlang* L, unsigned coin, const char* how, const char* via) {
    bool ok = true;
    for (int k = 0; k < 2; ++k) {
        pv_mlang* L2 = L; unsigned c2 = coin;
        if (k == 1) { do { L2 = &pv_langs[pv_randn(g_rng2, (uint32_t)pv_nlangs)]; } while (!L2->lib); c2 = pv_randn(g_rng2, 2) ? coin : pv_gen_coin(g_rng2); }
        char* out2 = malloc(POLYSEED_STR_SIZE);
        size_t n2 = pv_api_encode(a, L2->lib, c2, out2);
        PV_COUNT("evaluations", 1);
        char want[2048]; size_t wn = pv_m_encode(m, L2, c2, want, sizeof want);
        if (strcmp(want, out2) || n2 != wn) { ok = false; pv_violation("C01/decoded-seed-encodes-differently", "[%s, decoded by %s from %s coin %u] re-encoded in %s for coin %u: '%s' vs model '%s'", how, via, L->name_en, coin, L2->name_en, c2, pv_esc(out2), pv_esc(want)); }
        else {
            polyseed_data* b = NULL; int st = pv_api_decode_explicit(out2, c2, L2->lib, &b);
            PV_COUNT("evaluations", 1);
            if (st != POLYSEED_OK) { ok = false; pv_violation("C01/second-generation-phrase-does-not-decode", "[%s] %s coin %u -> %s coin %u: %s", how, L->name_en, coin, L2->name_en, c2, pv_status_name(st)); }
            else { const char* mm = pv_seed_mismatch(b, m, c2); if (mm) { ok = false; pv_violation("C01/second-generation-seed-differs", "[%s] %s", how, mm); } pv_api_free(b); PV_COUNT("second_generation.ok", 1); }
        }
        free(out2);
    }
    return ok;
}

/* one full round trip of library seed s (abstract value m) */
static void roundtrip(polyseed_data* s, const pv_mseed* m, pv_mlang* L, unsigned coin, const char* how) {
    size_t n = pv_api_encode(s, L->lib, coin, g_out);
    PV_COUNT("evaluations", 1);
    char want[2048]; size_t wn = pv_m_encode(m, L, coin, want, sizeof want);
    if (strcmp(want, g_out) || n != wn) { pv_violation("C01/phrase-differs-from-model", "[%s] %s coin %u %s: '%s' (ret %zu) vs model '%s'", how, L->name_en, coin, pv_mseed_str(m), pv_esc(g_out), n, pv_esc(want)); return; }
    char* in = pv_exact_str(g_out);
    /* a wallet may inject its dependencies again at any moment (here: between writing the phrase down and restoring from it);
     * neither the phrase nor the enabled features may notice */
    if (g_rng2 && pv_randn(g_rng2, 6) == 0) { pv_inject_default(); PV_COUNT("roundtrip.reinjected_between_encode_and_decode", 1); }
    /* explicit */
    polyseed_data* a = NULL;
    int st = pv_api_decode_explicit(in, coin, L->lib, &a);
    PV_COUNT("evaluations", 1);
    if (st != POLYSEED_OK) { pv_violation("C01/explicit-decode-fails", "[%s] %s coin %u mask %u seed %s: decode_explicit('%s') -> %s", how, L->name_en, coin, g_mask, pv_mseed_str(m), pv_esc(in), pv_status_name(st)); free(in); return; }
    const char* mm = pv_seed_mismatch(a, m, coin);
    if (mm) pv_violation("C01/explicit-decode-differs", "[%s] %s coin %u seed %s: %s", how, L->name_en, coin, pv_mseed_str(m), mm);
    bool sg_ok = mm ? true : second_generation(a, m, L, coin, how, "decode_explicit");
    pv_api_free(a);
    /* automatic */
    pv_mdecode md; pv_m_decode(in, coin, NULL, g_mask, &md);
    a = NULL; const polyseed_lang* lo = NULL;
    st = pv_api_decode(in, coin, &lo, &a);
    PV_COUNT("evaluations", 1);
    bool ok = !mm && sg_ok;
    if (md.status == POLYSEED_ERR_MULT_LANG) {
        PV_COUNT("auto.model_says_ambiguous", 1);
        if (st != POLYSEED_ERR_MULT_LANG) { ok = false; pv_violation("C01/auto-guesses-on-ambiguous-phrase", "[%s] %s: every word of '%s' exists in another list but decode -> %s", how, L->name_en, pv_esc(in), pv_status_name(st)); }
        else PV_COUNT("auto.mult_lang", 1);
    } else if (md.status == POLYSEED_OK) {
        if (st != POLYSEED_OK) { ok = false; pv_violation(st == POLYSEED_ERR_MULT_LANG ? "C01/auto-spurious-mult-lang" : "C01/auto-decode-fails", "[%s] %s coin %u: decode('%s') -> %s", how, L->name_en, coin, pv_esc(in), pv_status_name(st)); }
        else {
            if (lo != L->lib) { ok = false; pv_violation("C01/auto-wrong-language", "[%s] %s: detected '%s'", how, L->name_en, lo ? polyseed_get_lang_name_en(lo) : "(null)"); }
            const char* m2 = pv_seed_mismatch(a, m, coin);
            if (m2) { ok = false; pv_violation("C01/auto-decode-differs", "[%s] %s coin %u: %s", how, L->name_en, coin, m2); }
            else if (!second_generation(a, m, L, coin, how, "decode")) ok = false;
            PV_COUNT("auto.ok", 1);
        }
    } else { ok = false; pv_violation("C01/model-rejects-own-phrase", "model decode of '%s' -> %s (harness or library phrase problem)", pv_esc(in), pv_status_name(md.status)); }
    if (st == POLYSEED_OK) pv_api_free(a);
    /* "... or any other error": when the allocator refuses the request the decoders make for the seed object, the one error
     * that may come back for this valid phrase is the memory status (a sample of the round trips) */
    if (ok && g_rng2 && pv_randn(g_rng2, 8) == 0) {
        for (int e = 0; e < 2; ++e) {
            pv_w->fail_countdown = 1; a = NULL;
            int sf = e ? pv_api_decode_explicit(in, coin, L->lib, &a) : pv_api_decode(in, coin, NULL, &a);
            bool refused = pv_w->alloc_failed_in_call > 0; pv_w->fail_countdown = 0;
            PV_COUNT("evaluations", 1);
            int want = refused ? POLYSEED_ERR_MEMORY : (e ? POLYSEED_OK : md.status);
            if (!e && md.status == POLYSEED_ERR_MULT_LANG) want = POLYSEED_ERR_MULT_LANG;
            if (sf != want) { ok = false; pv_violation("C01/other-error-when-the-allocator-fails", "[%s] %s coin %u: %s with a refused allocation -> %s, expected %s", how, L->name_en, coin, e ? "decode_explicit" : "decode", pv_status_name(sf), pv_status_name(want)); }
            else PV_COUNT("roundtrip.decodes_with_failing_allocator", 1);
            if (sf == POLYSEED_OK) pv_api_free(a);
        }
    }
    if (ok) { PV_DISTINCT("nontrivial", pv_mix(pv_mix(pv_mseed_hash(m), coin), pv_hash_str(L->key))); pv_countf(1, "roundtrip.ok.%s", L->key); pv_countf(1, "roundtrip.how.%s", how); }
    free(in);
}

/* ---------------------------------------------------------------- main workload */
static uint64_t n_round(void) { return pv_scaled(40000, 700000); }
static void run_round(uint64_t idx, pv_rng* rng) {
    g_rng2 = rng;
    unsigned mask = (unsigned)(idx % 8);
    set_mask(mask);
    pv_mseed m; pv_gen_mseed(rng, mask, true, &m);
    unsigned coin = pv_gen_coin(rng);
    polyseed_data* s = NULL; const char* how;
    uint32_t via = pv_randn(rng, 3);
    if (via == 0 && !(m.features & 16)) {            /* created */
        uint8_t script[19]; memcpy(script, m.secret, 19); script[18] |= (uint8_t)(pv_randn(rng, 4) << 6);
        pv_set_rand_script(script, 19);
        pv_w->time_value = pv_m_birthday_time(m.birthday) + pv_randn(rng, (uint32_t)PV_STEP);
        /* every seed the library can hold includes the ones it creates while the clock is out of range, broken or in other units:
         * whatever birthday it stores then, the phrase must carry exactly that seed */
        if (pv_randn(rng, 8) == 0) { uint64_t t = pv_gen_odd_clock(rng); pv_w->time_value = t; m.birthday = pv_m_birthday_of(t); PV_COUNT("roundtrip.created_at_an_out_of_range_clock", 1); }
        /* high bits of the argument are ignored by contract */
        int st = pv_api_create(m.features | (pv_randn(rng, 2) ? 0xfffffff8u : 0), &s);
        pv_set_rand_prng();
        if (st != POLYSEED_OK) { pv_violation("C01/create-failed", "create(%u) under mask %u -> %s", m.features, mask, pv_status_name(st)); return; }
        how = "created";
    } else if (via == 1) {                            /* encrypted from a plain seed: model follows the mask the KDF stub returned */
        pv_mseed p = m; p.features &= ~16u;
        s = pv_seed_from_model(&p);
        if (!s) { pv_violation("C01/load-failed", "cannot load %s under mask %u", pv_mseed_str(&p), mask); return; }
        pv_api_crypt(s, "round trip password");
        if (pv_w->nkdf != 1) { pv_api_free(s); return; }
        m = p; uint8_t mk[32]; memcpy(mk, pv_w->kdf[0].key_written, 32); pv_m_crypt(&m, mk);
        how = "crypted";
    } else {
        s = pv_seed_from_model(&m);
        if (!s) { pv_violation("C01/load-failed", "cannot load %s under mask %u", pv_mseed_str(&m), mask); return; }
        how = "loaded";
    }
    /* "identical seed": the decoded seeds are compared with the abstract value m below; the seed that is encoded must itself be that
     * value through every observer (store bytes, KDF inputs, queries) - otherwise a seed that carries something a phrase cannot
     * (stray bits beyond the 150th after the password operation, say) would come back different without anybody noticing */
    { const char* om = pv_seed_mismatch(s, &m, coin); PV_COUNT("evaluations", 1);
      if (om) { pv_violation("C01/encoded-seed-is-not-what-decoding-returns", "[%s] mask %u coin %u: the seed handed to encode differs from the abstract value its phrase carries: %s", how, mask, coin, om); pv_api_free(s); return; }
      pv_countf(1, "original_seed_observed.%s", how); }
    /* three languages per seed, rotating so that all are covered evenly */
    for (int k = 0; k < 3; ++k) {
        pv_mlang* L = &pv_langs[(idx / 8 + (uint64_t)k * 3 + (uint64_t)k) % (uint64_t)pv_nlangs];
        if (L->lib) roundtrip(s, &m, L, k == 0 ? coin : pv_gen_coin(rng), how);
    }
    pv_countf(1, "mask.%u", mask);
    if (idx < 4) { pv_api_encode(s, pv_langs[idx % (uint64_t)pv_nlangs].lib, coin, g_out); pv_sample("roundtrip", "[%s] mask %u coin %u seed %s -> '%s'", how, mask, coin, pv_mseed_str(&m), pv_esc(g_out)); }
    pv_api_free(s);
}

/* ---------------------------------------------------------------- model-constructed ambiguous phrases for every overlapping language pair */
static uint64_t n_ambig(void) { return (uint64_t)pv_nlangs * (uint64_t)pv_nlangs * pv_scaled(40, 2000); }
static void run_ambig(uint64_t idx, pv_rng* rng) {
    int a = (int)(idx % (uint64_t)pv_nlangs), b = (int)((idx / (uint64_t)pv_nlangs) % (uint64_t)pv_nlangs);
    if (a == b || !pv_langs[a].lib || !pv_langs[b].lib) return;
    g_rng2 = rng;
    set_mask(7);
    int ov = pv_overlap(a, b, NULL);
    pv_maxf((uint64_t)ov, "overlap.%s.in.%s", pv_langs[a].key, pv_langs[b].key);
    unsigned coin = pv_gen_coin(rng), d[16]; pv_mseed m;
    if (!pv_gen_ambiguous(rng, a, b, coin, 7, d, &m)) { PV_COUNT("ambiguous.not_constructible", 1); return; }
    polyseed_data* s = pv_seed_from_model(&m);
    if (!s) { pv_violation("C01/load-failed", "cannot load %s", pv_mseed_str(&m)); return; }
    PV_COUNT("ambiguous.constructed", 1);
    pv_countf(1, "ambiguous.pair.%s+%s", pv_langs[a].key, pv_langs[b].key);
    roundtrip(s, &m, &pv_langs[a], coin, "ambiguous");
    if (pv_randn(rng, 200) == 0) { pv_api_encode(s, pv_langs[a].lib, coin, g_out); pv_sample("ambiguous", "%s phrase also valid in %s: '%s'", pv_langs[a].name_en, pv_langs[b].name_en, pv_esc(g_out)); }
    pv_api_free(s);
}

/* ---------------------------------------------------------------- every coin for a few seeds, every birthday, every feature value */
static uint64_t n_axes(void) { return 2048 + 1024 + 32; }
static void run_axes(uint64_t idx, pv_rng* rng) {
    g_rng2 = rng;
    set_mask(7);
    pv_mseed m; pv_gen_mseed(rng, 7, true, &m);
    unsigned coin = pv_gen_coin(rng);
    if (idx < 2048) coin = (unsigned)idx;
    else if (idx < 3072) m.birthday = (unsigned)(idx - 2048);
    else { m.features = (unsigned)(idx - 3072); if (m.features & 8) return; }
    polyseed_data* s = pv_seed_from_model(&m);
    if (!s) { pv_violation("C01/load-failed", "cannot load %s", pv_mseed_str(&m)); return; }
    pv_mlang* L = &pv_langs[idx % (uint64_t)pv_nlangs];
    if (L->lib) roundtrip(s, &m, L, coin, "axis");
    pv_api_free(s);
    PV_COUNT("axes.cases", 1);
}

static void fini(void) { pv_set_flag("exhaustive.each_coin_each_birthday_each_feature_value(once)", true); }
/* ---------------------------------------------------------------- round trips while other threads do their own */
static bool conc_iter(pv_rng* r, int iter, void* user, char* err, size_t errsz) {
    (void)iter; (void)user;
    pv_mseed m; pv_gen_mseed(r, 7, true, &m);
    polyseed_data* s = pv_seed_from_model(&m);
    if (!s) { snprintf(err, errsz, "cannot load %s", pv_mseed_str(&m)); return false; }
    pv_mlang* L; do { L = &pv_langs[pv_randn(r, (uint32_t)pv_nlangs)]; } while (!L->lib || (!strncmp(L->key, "zh", 2) && pv_randn(r, 4)));
    unsigned coin = pv_gen_coin(r);
    char* out = malloc(POLYSEED_STR_SIZE); bool ok = true;
    size_t n = pv_api_encode(s, L->lib, coin, out);
    char want[2048]; size_t wn = pv_m_encode(&m, L, coin, want, sizeof want);
    if (n != wn || strcmp(out, want)) { ok = false; snprintf(err, errsz, "%s coin %u seed %s: phrase '%.80s' vs model '%.80s'", L->name_en, coin, pv_mseed_str(&m), out, want); }
    else {
        char* in = pv_exact_str(out);
        polyseed_data* a = NULL; int st = pv_api_decode_explicit(in, coin, L->lib, &a);
        if (st != POLYSEED_OK) { ok = false; snprintf(err, errsz, "%s coin %u: decode_explicit of the own phrase -> %s", L->name_en, coin, pv_status_name(st)); }
        else { const char* mm = pv_seed_mismatch(a, &m, coin); if (mm) { ok = false; snprintf(err, errsz, "%s: explicit decode: %s", L->name_en, mm); } pv_api_free(a); }
        pv_mdecode md; pv_m_decode(in, coin, NULL, 7, &md);
        a = NULL; const polyseed_lang* lo = NULL; st = pv_api_decode(in, coin, pv_randn(r, 2) ? &lo : NULL, &a);
        if (st != md.status) { ok = false; snprintf(err, errsz, "%s coin %u: decode of the own phrase -> %s, model %s", L->name_en, coin, pv_status_name(st), pv_status_name(md.status)); }
        else if (st == POLYSEED_OK) { const char* mm = pv_seed_mismatch(a, &m, coin); if (mm) { ok = false; snprintf(err, errsz, "%s: auto decode: %s", L->name_en, mm); } if (lo && lo != L->lib) { ok = false; snprintf(err, errsz, "%s: detected as %s", L->name_en, polyseed_get_lang_name_en(lo)); } }
        if (st == POLYSEED_OK) pv_api_free(a);
        free(in);
    }
    free(out); pv_api_free(s);
    return ok;
}
static uint64_t n_conc(void) { return pv_scaled(3, 100); }
static void run_conc(uint64_t idx, pv_rng* rng) {
    (void)idx; set_mask(7);
    enum { NT = 8, IT = 1200 }; static pv_conc_result res[NT];
    uint64_t seed = pv_rand64(rng);
    pv_concurrent(NT, IT, seed, 35, conc_iter, NULL, res);
    if (pv_concurrent_verdict(res, NT, IT, "C01/differs-under-concurrency", "concurrent.roundtrips_equal_model")) PV_DISTINCT("nontrivial", seed);
}

int main(int argc, char** argv) {
    static const pv_section secs[] = { { "round", n_round, run_round }, { "ambiguous", n_ambig, run_ambig }, { "axes", n_axes, run_axes }, { "concurrent", n_conc, run_conc } };
    return pv_main(argc, argv, "C01", secs, 4, init, fini);
}
