#!/bin/sh
# confirm the tenth-wave seeded changes: patchA filed as <property>-Z, patchB as <property>-S2
cd "$(dirname "$0")/.."
for wt in /tmp/seed10/wt-C*; do
  p=$(basename $wt | sed 's/wt-//')
  [ -f $wt/NOTES.md ] || continue
  for L in A B; do
    [ -f $wt/patch$L.diff ] && [ -f $wt/demo$L.c ] || continue
    id=$p-S; [ $L = B ] && id=$p-S2
    [ -f seeded/$id/meta.json ] && continue
    grep -q "^$id " /var/tmp/seed10-confirm.log 2>/dev/null && continue
    res=$(/usr/bin/python3 tools/seeded_confirm.py $p $L $wt --id $id "$@" 2>&1 | tail -1)
    echo "$id $res" >> /var/tmp/seed10-confirm.log
    echo "$id $res" | cut -c1-600
  done
done
