#!/usr/bin/python3
"""Re-runs the confirmation of filed seeded changes (seeded/<id>/) with the current machinery and refreshes meta.json.
  seeded_rerun.py [--all-checks] [ids...]      default: every seeded change, designated check (+ the checks that caught it before)"""
import sys, os, json, shutil, subprocess, tempfile
VERIF = os.path.dirname(os.path.dirname(os.path.abspath(__file__)))
extra = []
args = sys.argv[1:]
if '--extra' in args:
    i = args.index('--extra'); extra = args[i + 1].split(','); del args[i:i + 2]
ids = [a for a in args if not a.startswith('-')] or sorted(os.listdir(os.path.join(VERIF, 'seeded')))
bad = 0
for sid in ids:
    d = os.path.join(VERIF, 'seeded', sid)
    if not os.path.exists(os.path.join(d, 'meta.json')):
        continue
    meta = json.load(open(os.path.join(d, 'meta.json')))
    prop, letter = sid.split('-')
    file_letter = 'A' if letter in ('H', 'X', 'Y', 'Z', 'W', 'V', 'U', 'T', 'S', 'R', 'Q', 'P') else letter
    tmp = tempfile.mkdtemp(prefix='sr-', dir=os.environ.get('PV_TMP', '/var/tmp'))
    try:
        shutil.copy(os.path.join(d, 'patch.diff'), os.path.join(tmp, 'patch%s.diff' % file_letter))
        shutil.copy(os.path.join(d, 'demo.c'), os.path.join(tmp, 'demo%s.c' % file_letter))
        open(os.path.join(tmp, 'NOTES.md'), 'w').write(meta.get('needs_to_manifest', ''))
        checks = sorted(set([prop] + meta.get('detected_by', []) + extra))
        cmd = [os.path.join(VERIF, 'tools', 'seeded_confirm.py'), prop, file_letter, tmp, '--id', sid] + (['--all'] if '--all-checks' in sys.argv else ['--checks', ','.join([prop] + [c for c in checks if c != prop])])
        r = subprocess.run(cmd, stdout=subprocess.PIPE, stderr=subprocess.STDOUT, text=True)
        line = r.stdout.strip().splitlines()[-1] if r.stdout.strip() else ''
        try:
            res = json.loads(line)
        except ValueError:
            res = {'status': 'error', 'log': r.stdout[-300:]}
        ok = res.get('status') == 'confirmed' and prop in res.get('detected_by', [])
        print(sid, 'OK' if ok else 'NOT-DETECTED-BY-DESIGNATED', res.get('detected_by'), res.get('status'), flush=True)
        bad += not ok
    finally:
        shutil.rmtree(tmp, ignore_errors=True)
sys.exit(1 if bad else 0)
