#!/usr/bin/python3
"""Regenerates benign/INDEX.md from benign/*/meta.json (dispositions are kept in the meta files)."""
import os, json, re
V = os.path.dirname(os.path.dirname(os.path.abspath(__file__)))
B = os.path.join(V, 'benign')
rows = []
for d in sorted(os.listdir(B)):
    mp = os.path.join(B, d, 'meta.json')
    if not os.path.exists(mp):
        continue
    m = json.load(open(mp))
    patch = open(os.path.join(B, d, 'patch.diff'), errors='replace').read()
    files = sorted(set(re.findall(r'^\+\+\+ b/(\S+)', patch, flags=re.M)))
    alarms = m.get('alarms', [])
    disp = m.get('disposition') or ('benign: all twenty checks silent' if not alarms else 'ALARM - see meta.json')
    rows.append((d, ' '.join(files), ', '.join(alarms) or '—', disp.replace('\n', ' ').replace('|', '/')))
nB = sum(1 for r in rows if r[0].startswith('B')); nD = sum(1 for r in rows if r[0].startswith('D')); nE = sum(1 for r in rows if r[0].startswith('E'))
silent = sum(1 for r in rows if r[2] == '—')
with open(os.path.join(B, 'INDEX.md'), 'w') as f:
    f.write('# Behaviour-preserving changes (false-alarm test of the machinery)\n\n')
    f.write('Wave 1 (ids B..): ten sub-agents that saw only the twenty property statements each wrote up to four realistic changes meant to keep ALL properties true (themes: allocation/layout, correct lazy initialisation, decoder refactoring, search optimisation, string handling, wiping, arithmetic, dependency handling, feature logic, portability). '
            'Wave 2 (ids D..): ten further agents, same rules, asked in addition to change the NUMBER and ORDER of internal steps, allocator blocks and dependency calls as far as the properties allow. '
            'Ids E..: four cosmetic and structural changes written by the author of the machinery on the last day (language labels renamed, registry reordered, public buffer enlarged, an internal global renamed and two getters moved into a new source file): the first of them exposed two label-dependent false alarms (C07 registry rules, ILP32 driver), both corrected. '
            'Each patch was applied to a scratch copy, the repository suite was run in the shipping and the assertion-enabled build, and all twenty quick checks were run against it (`tools/benign_run.py`; wave 2 at a reduced workload scale). '
            'A benign change must leave every check silent; an alarm is either a change that breaks a property after all (disposition says which) or a false alarm of the machinery (corrected, see DESIGN.md section 8).\n\n')
    f.write('%d patches (%d in wave 1, %d in wave 2, %d self-made); %d left all twenty checks silent with the final machinery.\n\n' % (len(rows), nB, nD, nE, silent))
    f.write('| id | files | checks that alarmed (final machinery) | disposition |\n|---|---|---|---|\n')
    for r in rows:
        f.write('| %s | %s | %s | %s |\n' % r)
print(len(rows), silent)
