#!/bin/sh
# confirm the second-wave ("hard") seeded changes: filed as <property>-H
cd "$(dirname "$0")/.."
for wt in /tmp/seed2/wt-C*; do
  p=$(basename $wt | sed 's/wt-//')
  [ -f $wt/NOTES.md ] && [ -f $wt/patchA.diff ] && [ -f $wt/demoA.c ] || continue
  [ -f seeded/$p-H/meta.json ] && continue
  grep -q "^$p-H " /tmp/seed2/confirm.log 2>/dev/null && continue
  res=$(/usr/bin/python3 tools/seeded_confirm.py $p A $wt --id $p-H "$@" 2>&1 | tail -1)
  echo "$p-H $res" >> /tmp/seed2/confirm.log
  echo "$p-H $res" | cut -c1-500
done
