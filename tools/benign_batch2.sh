#!/bin/sh
# run every check against the behaviour-preserving changes delivered under /tmp/benign2/wt-NN (benignK.diff)
cd "$(dirname "$0")/.."
for wt in /tmp/benign2/wt-*; do
  n=$(basename $wt | sed 's/wt-//')
  for k in 1 2 3 4; do
    [ -f $wt/benign$k.diff ] || continue
    id=D$n-$k
    [ -f benign/$id/meta.json ] && continue
    /usr/bin/python3 tools/benign_run.py $id $wt/benign$k.diff --notes $wt/NOTES.md 2>&1 | tail -1 | cut -c1-700
  done
done
