#!/usr/bin/python3
"""seeded/INDEX.md: one line per filed breaking change (from the meta.json files)."""
import os, json
V = os.path.dirname(os.path.dirname(os.path.abspath(__file__)))
rows = []
for sid in sorted(os.listdir(os.path.join(V, 'seeded'))):
    p = os.path.join(V, 'seeded', sid, 'meta.json')
    if not os.path.exists(p):
        continue
    m = json.load(open(p))
    need = ' '.join(m.get('needs_to_manifest', '').split())
    keys = []
    for c in m.get('detected_by', []):
        k = m.get('checks', {}).get(c, {}).get('keys', [])
        if k:
            keys.append(k[0].split(' count=')[0].replace('key=', ''))
    rows.append((sid, m['breaks_property'], ', '.join(m.get('detected_by', [])) or '—', '; '.join(keys)[:160], (m.get('disposition') or '')[:200]))
with open(os.path.join(V, 'seeded', 'INDEX.md'), 'w') as f:
    f.write('# Seeded breaking changes (written by independent sub-agents; confirmed by tools/seeded_confirm.py)\n\n')
    f.write('Suffix A/B: first wave (two per property); H: second wave ("escape a randomized differential harness"); X: third wave ("escape the strengthened harness"); Y: fourth wave (option to answer "no escaping change exists"); Z, Z2: fifth wave and W, W2: sixth and V, V2: seventh wave; U, U2: eighth and T, T2: ninth and S, S2: tenth wave ("escape", with a prose description of the harness); R, R2: eleventh, Q, Q2: twelfth and P, P2: thirteenth wave (agents got all statements and one THEME - a kind of change - instead of one property); N, N2: fourteenth and M, M2: fifteenth wave (one agent per property, property text only, two prescribed kinds of trigger, a list of worn-out mechanisms excluded) (property text only, prescribed kinds of trigger, earlier ideas listed as taken).\n\n')
    f.write('| id | property | detected by (checks run: designated + those that caught it before) | first violation keys | disposition |\n|---|---|---|---|---|\n')
    for r in rows:
        f.write('| %s | %s | %s | `%s` | %s |\n' % r)
    f.write('\n%d changes; %d detected by the designated check.\n' % (len(rows), sum(1 for r in rows if r[1] in r[2].split(', '))))
print(len(rows))
