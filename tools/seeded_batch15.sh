#!/bin/sh
# confirm the fifteenth-wave (one agent per property, property text only) seeded changes: the property is named in the first lines of NOTES.md (PROPERTY-A: Cnn, PROPERTY-B: Cnn);
# filed as <property>-M, -M2 ... in order of arrival
cd "$(dirname "$0")/.."
for wt in /tmp/seed15/wt-*; do
  [ -f $wt/NOTES.md ] || continue
  for L in A B; do
    [ -f $wt/patch$L.diff ] && [ -f $wt/demo$L.c ] || continue
    p=$(grep -m1 "^PROPERTY-$L:" $wt/NOTES.md | grep -o 'C[0-9][0-9]' | head -1)
    [ -n "$p" ] || { echo "$wt $L: no property named"; continue; }
    key="$(basename $wt)-$L"
    grep -q "^$key " /var/tmp/seed15-confirm.log 2>/dev/null && continue
    id=$p-M; n=2; while [ -d seeded/$id ] || grep -q " $id " /var/tmp/seed15-confirm.log 2>/dev/null; do id=$p-M$n; n=$((n+1)); done
    res=$(/usr/bin/python3 tools/seeded_confirm.py $p $L $wt --id $id "$@" 2>&1 | tail -1)
    echo "$key $id $res" >> /var/tmp/seed15-confirm.log
    echo "$key $id $res" | cut -c1-600
  done
done
