#!/usr/bin/python3
"""Regenerates MANIFEST.json from props.py (single source of truth for what is claimed)."""
import json, os, sys
VERIF = os.path.dirname(os.path.dirname(os.path.abspath(__file__)))
sys.path.insert(0, VERIF)
from props import PROPS, MANIFEST_TEXT
ids = [json.loads(l)['id'] for l in open(os.path.join(VERIF, 'properties.jsonl'))]
checks, na = [], []
for i in ids:
    if i in PROPS and i in MANIFEST_TEXT:
        t = MANIFEST_TEXT[i]
        checks.append({
            'property_id': i,
            'quick_cmd': './check %s quick' % i,
            'thorough_cmd': './check %s thorough' % i,
            'evidence_file': '/verif/evidence/%s.json' % i,
            'replay_cmd_template': './check %s --replay {path}' % i,
            'engine': 'pv-harness',
            'level_claimed': {'category': PROPS[i]['level'], 'text': t['text'], 'design_ref': 'DESIGN.md section 3, ' + i},
            'level_note': t['note'],
            'technique': t['technique'],
        })
    else:
        na.append({'property_id': i, 'reason': MANIFEST_TEXT.get(i, {}).get('na', 'check under construction (DESIGN.md section 3); not claimed until built and validated against mutants')})
m = {
    'version': 1,
    'setup_cmd': './setup.sh',
    'hooks': {
        'guard': 'POLYSEED_VERIF',
        'enable': 'no hooks exist: every event the properties talk about is observable at the public API or at the injected dependency table; checks compile /repo/src/*.c directly with the flags listed in props.py (the guard name is reserved and unused)',
        'baseline_off_cmd': 'cmake -S /repo -B /repo/_build -DCMAKE_BUILD_TYPE=RelWithDebInfo >/dev/null && cmake --build /repo/_build >/dev/null && /repo/_build/polyseed-tests',
        'source_commits': [],
        'add_only': True,
    },
    'engines': [{'name': 'pv-harness', 'path': '/verif/check', 'serves_properties': [c['property_id'] for c in checks],
                 'kind_free_text': 'runtime monitoring: instrumented dependency table + API-boundary monitors + executable reference model, run on ASan/UBSan, TSan, signed/unsigned-char and multi-optimisation builds of the real library'}],
    'checks': checks,
    'not_applicable': na,
    'notes': 'Family of technique: runtime monitoring and sanitizers only. Fix commits in /repo: see KNOWN_FINDINGS.txt (fixed: lines) and DESIGN.md section 4.',
}
json.dump(m, open(os.path.join(VERIF, 'MANIFEST.json'), 'w'), indent=1)
print('%d checks claimed, %d not claimed' % (len(checks), len(na)))
