#!/bin/sh
# confirm the third-wave seeded changes: filed as <property>-X
cd "$(dirname "$0")/.."
for wt in /tmp/seed3/wt-C*; do
  p=$(basename $wt | sed 's/wt-//')
  [ -f $wt/NOTES.md ] && [ -f $wt/patchA.diff ] && [ -f $wt/demoA.c ] || continue
  [ -f seeded/$p-X/meta.json ] && continue
  grep -q "^$p-X " /tmp/seed3/confirm.log 2>/dev/null && continue
  res=$(/usr/bin/python3 tools/seeded_confirm.py $p A $wt --id $p-X "$@" 2>&1 | tail -1)
  echo "$p-X $res" >> /tmp/seed3/confirm.log
  echo "$p-X $res" | cut -c1-500
done
