#!/usr/bin/python3
"""Markdown table: per property the runs (build flavours) of the quick tier and what the last evidence file measured."""
import os, sys, json
V = os.path.dirname(os.path.dirname(os.path.abspath(__file__)))
sys.path.insert(0, V)
from props import PROPS
print('| id | level | runs of the quick tier (flavour: driver) | last run: tier, evaluations, distinct non-trivial, wall |')
print('|---|---|---|---|')
for pid in sorted(PROPS):
    P = PROPS[pid]
    runs = ', '.join('%s%s' % (r['flavour'], '' if r.get('kind') is None else '(%s)' % r['kind']) for r in P['runs'] if 'quick' in r.get('tiers', ('quick', 'thorough')))
    ev = os.path.join(V, 'evidence', pid + '.json')
    last = ''
    if os.path.exists(ev):
        e = json.load(open(ev))
        last = '%s, %d, %d, %.0f s' % (e['tier'], e['coverage']['evaluations'], e['coverage']['distinct_nontrivial'], e['wall_s'])
    print('| %s | %s | %s | %s |' % (pid, P['level'], runs, last))
