#!/usr/bin/python3
"""Confirms a seeded breaking change produced by a sub-agent and files it under /verif/seeded/<id>/.
  seeded_confirm.py <property> <letter> <worktree-dir> [--checks C01,C09,...] [--all]
Steps (all in scratch copies outside /repo and /verif): the patch applies to /repo's HEAD sources; the library compiles; the
repository's suite, unedited, passes; the demonstration passes on the original and fails on the changed code; then the
designated check (and optionally others) is run against the changed copy.  Nothing is ever applied to /repo."""
import sys, os, re, json, shutil, subprocess, tempfile, time
VERIF = os.path.dirname(os.path.dirname(os.path.abspath(__file__)))
REPO = '/repo'
TMP = os.environ.get('PV_TMP', '/var/tmp')


def sh(cmd, **kw):
    return subprocess.run(cmd, stdout=subprocess.PIPE, stderr=subprocess.STDOUT, text=True, errors='replace', **kw)


def copy_repo(dst):
    for d in ('src', 'include', 'tests'):
        shutil.copytree(os.path.join(REPO, d), os.path.join(dst, d))
    if os.path.exists(os.path.join(REPO, 'CMakeLists.txt')):
        shutil.copy(os.path.join(REPO, 'CMakeLists.txt'), dst)


def build_demo(root, demo, out, extra):
    srcs = sorted(os.path.join(root, 'src', f) for f in os.listdir(os.path.join(root, 'src')) if f.endswith('.c'))
    if '--freestanding-m32' in extra:      # this image has no 32-bit libc: freestanding static i386 program with the shim headers of harness/ilp32
        cmd = ['gcc', '-m32', '-O1', '-std=gnu11', '-ffreestanding', '-fno-builtin', '-nostdlib', '-static', '-fno-stack-protector', '-DNDEBUG', '-DPOLYSEED_STATIC',
               '-isystem', os.path.join(VERIF, 'harness', 'ilp32', 'include'), '-I', os.path.join(root, 'include')] + srcs + [demo, '-o', out]
        return sh(cmd)
    if '--shared' in extra:               # the demo wants the library as the shared object CMake builds by default
        so = out + '-libpolyseed.so'
        r = sh(['gcc', '-O2', '-fPIC', '-shared', '-std=gnu11', '-DNDEBUG', '-DPOLYSEED_SHARED', '-I', os.path.join(root, 'include')] + srcs + ['-o', so])
        if r.returncode != 0:
            return r
        return sh(['gcc', '-O2', '-std=gnu11', '-I', os.path.join(root, 'include'), demo, so, '-Wl,-rpath,' + os.path.dirname(so), '-lutf8proc', '-lpthread', '-o', out])
    cc = 'clang' if '--clang' in extra else 'gcc'
    extra = [e for e in extra if e != '--clang']
    demo_first = '--demo-first' in extra          # link order as quoted: the application's object in front of the library's
    extra = [e for e in extra if e != '--demo-first']
    objs = ([demo] + srcs) if demo_first else (srcs + [demo])
    cmd = [cc, '-g', '-O1', '-std=gnu11', '-DPOLYSEED_STATIC', '-I', os.path.join(root, 'include')] + extra + objs + ['-o', out, '-lutf8proc', '-lpthread']      # flags in `extra` come later and override -O1
    return sh(cmd)


def demo_flags(demo_src):
    """flags named on the gcc/clang command line(s) quoted in the demo's header comment (joined continuation lines)"""
    head = demo_src[:4000].replace('\\\n', ' ')
    lines = [l for l in head.splitlines() if re.search(r'\b(gcc|clang|cc)\b', l) and ('demo' in l or 'src/' in l)]
    cmd = ' '.join(lines) if lines else head
    extra = []
    if '-m32' in cmd and '-nostdlib' in cmd:
        return ['--freestanding-m32']
    if re.search(r'-shared\b', cmd) and 'POLYSEED_SHARED' in cmd:
        return ['--shared']
    if re.search(r'(^|\s|\*)clang\b', cmd) and not re.search(r'(^|\s|\*)gcc\b', cmd):
        extra.append('--clang')
    m = re.search(r'-fsanitize=([a-z,]+)', cmd)
    if m:
        extra += ['-fsanitize=' + m.group(1), '-fno-omit-frame-pointer']
    for fl in ('-funsigned-char', '-fsigned-char', '-DNDEBUG'):
        if re.search(r'(?<![\w-])' + re.escape(fl) + r'(?![\w-])', cmd):
            extra.append(fl)
    # optimisation level and machine flags exactly as quoted (the last -O wins, as for the compiler)
    opts = re.findall(r'(?<![\w-])(-O[0-3sz])(?![\w-])', cmd)
    if opts:
        extra.append(opts[-1])
    for fl in re.findall(r'(?<![\w-])(-m(?:arch|tune|cpu)=[\w.-]+|-m(?:avx2?|avx512\w*|popcnt|pclmul|sse[\d.]+|bmi2?|aes|32))(?![\w-])', cmd):
        if fl not in extra and fl != '-m32':
            extra.append(fl)
    if re.search(r'demo[AB]?\.c\s+src/', cmd):
        extra.append('--demo-first')
    if re.search(r'(?<![\w-])-pthread(?![\w-])', cmd):
        extra.append('-pthread')
    if re.search(r'(?<![\w-])-static(?![\w-])', cmd) and '-nostdlib' not in cmd:
        extra.append('-static')        # the demonstration wants a statically linked program (archive members are pulled by need)
    if '-Wl,-z,now' in cmd:
        extra.append('-Wl,-z,now')
    if '-fgnuc-version=0' in cmd:
        extra += ['--clang', '-fgnuc-version=0']
    if re.search(r'(?<![\w-])-ffreestanding(?![\w-])', cmd) and '-nostdlib' not in cmd:
        extra.append('-ffreestanding')
    if '__UINT_FAST16_TYPE__' in cmd:
        extra += ['-U__UINT_FAST16_TYPE__', '-D__UINT_FAST16_TYPE__=unsigned short']
    for fl in re.findall(r'(?<![\w-])(-f(?:exec|input)-charset=[\w-]+)(?![\w-])', cmd):
        if fl not in extra:
            extra.append(fl)
    for fl in re.findall(r'(?<![\w-])(-DPOLYSEED_\w+)(?![\w-])', cmd):
        if fl not in extra and fl not in ('-DPOLYSEED_STATIC',):
            extra.append(fl)
    return extra


def run_demo(exe):
    env = dict(os.environ, ASAN_OPTIONS='detect_leaks=0:abort_on_error=0', TSAN_OPTIONS='exitcode=66', UBSAN_OPTIONS='halt_on_error=1:exitcode=67')
    try:
        r = subprocess.run([exe], stdout=subprocess.PIPE, stderr=subprocess.STDOUT, text=True, errors='replace', timeout=300, env=env)
        return r.returncode, r.stdout[-1500:]
    except subprocess.TimeoutExpired:
        return 124, 'timeout'


def main():
    prop, letter, wt = sys.argv[1], sys.argv[2], sys.argv[3]
    checks = [prop]
    if '--checks' in sys.argv:
        checks = sys.argv[sys.argv.index('--checks') + 1].split(',')
    if '--all' in sys.argv:
        checks = [prop] + ['C%02d' % i for i in range(1, 21) if 'C%02d' % i != prop]
    patch = os.path.join(wt, 'patch%s.diff' % letter); demo = os.path.join(wt, 'demo%s.c' % letter)
    sid = '%s-%s' % (prop, letter)
    if '--id' in sys.argv:
        sid = sys.argv[sys.argv.index('--id') + 1]
    meta = {'id': sid, 'breaks_property': prop, 'source': 'independent sub-agent given only the property text and a scratch worktree', 'ran': []}
    if not os.path.exists(patch) or not os.path.exists(demo):
        print(json.dumps({'id': sid, 'status': 'missing files'})); return 2
    notes = os.path.join(wt, 'NOTES.md')
    meta['needs_to_manifest'] = open(notes, errors='replace').read()[:6000] if os.path.exists(notes) else ''
    orig = tempfile.mkdtemp(prefix='sc-orig-', dir=TMP); chg = tempfile.mkdtemp(prefix='sc-chg-', dir=TMP); out = tempfile.mkdtemp(prefix='sc-out-', dir=TMP)
    try:
        copy_repo(orig); copy_repo(chg)
        r = sh(['patch', '-p1', '--no-backup-if-mismatch', '-i', patch], cwd=chg)
        meta['ran'].append('patch -p1 < patch.diff on a copy of /repo HEAD: rc=%d' % r.returncode)
        if r.returncode != 0:
            print(json.dumps({'id': sid, 'status': 'patch does not apply', 'log': r.stdout[-400:]})); return 2
        touched = re.findall(r'^\+\+\+ b/(\S+)', open(patch, errors='replace').read(), re.M)
        if any(not (t.startswith('src/') or t.startswith('include/')) for t in touched):
            print(json.dumps({'id': sid, 'status': 'patch touches files outside src/ include/', 'files': touched})); return 2
        # suite
        srcs = sorted(os.path.join(chg, 'src', f) for f in os.listdir(os.path.join(chg, 'src')) if f.endswith('.c'))
        r = sh(['gcc', '-O2', '-g', '-DNDEBUG', '-std=gnu11', '-DPOLYSEED_STATIC', '-I', os.path.join(chg, 'include')] + srcs + [os.path.join(chg, 'tests', 'tests.c'), '-o', os.path.join(chg, 'suite')])
        if r.returncode != 0:
            print(json.dumps({'id': sid, 'status': 'changed library does not compile', 'log': r.stdout[-600:]})); return 2
        r = sh([os.path.join(chg, 'suite')], timeout=300)
        suite_ok = r.returncode == 0 and 'All tests were successful' in r.stdout
        meta['ran'].append('repository suite (RelWithDebInfo-like flags) on the changed copy: %s' % ('passes' if suite_ok else 'FAILS'))
        if not suite_ok:
            print(json.dumps({'id': sid, 'status': 'suite fails with the change', 'log': r.stdout[-400:]})); return 2
        # demonstration, both ways
        extra = demo_flags(open(demo, errors='replace').read())
        variants = [extra]
        if prop == 'C19':       # the demonstrations of C19 are about one char signedness: try both
            base = [f for f in extra if f not in ('-fsigned-char', '-funsigned-char')]
            if '-DNDEBUG' not in base:
                base.append('-DNDEBUG')
            variants = [base + ['-funsigned-char'], base + ['-fsigned-char']]
        res = {}
        for extra in variants:
            for name, root in (('original', orig), ('changed', chg)):
                b = build_demo(root, demo, os.path.join(root, 'demo'), extra)
                if b.returncode != 0:
                    print(json.dumps({'id': sid, 'status': 'demo does not build on ' + name, 'log': b.stdout[-800:]})); return 2
                res[name] = run_demo(os.path.join(root, 'demo'))
            if res['original'][0] == 0 and res['changed'][0] != 0:
                break
        meta['ran'].append('demo (flags %s): original rc=%d, changed rc=%d' % (' '.join(extra) or 'default', res['original'][0], res['changed'][0]))
        if res['original'][0] != 0 or res['changed'][0] == 0:
            print(json.dumps({'id': sid, 'status': 'demo does not discriminate', 'original': res['original'], 'changed': res['changed']})); return 2
        # checks
        det = {}
        for c in checks:
            t0 = time.time()
            r = sh([os.path.join(VERIF, 'check'), c, 'quick'], env=dict(os.environ, PV_REPO=chg, PV_OUT=out))
            keys = [l.strip()[:220] for l in r.stdout.splitlines() if l.startswith('  key=')]
            det[c] = {'rc': r.returncode, 'violations': sum(1 for l in r.stdout.splitlines() if l.startswith('VIOLATION property=%s ' % c)), 'keys': keys[:5], 'wall_s': round(time.time() - t0, 1)}
            meta['ran'].append('PV_REPO=<changed copy> ./check %s quick: rc=%d, %d violation key(s)' % (c, r.returncode, det[c]['violations']))
        meta['detected_by'] = [c for c in checks if det[c]['rc'] == 1 and det[c]['violations'] > 0]
        meta['checks'] = det
        dst = os.path.join(VERIF, 'seeded', sid)
        os.makedirs(dst, exist_ok=True)
        old = os.path.join(dst, 'meta.json')
        if os.path.exists(old):
            try:
                prev = json.load(open(old))
                if prev.get('disposition'):
                    meta['disposition'] = prev['disposition']
            except ValueError:
                pass
        if os.path.abspath(patch) != os.path.abspath(os.path.join(dst, 'patch.diff')):
            shutil.copy(patch, os.path.join(dst, 'patch.diff')); shutil.copy(demo, os.path.join(dst, 'demo.c'))
        json.dump(meta, open(os.path.join(dst, 'meta.json'), 'w'), indent=1, ensure_ascii=False)
        print(json.dumps({'id': sid, 'status': 'confirmed', 'detected_by': meta['detected_by'], 'designated': det[prop]}))
        return 0
    finally:
        for d in (orig, chg, out):
            shutil.rmtree(d, ignore_errors=True)


if __name__ == '__main__':
    sys.exit(main())
