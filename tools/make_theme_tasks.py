#!/usr/bin/python3
"""Writes TASK.md for a themed wave of seeded changes: make_theme_tasks.py <dir-with-wt-NN> (themes are listed below)."""
import json, sys, os
root = sys.argv[1]
props = [json.loads(l) for l in open('/verif/properties.jsonl')]
PROPTXT = '\n\n'.join('**%s — %s**: %s' % (p['id'], p['title'], p['statement']) for p in props)
HARNESS = '''The harness you are up against (described in prose; you cannot see it). For EVERY property it runs the real library, compiled
from the current sources, against an independent executable reference model of the published format (bit packing, GF(2048) checksum,
word lists frozen from the pinned commit, accent/abbreviation matcher, storage codec, KDF inputs, birthday arithmetic, feature masks,
status precedence, auto-detection) and a second specification in Python; all eight dependencies are monitors that record every
argument and are hostile within their contract (normalisers clobber all 576 output bytes before reading the input - except in the
residue scans, where they write their result only, and may answer invalid UTF-8 with an empty string; the KDF clobbers the key buffer
before reading password and salt; the allocator returns junk-filled, recycled, 8-byte-aligned blocks and refuses any chosen request;
clocks move between readings; tables are injected with every NULL combination of the optional entries, by name and positionally,
from an exact-size 8-pointer block that is destroyed right after the call). Callers are hostile within the C rules too: every scalar
argument has a side effect (a macro evaluating it twice is seen), getters are called by name before and after mutations in optimised
code, callbacks and the file-scope variables they read live in the calling translation unit (wrong const/pure/leaf attributes are
seen), every call starts with a stale errno, strings and buffers sit at odd addresses and at the end of read-only pages, one run
executes its first history from a constructor before main(). Workloads: 10^5-10^7 generated cases per property, boundary-biased
(extreme secrets, every coin/birthday/feature value, every reachable phrase length, passwords that shrink 3:1 and 4:1 under NFKD,
strings of 2^31, 2^32+k and 2^33+k bytes, token counts around 2^8 and 2^9, key sizes up to SIZE_MAX, clocks over 64 bits, eight
time zones incl. leap-second zones), exhaustive sweeps (every language x word x position both ways, every field element, every
prefix/accent-subset/NFC-NFD variant of every word, 1-200 redundant accents per token also in front, all coins, the full enable x
feature x entry-point matrix, all call sequences up to length 4-5, all allocation-failure positions (injected and libc), every reason
of every error status), grammar-based strings with token, accent, separator, count, length, raw-byte and invisible-character edits
through both decoders, automatic decoder compared with all ten explicit ones on every string, five coverage-guided libFuzzer targets
judged by the model, random walks of 50-200 calls over several live seeds in lock-step with the model, 66000 repetitions,
fresh-process first calls, the C library's bsearch replaced by five conforming strategies. About fifteen build configurations per
functional check (gcc/clang, -O0...-O3/-Og/-Os, LTO, -march=native, NDEBUG and assertions, signed/unsigned char, -fshort-enums,
_FORTIFY_SOURCE=3, strict -std=c2x, -pthread, CP932 execution charset, non-GNU clang, freestanding with 16-bit uint_fast16_t, -m32
freestanding, shared object inside a hostile host, non-C locale). ASan+UBSan everywhere, MemorySanitizer, ThreadSanitizer with 8-32
threads, valgrind; a monitor of static and thread-local storage (a byte may change once); dead-stack/static/TLS scans for secrets,
indices, word pointers, phrase, password, mask (also shifted/reversed forms, and of refused, mistyped or invalid inputs) after every
function and exit path at six optimisation levels; every freed block zero and covered by a memzero call; the library's own buffer
sizes inferred from what it wipes; 96 KiB stacks; a per-case watchdog. Eleven earlier rounds (about 240 changes) were all caught in
the end, except changes that need input/output arguments of one call to overlap, signal-handler re-entrancy, fork during a call, or
big-endian hardware, which are considered outside the contract - do not propose those.'''
THEMES = [
 ('what a conforming dependency may do that a monitor might not', 'behaviour the injected functions are allowed to show (return values, what they write where within their buffers, block sizes and alignment, being called with zero lengths, being slow, keeping pointers only during the call) on which a changed library could come to depend'),
 ('what the library writes into caller memory', 'output buffers and out-parameters on success AND failure: bytes behind the terminator, partial results, key_out, storage, lang_out, seed_out, the order of writes relative to reads of other arguments that do not overlap'),
 ('state that survives between calls', 'anything that makes the n-th call differ from the first: counters, caches, memoisation, lazily built tables that are correct but built from the first call\'s arguments, pointers remembered from an earlier call, behaviour after an error or after polyseed_free(NULL)'),
 ('specific data', 'particular words, word pairs, languages, coin values, birthdays, feature combinations or secrets with a STRUCTURAL reason to be special (shared words between lists, words that are prefixes after accent stripping, the longest/shortest words, indices 0/1023/1024/2047, all-equal coefficients) that a rewritten algorithm could mishandle'),
 ('encrypted seeds end to end', 'the encryption flag and mask through encode/decode/store/load/keygen/crypt chains, double encryption, decrypting with an equivalent password spelling, encrypted seeds with user features, feature queries on encrypted seeds'),
 ('time and birthdays', 'the arithmetic from clock value to birthday and back, month boundaries, the ends of the range, clocks that return the same value twice, leap years, 2038, the libc fall-back'),
 ('performance cliffs that become hangs', 'inputs on which a rewritten routine becomes quadratic or worse, or loops until an 8/16/32-bit counter wraps, so that a call takes minutes although it terminates'),
 ('the language registry', 'polyseed_get_num_langs/get_lang/get_lang_name(_en), order and identity of languages, pointers returned, the language object passed back in, lang_out, comparing languages by pointer versus by content'),
 ('storage format details', 'the 32-byte image: every bit of header, flags, padding, footer, the check value, which deviations map to FORMAT versus CHECKSUM versus UNSUPPORTED, images that are valid for one feature mask and not another, store after crypt'),
 ('compiler-version and optimisation sensitivity', 'code that is correct C but whose observable behaviour (wiping, evaluation order of reads, volatile use, inline asm barriers, builtins, vectorisation, tail calls) differs between the optimisation levels and compilers listed and the ones users build with (-O2 -flto -fPIC shared, -Ofast, -fno-builtin, -fstack-protector-strong, -fcf-protection, -mno-red-zone)'),
 ('checksum mathematics', 'gf.c: field arithmetic, generator, evaluation order, table generation, reduction, the check-word solve - rewrites that stay linear and pass the sweeps but differ somewhere structural'),
 ('the phrase as text', 'separators (ASCII space, ideographic space, mixtures, NBSP, tabs), leading/trailing/multiple separators, NFC composition of separators with neighbours, Japanese phrases with ASCII spaces, case, what exactly "a single trailing space" means'),
]
for i, (name, desc) in enumerate(THEMES, 1):
    wt = os.path.join(root, 'wt-%02d' % i)
    t = f"""# Task: find changes to tevador/polyseed that break a property and ESCAPE a strong test harness — theme: {name}

You are working in your own scratch git worktree of the polyseed C library: `{wt}` (checkout of the current HEAD;
build: `cmake -G Ninja -B _build -DCMAKE_BUILD_TYPE=RelWithDebInfo && cmake --build _build`; suite: `_build/polyseed-tests`).
Work ONLY inside that directory; do not read or write `/repo` or `/verif`; no network; libutf8proc is installed (`-lutf8proc`).
Do NOT use `git stash`. Keep every message and every single file write short. The machine is busy: keep your own runs small.

## The properties (any of them may be your target)

{PROPTXT}

## The harness

{HARNESS}

## Your theme

Look only for changes of this kind: **{name}** — {desc}.

## What to deliver

ONE or TWO structurally different changes to the library (files under `src/` and/or `include/` only), each of which
1. a maintainer could plausibly commit (optimisation, refactoring, clean-up, portability or hardening change, a fix gone slightly
   wrong) — no backdoor comparing against a magic constant, no trigger rarer than about 2^-40 without a structural reason;
2. compiles without new warnings and passes the repository's test suite, unedited;
3. BREAKS one of the properties above for some legal use of the library on x86-64 Linux with gcc or clang and well-behaved
   dependencies (NFC/NFKD are the real Unicode normalisations, at most POLYSEED_STR_SIZE bytes incl. terminator, return the byte
   length; alloc returns NULL or a sufficiently large block with arbitrary contents; memzero zeroes; randbytes fills; pbkdf2 writes
   keylen bytes; clocks may return anything);
4. and that you expect the harness described above NOT to notice — say precisely which gap you are aiming at;
5. comes with a demonstration `demoA.c` (`demoB.c`) that includes `polyseed.h`, is compiled with `src/*.c` by ONE command such as
   `gcc -O1 -std=gnu11 -DPOLYSEED_STATIC -Iinclude src/*.c demoA.c -lutf8proc -lpthread` (never `-Isrc`; quote the exact command in a
   comment at the top), exits 0 on the original code and non-zero on the changed code, deterministically, within a minute, and checks
   the property itself.

Leave in `{wt}`: `patchA.diff` (and `patchB.diff`; `git diff` against HEAD, applies with `patch -p1`), `demoA.c` (`demoB.c`), and
`NOTES.md` whose FIRST lines read `PROPERTY-A: Cnn` (and `PROPERTY-B: Cnn`) naming the property each change breaks, followed by:
what, why innocent-looking, what it needs to manifest, which gap it aims at, commands run. Restore the sources to HEAD and delete
build output at the end. If after honest effort you find no plausible escaping change within your theme, write NOTES.md (first line
`PROPERTY-A: none`) listing the ideas you tried, what blocks each, and any residual gap — that is a useful answer too, and
preferable to a contrived change.
"""
    open(os.path.join(wt, 'TASK.md'), 'w').write(t)
print('ok')
