#!/usr/bin/python3
"""Writes TASK.md for a themed wave of seeded changes: make_theme_tasks.py <dir-with-wt-NN> (themes are listed below)."""
import json, sys, os
root = sys.argv[1]
props = [json.loads(l) for l in open('/verif/properties.jsonl')]
PROPTXT = '\n\n'.join('**%s — %s**: %s' % (p['id'], p['title'], p['statement']) for p in props)
HARNESS = '''The harness you are up against (described in prose; you cannot see it). For EVERY property it runs the real library, compiled
from the current sources, against an independent executable reference model of the published format (bit packing, GF(2048) checksum,
word lists frozen from the pinned commit, accent/abbreviation matcher, storage codec, KDF inputs, birthday arithmetic, feature masks,
status precedence, auto-detection) and a second specification in Python; all eight dependencies are monitors that record every
argument and are hostile within their contract (normalisers clobber all 576 output bytes before reading the input - except in the
residue scans, where they write their result only, and may answer invalid UTF-8 with an empty string; the KDF clobbers the key buffer
before reading password and salt; the allocator returns junk-filled, recycled, 8-byte-aligned blocks and refuses any chosen request;
clocks move between readings; tables are injected with every NULL combination of the optional entries, by name and positionally,
from an exact-size 8-pointer block that is destroyed right after the call). Callers are hostile within the C rules too: every scalar
argument has a side effect (a macro evaluating it twice is seen), getters are called by name before and after mutations in optimised
code, callbacks and the file-scope variables they read live in the calling translation unit (wrong const/pure/leaf attributes are
seen), every call starts with a stale errno, strings and buffers sit at odd addresses and at the end of read-only pages, one run
executes its first history from a constructor before main(). Workloads: 10^5-10^7 generated cases per property, boundary-biased
(extreme secrets, every coin/birthday/feature value, every reachable phrase length, passwords that shrink 3:1 and 4:1 under NFKD,
strings of 2^31, 2^32+k and 2^33+k bytes, token counts around 2^8 and 2^9, key sizes up to SIZE_MAX, clocks over 64 bits, eight
time zones incl. leap-second zones), exhaustive sweeps (every language x word x position both ways, every field element, every
prefix/accent-subset/NFC-NFD variant of every word, 1-200 redundant accents per token also in front, all coins, the full enable x
feature x entry-point matrix, all call sequences up to length 4-5, all allocation-failure positions (injected and libc), every reason
of every error status), grammar-based strings with token, accent, separator, count, length, raw-byte and invisible-character edits
through both decoders, automatic decoder compared with all ten explicit ones on every string, five coverage-guided libFuzzer targets
judged by the model, random walks of 50-200 calls over several live seeds in lock-step with the model, 66000 repetitions,
fresh-process first calls, the C library's bsearch replaced by five conforming strategies. About fifteen build configurations per
functional check (gcc/clang, -O0...-O3/-Og/-Os, LTO, -march=native, NDEBUG and assertions, signed/unsigned char, -fshort-enums,
_FORTIFY_SOURCE=3, strict -std=c2x, -pthread, CP932 execution charset, non-GNU clang, freestanding with 16-bit uint_fast16_t, -m32
freestanding, shared object inside a hostile host, non-C locale). ASan+UBSan everywhere, MemorySanitizer, ThreadSanitizer with 8-32
threads, valgrind; a monitor of static and thread-local storage (a byte may change once); dead-stack/static/TLS scans for secrets,
indices, word pointers, phrase, password, mask (also shifted/reversed forms, and of refused, mistyped or invalid inputs) after every
function and exit path at six optimisation levels; every freed block zero and covered by a memzero call; the library's own buffer
sizes inferred from what it wipes; 96 KiB stacks; a per-case watchdog. Eleven earlier rounds (about 240 changes) were all caught in
the end, except changes that need input/output arguments of one call to overlap, signal-handler re-entrancy, fork during a call, or
big-endian hardware, which are considered outside the contract - do not propose those.'''
THEMES = [
 ('allocator and memory-block semantics', 'how the library uses alloc/free/memzero results: block size assumptions, alignment (the monitor gives 8-byte alignment; what about 4 or 1?), using a block after handing it to free, relying on free being a no-op for NULL only sometimes, zero-size or oversized requests, several blocks per seed, ownership transfer between seeds'),
 ('pairwise interactions', 'behaviour that is right for every single axis but wrong for a COMBINATION of two or three: encrypted x user feature x coin, language x abbreviation x NFC, allocation failure x unsupported feature x checksum error, lang_out NULL x multi-language, re-injection x live seed x feature change'),
 ('wiping completeness', 'secret material in places the scans may not look: copies by value of structs, compiler-generated temporaries, return-value slots, argument spill areas of callees, buffers wiped before their last use, wipes of the wrong object of the same size, wipes skipped when a length is zero, secrets passed to a dependency in a buffer that is then not wiped'),
 ('randomness and creation', 'polyseed_create: how many random bytes are requested and in how many calls, which bits are discarded, rejection loops, what happens to the random buffer, order of clock and random source, features handling, failure paths'),
 ('optional parameters and sentinel values', 'NULL lang_out, NULL optional dependency entries, feature masks with high bits, coin values at the enum boundaries, key sizes 0 and 1, empty phrases and passwords, polyseed_free(NULL), getters with mask 0'),
 ('constants and tables that are not word lists', 'epoch, time step, masks, shifts, salt strings, iteration counts, header/footer constants, generator polynomial, size macros - an edit that keeps every tested value but changes a rarely reached one; also macros whose expansion lacks parentheses'),
 ('debug versus release', 'asserts, NDEBUG-dependent code, self-tests in polyseed_inject, logging, anything that makes the assertion-enabled build and the release build differ for legal input (the harness runs both, but with different shares of the workload)'),
 ('exploit how the harness is built', 'the harness is deterministic: its monitors rotate their modes with counters (stale errno by call number, bsearch strategy by call number, normaliser modes alternating), draws inputs from seeded generators, runs each check as fresh sharded processes, links statically except one shared-object run, and judges after each call returns. Look for a defect that hides in what such a construction systematically never produces'),
 ('scripts and languages that share characters', 'Japanese/Chinese overlap, simplified/traditional Chinese sharing 1275 characters, Korean jamo versus syllables, Latin lists sharing words, the order in which auto-detection tries languages, what is reported in lang_out'),
 ('the first and the last of everything', 'first/last word of a list, first/last language, first/last coefficient, first/last byte of buffers, first/last month, first/last call of a process, the last valid value before an overflow - off-by-one at an end that a sweep visits but whose consequence only shows in a later step'),
]
for i, (name, desc) in enumerate(THEMES, 1):
    wt = os.path.join(root, 'wt-%02d' % i)
    t = f"""# Task: find changes to tevador/polyseed that break a property and ESCAPE a strong test harness — theme: {name}

You are working in your own scratch git worktree of the polyseed C library: `{wt}` (checkout of the current HEAD;
build: `cmake -G Ninja -B _build -DCMAKE_BUILD_TYPE=RelWithDebInfo && cmake --build _build`; suite: `_build/polyseed-tests`).
Work ONLY inside that directory; do not read or write `/repo` or `/verif`; no network; libutf8proc is installed (`-lutf8proc`).
Do NOT use `git stash`. Keep every message and every single file write short. The machine is busy: keep your own runs small.

## The properties (any of them may be your target)

{PROPTXT}

## The harness

{HARNESS}

## Your theme

Look only for changes of this kind: **{name}** — {desc}.

## What to deliver

ONE or TWO structurally different changes to the library (files under `src/` and/or `include/` only), each of which
1. a maintainer could plausibly commit (optimisation, refactoring, clean-up, portability or hardening change, a fix gone slightly
   wrong) — no backdoor comparing against a magic constant, no trigger rarer than about 2^-40 without a structural reason;
2. compiles without new warnings and passes the repository's test suite, unedited;
3. BREAKS one of the properties above for some legal use of the library on x86-64 Linux with gcc or clang and well-behaved
   dependencies (NFC/NFKD are the real Unicode normalisations, at most POLYSEED_STR_SIZE bytes incl. terminator, return the byte
   length; alloc returns NULL or a sufficiently large block with arbitrary contents; memzero zeroes; randbytes fills; pbkdf2 writes
   keylen bytes; clocks may return anything);
4. and that you expect the harness described above NOT to notice — say precisely which gap you are aiming at;
5. comes with a demonstration `demoA.c` (`demoB.c`) that includes `polyseed.h`, is compiled with `src/*.c` by ONE command such as
   `gcc -O1 -std=gnu11 -DPOLYSEED_STATIC -Iinclude src/*.c demoA.c -lutf8proc -lpthread` (never `-Isrc`; quote the exact command in a
   comment at the top), exits 0 on the original code and non-zero on the changed code, deterministically, within a minute, and checks
   the property itself.

Leave in `{wt}`: `patchA.diff` (and `patchB.diff`; `git diff` against HEAD, applies with `patch -p1`), `demoA.c` (`demoB.c`), and
`NOTES.md` whose FIRST lines read `PROPERTY-A: Cnn` (and `PROPERTY-B: Cnn`) naming the property each change breaks, followed by:
what, why innocent-looking, what it needs to manifest, which gap it aims at, commands run. Restore the sources to HEAD and delete
build output at the end. If after honest effort you find no plausible escaping change within your theme, write NOTES.md (first line
`PROPERTY-A: none`) listing the ideas you tried, what blocks each, and any residual gap — that is a useful answer too, and
preferable to a contrived change.
"""
    open(os.path.join(wt, 'TASK.md'), 'w').write(t)
print('ok')
