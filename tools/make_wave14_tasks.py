#!/usr/bin/python3
"""Writes TASK.md for the fourteenth / fifteenth wave of seeded changes (one agent per property, property text only):
make_wave14_tasks.py <dir-with-wt-Cnn> [kind-offset, default 0; the fifteenth wave used 1].  The agents get nothing from /verif except the property text itself."""
import json, sys, os
root = sys.argv[1]
OFF = int(sys.argv[2]) if len(sys.argv) > 2 else 0
props = [json.loads(l) for l in open('/verif/properties.jsonl')]
KINDS = [
 ('a multi-step sequence of API calls', 'the defect shows only after a particular history of at least three calls (on one seed or across seeds), each of which alone behaves correctly'),
 ('two cooperating sites', 'two edits in different functions or files, each of which looks right and is harmless alone, that are wrong together'),
 ('an unusual but legal input', 'an input, argument value or length that ordinary use never produces but the interface allows'),
 ('a fault at one particular point', 'a dependency failing or answering unusually (within its contract) at one particular call of one particular API function'),
 ('a particular caller environment', 'a build option, compiler, C library behaviour, thread arrangement or process state that is legal and realistic but differs from the default developer machine'),
]
for n, p in enumerate(props):
    wt = os.path.join(root, 'wt-%s' % p['id'])
    if not os.path.isdir(wt):
        continue
    k1 = KINDS[(n + OFF) % 5]
    k2 = KINDS[(n + OFF + 2) % 5]
    t = f"""# Task: write a realistic change to tevador/polyseed that breaks one stated property but passes the test-suite

You are working in your own scratch git worktree of the polyseed C library: `{wt}` (checkout of the current HEAD;
build: `cmake -G Ninja -B _build -DCMAKE_BUILD_TYPE=RelWithDebInfo && cmake --build _build`; suite: `_build/polyseed-tests`).
Work ONLY inside that directory; do not read or write `/repo` or `/verif`; no network; libutf8proc is installed (`-lutf8proc`)
if you need real Unicode normalisation. Do NOT use `git stash`. Keep every message and every single file write short. The
machine is busy: keep your own runs small.

## The property

**{p['id']} — {p['title']}**

Statement: {p['statement']}

Quantified over: {p['quantifier']}

Why the existing tests cannot settle it: {p['why_tests_cant']}

## What to deliver

TWO structurally different changes to the library (files under `src/` and/or `include/` only), A and B, each of which
1. a maintainer could plausibly commit (optimisation, refactoring, clean-up, portability or hardening change, a fix gone slightly
   wrong) - no backdoor comparing against a magic constant, no trigger rarer than about 2^-40 without a structural reason;
2. compiles without new warnings and passes the repository's test suite, unedited;
3. BREAKS the property above for some legal use of the library on x86-64 Linux with gcc or clang and well-behaved dependencies
   (NFC/NFKD are the real Unicode normalisations, write at most POLYSEED_STR_SIZE bytes incl. terminator and return the byte
   length; alloc returns NULL or a sufficiently large block with arbitrary contents; memzero zeroes; randbytes fills; pbkdf2 writes
   keylen bytes; clocks may return anything);
4. needs something specific to manifest, so that ordinary use would NOT expose it at once. Change A must need
   **{k1[0]}** ({k1[1]}). Change B must need **{k2[0]}** ({k2[1]}).
5. comes with a demonstration `demoA.c` (`demoB.c`) that includes `polyseed.h`, is compiled together with `src/*.c` by ONE command such
   as `gcc -O1 -std=gnu11 -DPOLYSEED_STATIC -Iinclude src/*.c demoA.c -lutf8proc -lpthread` (never `-Isrc`; quote the exact command in
   a comment at the top), exits 0 on the original code and non-zero on the changed code, deterministically, within a minute, and
   checks the property itself (not an implementation detail).

Mechanisms that have been used many times already and are NOT wanted again: a static or thread-local buffer, cache, hint, memo or
flag; a lazily built table or index; `strtok`; a sign test on plain `char`; an allocation moved in front of a validity check or
a refused allocation reported with the wrong status; reading 8 bytes at a time past a terminator; a normaliser called with input
and output aliased; `polyseed_inject` or `polyseed_enable_features` resetting or not resetting the mask; a narrower integer type
for a length or counter; `% N` instead of `& (N-1)`; a memset/memzero with a too-small size; a double free on an error exit;
dropping or moving the `&= CLEAR_MASK` / checksum update in `polyseed_crypt`; an `assert` that aborts on legal input in debug builds;
compiler-version or evaluation-order dependence between gcc and clang; a weak reference to a libc function.
Changes that need input and output arguments of one call to overlap, re-entrancy from a signal handler, fork during a call, or
big-endian hardware are outside the contract - do not propose those. Think about what is *specific to this property* instead.

Leave in `{wt}`: `patchA.diff` and `patchB.diff` (`git diff` against HEAD, applies with `patch -p1`), `demoA.c`, `demoB.c`, and
`NOTES.md` whose FIRST lines read `PROPERTY-A: {p['id']}` and `PROPERTY-B: {p['id']}`, followed per change by: what, why
innocent-looking, what it needs to manifest, commands run. Restore the sources to HEAD and delete build output at the end. One
good change is better than two contrived ones: if you cannot find a second one, deliver only A.
"""
    open(os.path.join(wt, 'TASK.md'), 'w').write(t)
print('ok')
