#!/bin/sh
# soak: every check, several VERIF_SEED values, fresh processes; prints one line per run; non-zero exit if any run alarms
# usage: tools/soak.sh <tier> <seeds...>
cd "$(dirname "$0")/.."
tier=$1; shift
bad=0
for s in "$@"; do
  for i in 01 02 03 04 05 06 07 08 09 10 11 12 13 14 15 16 17 18 19 20; do
    out=$(VERIF_SEED=$s ./check C$i $tier 2>&1); rc=$?
    echo "seed=$s C$i rc=$rc $(echo "$out" | tail -1 | cut -c1-160)"
    if [ $rc -ne 0 ]; then bad=1; echo "$out" | head -20; fi
  done
done
exit $bad
