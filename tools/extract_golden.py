#!/usr/bin/python3
"""One-off extraction of the ten word lists from the *source text* of the pinned
commit (not via the compiler, not via the library).  Output: golden/<key>.txt
(2048 lines, UTF-8 exactly as in the source), golden/langs.tsv.
Usage: extract_golden.py <repo> <outdir>"""
import sys, re, os, hashlib, glob
repo, out = sys.argv[1], sys.argv[2]
rows = []
for path in sorted(glob.glob(os.path.join(repo, 'src', 'lang_*.c'))):
    key = os.path.basename(path)[5:-2]
    src = open(path, 'rb').read().decode('utf-8-sig')
    def field(name):
        m = re.search(r'\.%s\s*=\s*(?:u8)?"((?:[^"\\]|\\.)*)"' % name, src)
        return m.group(1)
    def flag(name):
        m = re.search(r'\.%s\s*=\s*(true|false)' % name, src)
        return m.group(1) == 'true'
    def unesc(s):
        return re.sub(r'\\u([0-9a-fA-F]{4})', lambda m: chr(int(m.group(1), 16)), s)
    body = src[src.index('.words'):]
    words = [unesc(w) for w in re.findall(r'u8"((?:[^"\\]|\\.)*)"|(?<![\w"])"((?:[^"\\]|\\.)*)"', body) for w in [w[0] or w[1]]]
    assert len(words) == 2048, (key, len(words))
    data = ''.join(w + '\n' for w in words).encode('utf-8')
    open(os.path.join(out, key + '.txt'), 'wb').write(data)
    rows.append((key, field('name_en'), unesc(field('name')), unesc(field('separator')).encode('utf-8').hex(),
                 int(flag('compose')), hashlib.sha256(data).hexdigest()))
with open(os.path.join(out, 'langs.tsv'), 'w', encoding='utf-8') as f:
    f.write('# key\tname_en\tname\tseparator_hex\tcompose\tsha256(list file)\n')
    for r in rows:
        f.write('\t'.join(str(x) for x in r) + '\n')
print('ok', len(rows))
