#!/usr/bin/python3
"""Runs every check against a behaviour-preserving change and files it under /verif/benign/<id>/.
  benign_run.py <id> <patch.diff> [--notes NOTES.md] [--checks C01,C05]
A benign change must leave every check silent (exit 0, no VIOLATION line).  Anything else is either a change that is not benign
after all (it breaks a property: say which, in meta.json 'disposition') or a false alarm of the machinery (to be corrected).
Works on a scratch copy outside /repo and /verif; nothing is applied to /repo."""
import sys, os, re, json, shutil, subprocess, tempfile, time
VERIF = os.path.dirname(os.path.dirname(os.path.abspath(__file__)))
REPO = '/repo'
TMP = os.environ.get('PV_TMP', '/var/tmp')


def sh(cmd, **kw):
    return subprocess.run(cmd, stdout=subprocess.PIPE, stderr=subprocess.STDOUT, text=True, errors='replace', **kw)


def main():
    bid, patch = sys.argv[1], sys.argv[2]
    notes = sys.argv[sys.argv.index('--notes') + 1] if '--notes' in sys.argv else None
    checks = sys.argv[sys.argv.index('--checks') + 1].split(',') if '--checks' in sys.argv else ['C%02d' % i for i in range(1, 21)]
    chg = tempfile.mkdtemp(prefix='bn-chg-', dir=TMP); out = tempfile.mkdtemp(prefix='bn-out-', dir=TMP)
    meta = {'id': bid, 'kind': 'behaviour-preserving change written by an independent sub-agent that saw only the property texts', 'ran': [], 'checks': {}}
    try:
        for d in ('src', 'include', 'tests'):
            shutil.copytree(os.path.join(REPO, d), os.path.join(chg, d))
        if os.path.exists(os.path.join(REPO, 'CMakeLists.txt')):
            shutil.copy(os.path.join(REPO, 'CMakeLists.txt'), chg)
        r = sh(['patch', '-p1', '--no-backup-if-mismatch', '-i', os.path.abspath(patch)], cwd=chg)
        if r.returncode != 0:
            print(json.dumps({'id': bid, 'status': 'patch does not apply', 'log': r.stdout[-300:]})); return 2
        srcs = sorted(os.path.join(chg, 'src', f) for f in os.listdir(os.path.join(chg, 'src')) if f.endswith('.c'))
        for flags, name in ((['-O2', '-g', '-DNDEBUG'], 'RelWithDebInfo-like'), (['-O0', '-g'], 'assertion-enabled')):
            r = sh(['gcc'] + flags + ['-std=gnu11', '-DPOLYSEED_STATIC', '-I', os.path.join(chg, 'include')] + srcs + [os.path.join(chg, 'tests', 'tests.c'), '-o', os.path.join(chg, 'suite'), '-lpthread'])
            if r.returncode != 0:
                print(json.dumps({'id': bid, 'status': 'does not compile (%s)' % name, 'log': r.stdout[-500:]})); return 2
            r = sh([os.path.join(chg, 'suite')], timeout=600)
            ok = r.returncode == 0 and 'All tests were successful' in r.stdout
            meta['ran'].append('repository suite, %s build: %s' % (name, 'passes' if ok else 'FAILS'))
            if not ok:
                print(json.dumps({'id': bid, 'status': 'suite fails (%s)' % name, 'log': r.stdout[-300:]})); return 2
        alarms = []
        for c in checks:
            t0 = time.time()
            r = sh([os.path.join(VERIF, 'check'), c, 'quick'], env=dict(os.environ, PV_REPO=chg, PV_OUT=out))
            keys = [l.strip()[:300] for l in r.stdout.splitlines() if l.startswith('  key=')]
            fail = [l[:400] for l in r.stdout.splitlines() if l.startswith('HARNESS-FAILURE')]
            meta['checks'][c] = {'rc': r.returncode, 'keys': keys[:4], 'harness_failure': fail[:1], 'wall_s': round(time.time() - t0, 1)}
            if r.returncode != 0:
                alarms.append(c)
        meta['alarms'] = alarms
        dst = os.path.join(VERIF, 'benign', bid); os.makedirs(dst, exist_ok=True)
        shutil.copy(patch, os.path.join(dst, 'patch.diff'))
        if notes and os.path.exists(notes):
            meta['notes'] = open(notes, errors='replace').read()[:5000]
        old = os.path.join(dst, 'meta.json')
        if os.path.exists(old):
            try:
                prev = json.load(open(old))
                for k in ('disposition',):
                    if prev.get(k):
                        meta[k] = prev[k]
            except ValueError:
                pass
        json.dump(meta, open(os.path.join(dst, 'meta.json'), 'w'), indent=1, ensure_ascii=False)
        print(json.dumps({'id': bid, 'status': 'ran', 'alarms': alarms, 'first': {c: (meta['checks'][c]['keys'][:1] or meta['checks'][c]['harness_failure']) for c in alarms}}))
        return 0
    finally:
        shutil.rmtree(chg, ignore_errors=True); shutil.rmtree(out, ignore_errors=True)


if __name__ == '__main__':
    sys.exit(main())
