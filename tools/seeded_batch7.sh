#!/bin/sh
# confirm the seventh-wave seeded changes: patchA filed as <property>-Z, patchB as <property>-V2
cd "$(dirname "$0")/.."
for wt in /tmp/seed7/wt-C*; do
  p=$(basename $wt | sed 's/wt-//')
  [ -f $wt/NOTES.md ] || continue
  for L in A B; do
    [ -f $wt/patch$L.diff ] && [ -f $wt/demo$L.c ] || continue
    id=$p-V; [ $L = B ] && id=$p-V2
    [ -f seeded/$id/meta.json ] && continue
    grep -q "^$id " /var/tmp/seed7-confirm.log 2>/dev/null && continue
    res=$(/usr/bin/python3 tools/seeded_confirm.py $p $L $wt --id $id "$@" 2>&1 | tail -1)
    echo "$id $res" >> /var/tmp/seed7-confirm.log
    echo "$id $res" | cut -c1-600
  done
done
