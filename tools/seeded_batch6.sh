#!/bin/sh
# confirm the sixth-wave seeded changes: patchA filed as <property>-Z, patchB as <property>-W2
cd "$(dirname "$0")/.."
for wt in /tmp/seed6/wt-C*; do
  p=$(basename $wt | sed 's/wt-//')
  [ -f $wt/NOTES.md ] || continue
  for L in A B; do
    [ -f $wt/patch$L.diff ] && [ -f $wt/demo$L.c ] || continue
    id=$p-W; [ $L = B ] && id=$p-W2
    [ -f seeded/$id/meta.json ] && continue
    grep -q "^$id " /var/tmp/seed6-confirm.log 2>/dev/null && continue
    res=$(/usr/bin/python3 tools/seeded_confirm.py $p $L $wt --id $id "$@" 2>&1 | tail -1)
    echo "$id $res" >> /var/tmp/seed6-confirm.log
    echo "$id $res" | cut -c1-600
  done
done
