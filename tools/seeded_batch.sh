#!/bin/sh
# confirm every delivered seeded change that has not been filed yet
cd "$(dirname "$0")/.."
for wt in /tmp/seed/wt-C*; do
  p=$(basename $wt | sed 's/wt-//')
  [ -f $wt/NOTES.md ] || continue
  for l in A B; do
    [ -f $wt/patch$l.diff ] && [ -f $wt/demo$l.c ] || continue
    [ -f seeded/$p-$l/meta.json ] && continue
    grep -q "^$p-$l " /tmp/seed/confirm.log 2>/dev/null && continue
    res=$(/usr/bin/python3 tools/seeded_confirm.py $p $l $wt 2>&1 | tail -1)
    echo "$p-$l $res" >> /tmp/seed/confirm.log
    echo "$p-$l $res" | cut -c1-400
  done
done
