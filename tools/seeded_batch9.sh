#!/bin/sh
# confirm the ninth-wave seeded changes: patchA filed as <property>-Z, patchB as <property>-T2
cd "$(dirname "$0")/.."
for wt in /tmp/seed9/wt-C*; do
  p=$(basename $wt | sed 's/wt-//')
  [ -f $wt/NOTES.md ] || continue
  for L in A B; do
    [ -f $wt/patch$L.diff ] && [ -f $wt/demo$L.c ] || continue
    id=$p-T; [ $L = B ] && id=$p-T2
    [ -f seeded/$id/meta.json ] && continue
    grep -q "^$id " /var/tmp/seed9-confirm.log 2>/dev/null && continue
    res=$(/usr/bin/python3 tools/seeded_confirm.py $p $L $wt --id $id "$@" 2>&1 | tail -1)
    echo "$id $res" >> /var/tmp/seed9-confirm.log
    echo "$id $res" | cut -c1-600
  done
done
