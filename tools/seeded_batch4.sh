#!/bin/sh
# confirm the fourth-wave seeded changes: filed as <property>-Y
cd "$(dirname "$0")/.."
for wt in /tmp/seed4/wt-C*; do
  p=$(basename $wt | sed 's/wt-//')
  [ -f $wt/NOTES.md ] && [ -f $wt/patchA.diff ] && [ -f $wt/demoA.c ] || continue
  [ -f seeded/$p-Y/meta.json ] && continue
  grep -q "^$p-Y " /tmp/seed4/confirm.log 2>/dev/null && continue
  res=$(/usr/bin/python3 tools/seeded_confirm.py $p A $wt --id $p-Y "$@" 2>&1 | tail -1)
  echo "$p-Y $res" >> /tmp/seed4/confirm.log
  echo "$p-Y $res" | cut -c1-500
done
