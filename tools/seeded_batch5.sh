#!/bin/sh
# confirm the fifth-wave seeded changes: filed as <property>-Z
cd "$(dirname "$0")/.."
for wt in /tmp/seed5/wt-C*; do
  p=$(basename $wt | sed 's/wt-//')
  [ -f $wt/NOTES.md ] && [ -f $wt/patchA.diff ] && [ -f $wt/demoA.c ] || continue
  [ -f seeded/$p-Z/meta.json ] && continue
  grep -q "^$p-Z " /tmp/seed5/confirm.log 2>/dev/null && continue
  res=$(/usr/bin/python3 tools/seeded_confirm.py $p A $wt --id $p-Z "$@" 2>&1 | tail -1)
  echo "$p-Z $res" >> /tmp/seed5/confirm.log
  echo "$p-Z $res" | cut -c1-500
done
