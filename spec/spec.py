#!/usr/bin/python3
"""Executable statement of the polyseed format, written from README.md and the
property texts (C03, C04, C06, C11), python3 stdlib only.  It is the *second*
oracle: it produces golden/vectors.tsv, which the C reference model
(harness/pv_model.c) must reproduce at the start of every run, and it is never
linked with or derived from the library.

  spec.py gen <golden-dir> <n> <seed>   -> vectors on stdout (tsv)
  spec.py selftest <golden-dir>         -> checks the three vectors published
                                           in the repository's tests
"""
import sys, json, random, unicodedata, os

POLY = 0x805            # x^11 + x^2 + 1
EPOCH, STEP = 1635768000, 2629746
COMPOSED = {'Spanish', 'French', 'Japanese', 'Korean'}
IDEOGRAPHIC = {'Japanese'}


def gf_mul(a, b):
    r = 0
    while b:
        if b & 1:
            r ^= a
        a <<= 1
        if a & 0x800:
            a ^= POLY
        b >>= 1
    return r


def gf_pow2(i):
    r = 1
    for _ in range(i):
        r = gf_mul(r, 2)
    return r


def load_langs(gdir):
    langs = {}
    for line in open(os.path.join(gdir, 'langs.tsv'), encoding='utf-8'):
        if line.startswith('#'):
            continue
        key, name_en, name, sep, compose, sha = line.rstrip('\n').split('\t')
        words = open(os.path.join(gdir, key + '.txt'), encoding='utf-8').read().split('\n')[:-1]
        assert len(words) == 2048
        langs[name_en] = words
    return langs


def coefficients(secret, birthday, features):
    """secret: 19 bytes (top two bits of the last are zero).  Returns the 16
    word values c[0..15] (c[0] = check value) before the coin is applied."""
    assert len(secret) == 19 and secret[18] < 64
    bits = ''.join(format(b, '08b') for b in secret[:18]) + format(secret[18], '06b')
    assert len(bits) == 150
    extra = format(features, '05b') + format(birthday, '010b')
    c = [0] * 16
    for k in range(1, 16):
        c[k] = int(bits[10 * (k - 1):10 * k] + extra[k - 1], 2)
    # check value: the polynomial sum c_i x^i must vanish at x = 2
    chk = 0
    for i in range(1, 16):
        chk ^= gf_mul(c[i], gf_pow2(i))
    c[0] = chk
    return c


def phrase(langs, lang, secret, birthday, features, coin):
    c = coefficients(secret, birthday, features)
    c[1] ^= coin
    sep = '　' if lang in IDEOGRAPHIC else ' '
    s = sep.join(langs[lang][v] for v in c)
    if lang in COMPOSED:
        s = unicodedata.normalize('NFC', s)
    return s


def storage(secret, birthday, features):
    c = coefficients(secret, birthday, features)
    v1 = (features << 10) | birthday
    v2 = 0x7000 | c[0]
    return b'POLYSEED' + bytes([v1 & 255, v1 >> 8]) + bytes(secret) + b'\xff' + bytes([v2 & 255, v2 >> 8])


def kdf_salt(coin, birthday, features):
    le = lambda v: v.to_bytes(4, 'little')
    return b'POLYSEED key\x00\xff\xff\xff' + le(coin) + le(birthday) + le(features) + b'\0\0\0\0'


def kdf_password(secret):
    return bytes(secret) + bytes(13)


def birthday_of_time(t):
    if t == 2 ** 64 - 1 or t < EPOCH:
        return 0
    return ((t - EPOCH) // STEP) % 1024


def vector(langs, lang, secret, birthday, features, coin):
    p = phrase(langs, lang, secret, birthday, features, coin)
    return {
        'lang': lang, 'secret': bytes(secret).hex(), 'birthday': birthday, 'features': features, 'coin': coin,
        'phrase': p, 'phrase_nfkd': unicodedata.normalize('NFKD', p),
        'storage': storage(secret, birthday, features).hex(),
        'salt': kdf_salt(coin, birthday, features).hex(), 'password': kdf_password(secret).hex(),
        'check': coefficients(secret, birthday, features)[0],
    }


def gen(gdir, n, seed):
    langs = load_langs(gdir)
    rnd = random.Random(seed)
    names = sorted(langs)
    out = []
    def emit(secret, birthday, features, coin):
        for lang in names:
            out.append(vector(langs, lang, secret, birthday, features, coin))
    zero = [0] * 19
    emit(zero, 0, 0, 0)
    emit([255] * 18 + [63], 1023, 31, 2047)
    for bit in range(150):               # single-bit secrets
        s = list(zero)
        if bit < 144:
            s[bit // 8] = 0x80 >> (bit % 8)
        else:
            s[18] = 0x20 >> (bit - 144)
        out.append(vector(langs, names[bit % len(names)], s, 0, 0, 0))
    for bit in range(10):
        out.append(vector(langs, names[bit % len(names)], zero, 1 << bit, 0, 0))
    for bit in range(5):
        out.append(vector(langs, names[bit % len(names)], zero, 0, 1 << bit, 0))
    for bit in range(11):
        out.append(vector(langs, names[bit % len(names)], zero, 0, 0, 1 << bit))
    for _ in range(n):
        s = [rnd.randrange(256) for _ in range(18)] + [rnd.randrange(64)]
        out.append(vector(langs, rnd.choice(names), s, rnd.randrange(1024), rnd.randrange(32), rnd.randrange(2048)))
    keys = ['lang', 'secret', 'birthday', 'features', 'coin', 'phrase', 'phrase_nfkd', 'storage', 'salt', 'password', 'check']
    sys.stdout.write('#' + '\t'.join(keys) + '\n')
    for v in out:           # TSV: trivial to parse from C; no field contains a tab
        sys.stdout.write('\t'.join(str(v[k]) for k in keys) + '\n')


def selftest(gdir):
    """The three vectors published in tests/tests.c of the pinned commit
    (random bytes, clock, features -> phrase / salt), copied here by hand."""
    langs = load_langs(gdir)
    # seed 1: rand_bytes1, SEED_TIME1, features 0
    s1 = list(bytes.fromhex('dd76e7359a0ded37cd0ff0f3c829a5ae0167f3'))
    s1[18] &= 0x3f
    b1 = birthday_of_time(1638446400)
    en = 'raven tail swear infant grief assist regular lamp duck valid someone little harsh puppy airport language'
    assert phrase(langs, 'English', s1, b1, 0, 0) == en, phrase(langs, 'English', s1, b1, 0, 0)
    assert kdf_password(s1).hex() == 'dd76e7359a0ded37cd0ff0f3c829a5ae01673300000000000000000000000000'
    assert kdf_salt(0, b1, 0).hex() == '504f4c5953454544206b657900ffffff00000000010000000000000000000000'
    # seed 2: rand_bytes2, SEED_TIME2, features 0, Spanish
    s2 = list(bytes.fromhex('5a2b02df7db21fcbe6ec6df137d54c7b20fd2b'))
    s2[18] &= 0x3f
    b2 = birthday_of_time(3118651200)
    es = 'eje fin parte célebre tabú pestaña lienzo puma prisión hora regalo lengua existir lápiz lote sonoro'
    assert phrase(langs, 'Spanish', s2, b2, 0, 0) == unicodedata.normalize('NFC', es), phrase(langs, 'Spanish', s2, b2, 0, 0)
    assert kdf_salt(0, b2, 0).hex() == '504f4c5953454544206b657900ffffff00000000330200000000000000000000'
    # seed 3: rand_bytes3, SEED_TIME3, features 1, coin 1
    s3 = list(bytes.fromhex('67b936dfa4da6ae8d3b3cdb3b937f4027b0e3b'))
    b3 = birthday_of_time(4305268800)
    assert kdf_password(s3).hex() == '67b936dfa4da6ae8d3b3cdb3b937f4027b0e3b00000000000000000000000000'
    assert kdf_salt(1, b3, 1).hex() == '504f4c5953454544206b657900ffffff01000000f70300000100000000000000'
    print('spec selftest ok')


if __name__ == '__main__':
    if sys.argv[1] == 'gen':
        gen(sys.argv[2], int(sys.argv[3]), int(sys.argv[4]))
    elif sys.argv[1] == 'selftest':
        selftest(sys.argv[2])
