"""Per-property configuration of the orchestrator (flavours, runs, minimum observations)."""

SAN = '-O1 -g -fno-omit-frame-pointer -fsanitize=address,undefined -fno-sanitize-recover=all'
FLAVOURS = {
    'asan':     {'cc': 'gcc', 'cflags': SAN + ' -DNDEBUG'},
    'asan-dbg': {'cc': 'gcc', 'cflags': SAN},
    'plain':    {'cc': 'gcc', 'cflags': '-O2 -g -DNDEBUG'},
    'schar':    {'cc': 'gcc', 'cflags': SAN + ' -DNDEBUG', 'lib_cflags': '-fsigned-char'},
    'uchar':    {'cc': 'gcc', 'cflags': SAN + ' -DNDEBUG', 'lib_cflags': '-funsigned-char'},
    'tsan':     {'cc': 'gcc', 'cflags': '-O1 -g -fsanitize=thread -DNDEBUG'},
    # C16: no sanitizer (they change frame layout); eager binding so that the dynamic loader never dumps registers on the monitored stack
    'opt-O0':   {'cc': 'gcc', 'cflags': '-O0 -g -DNDEBUG', 'ldextra': '-Wl,-z,now'},
    'opt-O1':   {'cc': 'gcc', 'cflags': '-O1 -g -DNDEBUG', 'ldextra': '-Wl,-z,now'},
    'opt-O2':   {'cc': 'gcc', 'cflags': '-O2 -g -DNDEBUG', 'ldextra': '-Wl,-z,now'},
    'opt-O3':   {'cc': 'gcc', 'cflags': '-O3 -g -DNDEBUG', 'ldextra': '-Wl,-z,now'},
    'opt-Os':   {'cc': 'gcc', 'cflags': '-Os -g -DNDEBUG', 'ldextra': '-Wl,-z,now'},
    'clang-O2': {'cc': 'clang', 'cflags': '-O2 -g -DNDEBUG', 'ldextra': '-Wl,-z,now'},
}

ASSUMPTIONS_COMMON = [
    'verdict covers only the executions produced by this run (runtime monitoring; no proof)',
    'reference model (harness/pv_model.c) is correct; it reproduced golden/vectors.tsv from the independent Python spec at start-up',
    'golden word lists are those of the pinned commit (extracted from source text)',
    'injected NFC/NFKD = libutf8proc 2.x, wrapped to be total and bounded by POLYSEED_STR_SIZE',
    'gcc 12 / x86-64 / glibc; sanitizer runtimes as installed',
]

PROPS = {}

PROPS['C07'] = {
    'level': 'exploration',
    'exhaustive_possible': True,
    'runs': [
        {'name': 'sweep-asan', 'flavour': 'asan', 'driver': 'drv_c07', 'timeout': 1800},
        {'name': 'selftest-dbg', 'flavour': 'asan-dbg', 'driver': 'drv_c07', 'env': {'PV_SCALE': '100'}, 'args': [], 'shards': 4,
         'tiers': ('thorough',)},
    ],
    'require': {'registry.languages_found': 10, 'encode.calls': 300000, 'decode_explicit.calls': 327680, 'lists.abbreviation_decodes': 6 * 2048},
    'assumptions': ['"published at the pinned release" = golden/*.txt extracted from the pinned commit; not cross-checked against BIP-39 (offline)'],
}

PROPS['C17'] = {
    'level': 'exploration',
    'exhaustive_possible': True,
    'runs': [
        {'name': 'asan', 'flavour': 'asan', 'driver': 'drv_c17'},
        {'name': 'asan-dbg', 'flavour': 'asan-dbg', 'driver': 'drv_c17', 'shards': 4},
    ],
    'require': {'bound.languages': 10, 'witness.encodes': 1000},
}

PROPS['C03'] = {
    'level': 'exploration',
    'exhaustive_possible': True,
    'runs': [{'name': 'asan', 'flavour': 'asan', 'driver': 'drv_c03'}],
    'require': {'encode.calls': 400000, 'bits.seeds': 13531, 'purity.histories_agree': 1000, 'reserved_bit.decodes': 100, 'oracle.vectors_reproduced': 3000},
}

_C16_FL = ['opt-O0', 'opt-O1', 'opt-O2', 'opt-O3', 'opt-Os', 'clang-O2']
PROPS['C16'] = {
    'level': 'exploration',
    'runs': [{'name': fl, 'flavour': fl, 'driver': 'drv_c16', 'shards': 3} for fl in _C16_FL],
    'require': {'free.blocks_inspected': 500, 'scan.bytes': 100000, 'scan.needles': 100000,
                # positive control: with a memzero that only logs, residue MUST be found, otherwise the scanner is blind
                'control.hits.polyseed_encode': 6, 'control.hits.polyseed_decode': 6, 'control.hits.polyseed_decode_explicit': 6, 'control.hits.polyseed_crypt': 6,
                'control.free_notzero': 6,
                'calls.polyseed_decode.OK': 60, 'calls.polyseed_decode.MULT_LANG': 6, 'calls.polyseed_decode.UNSUPPORTED': 60, 'calls.polyseed_decode.MEMORY': 60,
                'calls.polyseed_decode_explicit.LANG': 60, 'calls.polyseed_load.UNSUPPORTED': 6, 'calls.polyseed_create.OK': 6, 'calls.polyseed_crypt.OK': 60,
                'calls.polyseed_encode.OK': 60, 'calls.polyseed_free.OK': 6, 'calls.polyseed_keygen.OK': 6},
    'assumptions': ['register contents and memory owned by the injected dependencies are out of scope', 'observed for gcc 12 -O0/-O1/-O2/-O3/-Os and clang 14 -O2 on x86-64 only'],
}

PROPS['C19'] = {
    'level': 'exploration',
    'runs': [
        {'name': 'schar', 'flavour': 'schar', 'driver': 'drv_c19', 'args': ['--tag', 'signed-char'], 'shards': 8},
        {'name': 'uchar', 'flavour': 'uchar', 'driver': 'drv_c19', 'args': ['--tag', 'unsigned-char'], 'shards': 8},
    ],
    'transcript_pairs': [('schar', 'uchar')],
    'require': {'transcript.cases_compared': 10000, 'allwords.decoded': 40960, 'forms.ideographic_space': 1000, 'ops.crypt.spanish': 20, 'ops.crypt.hangul': 20},
    'assumptions': ['char signedness is varied with -fsigned-char / -funsigned-char on x86-64 gcc; other ABI differences of ARM/PowerPC targets are not reproduced'],
}

PROPS['C08'] = {
    'level': 'exploration',
    'exhaustive_possible': True,
    'runs': [{'name': 'asan', 'flavour': 'asan', 'driver': 'drv_c08', 'timeout': 1800}],
    'require': {'words.swept': 2048 * 3 + 7 * 512, 'tokens.prefix.en.accepted': 2500, 'tokens.prefix.en.rejected': 5000,
                'tokens.accent-terminated-prefix.es.accepted': 100, 'tokens.foreign-letter-inserted.fr.rejected': 1000, 'mixed.permitted.OK': 10000},
}
