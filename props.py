"""Per-property configuration of the orchestrator (flavours, runs, minimum observations)."""

SAN = '-O1 -g -fno-omit-frame-pointer -fsanitize=address,undefined -fno-sanitize-recover=all'
FLAVOURS = {
    'asan':     {'cc': 'gcc', 'cflags': SAN + ' -DNDEBUG'},
    'asan-dbg': {'cc': 'gcc', 'cflags': SAN},
    'plain':    {'cc': 'gcc', 'cflags': '-O2 -g -DNDEBUG'},
    'schar':    {'cc': 'gcc', 'cflags': SAN + ' -DNDEBUG', 'lib_cflags': '-fsigned-char'},
    'uchar':    {'cc': 'gcc', 'cflags': SAN + ' -DNDEBUG', 'lib_cflags': '-funsigned-char'},
    'tsan':     {'cc': 'gcc', 'cflags': '-O1 -g -fsanitize=thread -DNDEBUG'},
    # C16: no sanitizer (they change frame layout); eager binding so that the dynamic loader never dumps registers on the monitored stack
    'opt-O0':   {'cc': 'gcc', 'cflags': '-O0 -g -DNDEBUG', 'ldextra': '-Wl,-z,now'},
    'opt-O1':   {'cc': 'gcc', 'cflags': '-O1 -g -DNDEBUG', 'ldextra': '-Wl,-z,now'},
    'opt-O2':   {'cc': 'gcc', 'cflags': '-O2 -g -DNDEBUG', 'ldextra': '-Wl,-z,now'},
    'opt-O3':   {'cc': 'gcc', 'cflags': '-O3 -g -DNDEBUG', 'ldextra': '-Wl,-z,now'},
    'opt-Os':   {'cc': 'gcc', 'cflags': '-Os -g -DNDEBUG', 'ldextra': '-Wl,-z,now'},
    'clang-O2': {'cc': 'clang', 'cflags': '-O2 -g -DNDEBUG', 'ldextra': '-Wl,-z,now'},
}

ASSUMPTIONS_COMMON = [
    'verdict covers only the executions produced by this run (runtime monitoring; no proof)',
    'reference model (harness/pv_model.c) is correct; it reproduced golden/vectors.tsv from the independent Python spec at start-up',
    'golden word lists are those of the pinned commit (extracted from source text)',
    'injected NFC/NFKD = libutf8proc 2.x, wrapped to be total and bounded by POLYSEED_STR_SIZE',
    'gcc 12 / x86-64 / glibc; sanitizer runtimes as installed',
]

PROPS = {}

PROPS['C07'] = {
    'level': 'exploration',
    'exhaustive_possible': True,
    'runs': [
        {'name': 'sweep-asan', 'flavour': 'asan', 'driver': 'drv_c07', 'timeout': 1800},
        {'name': 'selftest-dbg', 'flavour': 'asan-dbg', 'driver': 'drv_c07', 'env': {'PV_SCALE': '100'}, 'args': [], 'shards': 4,
         'tiers': ('thorough',)},
    ],
    'require': {'registry.languages_found': 10, 'encode.calls': 300000, 'decode_explicit.calls': 327680, 'lists.abbreviation_decodes': 6 * 2048},
    'assumptions': ['"published at the pinned release" = golden/*.txt extracted from the pinned commit; not cross-checked against BIP-39 (offline)'],
}

PROPS['C17'] = {
    'level': 'exploration',
    'exhaustive_possible': True,
    'runs': [
        {'name': 'asan', 'flavour': 'asan', 'driver': 'drv_c17'},
        {'name': 'asan-dbg', 'flavour': 'asan-dbg', 'driver': 'drv_c17', 'shards': 4},
    ],
    'require': {'bound.languages': 10, 'witness.encodes': 1000},
}

PROPS['C03'] = {
    'level': 'exploration',
    'exhaustive_possible': True,
    'runs': [{'name': 'asan', 'flavour': 'asan', 'driver': 'drv_c03'}],
    'require': {'encode.calls': 400000, 'bits.seeds': 13531, 'purity.histories_agree': 1000, 'reserved_bit.decodes': 100, 'oracle.vectors_reproduced': 3000},
}

_C16_FL = ['opt-O0', 'opt-O1', 'opt-O2', 'opt-O3', 'opt-Os', 'clang-O2']
PROPS['C16'] = {
    'level': 'exploration',
    'runs': [{'name': fl, 'flavour': fl, 'driver': 'drv_c16', 'shards': 3} for fl in _C16_FL],
    'require': {'free.blocks_inspected': 500, 'scan.bytes': 100000, 'scan.needles': 100000,
                # positive control: with a memzero that only logs, residue MUST be found, otherwise the scanner is blind
                'control.hits.polyseed_encode': 6, 'control.hits.polyseed_decode': 6, 'control.hits.polyseed_decode_explicit': 6, 'control.hits.polyseed_crypt': 6,
                'control.free_notzero': 6,
                'calls.polyseed_decode.OK': 60, 'calls.polyseed_decode.MULT_LANG': 6, 'calls.polyseed_decode.UNSUPPORTED': 60, 'calls.polyseed_decode.MEMORY': 60,
                'calls.polyseed_decode_explicit.LANG': 60, 'calls.polyseed_load.UNSUPPORTED': 6, 'calls.polyseed_create.OK': 6, 'calls.polyseed_crypt.OK': 60,
                'calls.polyseed_encode.OK': 60, 'calls.polyseed_free.OK': 6, 'calls.polyseed_keygen.OK': 6},
    'assumptions': ['register contents and memory owned by the injected dependencies are out of scope', 'observed for gcc 12 -O0/-O1/-O2/-O3/-Os and clang 14 -O2 on x86-64 only'],
}

PROPS['C19'] = {
    'level': 'exploration',
    'runs': [
        {'name': 'schar', 'flavour': 'schar', 'driver': 'drv_c19', 'args': ['--tag', 'signed-char'], 'shards': 8},
        {'name': 'uchar', 'flavour': 'uchar', 'driver': 'drv_c19', 'args': ['--tag', 'unsigned-char'], 'shards': 8},
    ],
    'transcript_pairs': [('schar', 'uchar')],
    'require': {'transcript.cases_compared': 10000, 'allwords.decoded': 40960, 'forms.ideographic_space': 1000, 'ops.crypt.spanish': 20, 'ops.crypt.hangul': 20},
    'assumptions': ['char signedness is varied with -fsigned-char / -funsigned-char on x86-64 gcc; other ABI differences of ARM/PowerPC targets are not reproduced'],
}

PROPS['C08'] = {
    'level': 'exploration',
    'exhaustive_possible': True,
    'runs': [{'name': 'asan', 'flavour': 'asan', 'driver': 'drv_c08', 'timeout': 1800}],
    'require': {'words.swept': 2048 * 3 + 7 * 512, 'tokens.prefix.en.accepted': 2500, 'tokens.prefix.en.rejected': 5000,
                'tokens.accent-terminated-prefix.es.accepted': 100, 'tokens.foreign-letter-inserted.fr.rejected': 1000, 'mixed.permitted.OK': 10000},
}

# ---------------------------------------------------------------------------------------------------------------
# texts for MANIFEST.json (tools/gen_manifest.py)
_TB = 'Trusted: gcc 12 + sanitizer runtimes, libutf8proc as NFC/NFKD, the reference model (validated at start-up against vectors from the independent Python spec and the vectors published in tests/tests.c), golden word lists of the pinned commit. '
MANIFEST_TEXT = {
    'C03': {'technique': 'runtime monitoring: encode output vs executable reference model (ASan/UBSan build)',
            'text': 'Every polyseed_encode output and stored check value of the run is compared byte-for-byte with an independent model of the published layout; the zero seed, all 164 loadable single-bit seeds and all their pairs are enumerated completely in every language for three coins (a bit-linear packing is determined by them), plus random/boundary seeds and the same seed reached through four different histories. Held-on-what-was-executed, not a proof.',
            'note': _TB + 'Exhaustive only for the single-bit/pair sub-space.'},
    'C07': {'technique': 'runtime monitoring: exhaustive language x index x position sweep through the API vs golden lists (ASan/UBSan; assertion-enabled build in thorough)',
            'text': 'All 10 x 2048 x 16 (language, index, position) combinations are driven through polyseed_encode (harvesting the words the library emits) and through both decoders, and compared with the frozen lists; pairwise uniqueness clauses are evaluated on the harvested words and through the API. The finite space named by the property is enumerated completely; the claim is limited to the executions produced.',
            'note': _TB + '"As published" means equal to golden/*.txt extracted from the pinned commit (BIP-39 cannot be fetched offline). The clause "no word is a prefix of another" is checked operationally (DESIGN.md C07).'},
    'C08': {'technique': 'runtime monitoring: decode_explicit on enumerated token variants vs reference matcher (ASan/UBSan)',
            'text': 'For every word (all of es/fr/en on every run, every language in thorough) every prefix length x accent subset x NFC/NFD form and nine boundary classes are embedded in valid phrases and decoded by the real library; acceptance, status and seed must equal the model matcher. Plus random phrases with an independent variant at each position.',
            'note': _TB + 'Tokens with combining marks outside U+0300-U+036F in es/fr are treated as unspecified (not judged).'},
    'C16': {'technique': 'runtime monitoring: dead-stack scan on driver-owned thread stacks + inspection of blocks at the injected free, 6 optimisation levels/compilers, with positive control',
            'text': 'Each API function x exit path x language runs on a pre-patterned stack owned by the driver; afterwards the dead stack is searched for secret/password/mask windows, phrase tokens and word-index runs, and every block reaching the injected free must be zero and covered by a logged injected-memzero call. A log-only memzero control run must find residue, otherwise the check is inconclusive (exit 2).',
            'note': _TB + 'Registers and memory owned by the dependencies are out of scope; observed for gcc -O0..-O3/-Os and clang -O2 on x86-64.'},
    'C17': {'technique': 'runtime monitoring: exact per-language bound from words harvested through the API + extremal witnesses under ASan (also assertion-enabled build)',
            'text': 'The worst-case phrase length of every language (sum of per-position maxima over the admissible words, in internal/decoder/output form) is computed from the words the library itself emits and compared with POLYSEED_STR_SIZE of the header being compiled; extremal witness seeds (the 543-byte Korean phrase is reached) are encoded into an exact-size buffer under ASan and fed back to both decoders.',
            'note': _TB + 'The bound is exhaustive over words x positions x languages; witnesses are sampled.'},
    'C19': {'technique': 'runtime monitoring: differential transcripts of -fsigned-char vs -funsigned-char builds (ASan/UBSan) + model comparison',
            'text': 'One deterministic script (all forms of phrases in all languages, every word of every list, non-ASCII passwords, grammar strings) is executed on both builds; per-case transcript digests must be identical and equal the model where it is authoritative.',
            'note': _TB + 'Signedness is varied by compiler flag on x86-64; other ABI differences of ARM/PowerPC are not reproduced.'},
}
