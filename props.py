"""Per-property configuration of the orchestrator (flavours, runs, minimum observations)."""

SAN = '-O1 -g -fno-omit-frame-pointer -fsanitize=address,undefined -fno-sanitize-recover=all'
FLAVOURS = {
    'asan':     {'cc': 'gcc', 'cflags': SAN + ' -DNDEBUG'},
    'asan-dbg': {'cc': 'gcc', 'cflags': SAN},
    'plain':    {'cc': 'gcc', 'cflags': '-O2 -g -DNDEBUG'},
    'schar':    {'cc': 'gcc', 'cflags': SAN + ' -DNDEBUG', 'lib_cflags': '-fsigned-char'},
    'uchar':    {'cc': 'gcc', 'cflags': SAN + ' -DNDEBUG', 'lib_cflags': '-funsigned-char'},
    'tsan':     {'cc': 'gcc', 'cflags': '-O1 -g -fsanitize=thread -DNDEBUG'},
}

ASSUMPTIONS_COMMON = [
    'verdict covers only the executions produced by this run (runtime monitoring; no proof)',
    'reference model (harness/pv_model.c) is correct; it reproduced golden/vectors.tsv from the independent Python spec at start-up',
    'golden word lists are those of the pinned commit (extracted from source text)',
    'injected NFC/NFKD = libutf8proc 2.x, wrapped to be total and bounded by POLYSEED_STR_SIZE',
    'gcc 12 / x86-64 / glibc; sanitizer runtimes as installed',
]

PROPS = {}

PROPS['C07'] = {
    'level': 'exploration',
    'exhaustive_possible': True,
    'runs': [
        {'name': 'sweep-asan', 'flavour': 'asan', 'driver': 'drv_c07', 'timeout': 1800},
        {'name': 'selftest-dbg', 'flavour': 'asan-dbg', 'driver': 'drv_c07', 'env': {'PV_SCALE': '100'}, 'args': [], 'shards': 4,
         'tiers': ('thorough',)},
    ],
    'require': {'registry.languages_found': 10, 'encode.calls': 300000, 'decode_explicit.calls': 327680, 'lists.abbreviation_decodes': 6 * 2048},
    'assumptions': ['"published at the pinned release" = golden/*.txt extracted from the pinned commit; not cross-checked against BIP-39 (offline)'],
}

PROPS['C17'] = {
    'level': 'exploration',
    'exhaustive_possible': True,
    'runs': [
        {'name': 'asan', 'flavour': 'asan', 'driver': 'drv_c17'},
        {'name': 'asan-dbg', 'flavour': 'asan-dbg', 'driver': 'drv_c17', 'shards': 4},
    ],
    'require': {'bound.languages': 10, 'witness.encodes': 1000},
}

PROPS['C03'] = {
    'level': 'exploration',
    'exhaustive_possible': True,
    'runs': [{'name': 'asan', 'flavour': 'asan', 'driver': 'drv_c03'}],
    'require': {'encode.calls': 400000, 'bits.seeds': 13531, 'purity.histories_agree': 1000, 'reserved_bit.decodes': 100, 'oracle.vectors_reproduced': 3000},
}
