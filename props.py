"""Per-property configuration of the orchestrator (flavours, runs, minimum observations)."""

WRAPS = '-Wl,' + ','.join('--wrap=' + f for f in ('malloc free calloc realloc time clock_gettime gettimeofday getrandom getentropy rand random open fopen clock mktime timegm gmtime gmtime_r localtime localtime_r').split())
SAN = '-O1 -g -fno-omit-frame-pointer -fsanitize=address,undefined -fno-sanitize-recover=all'
FLAVOURS = {
    'asan':     {'cc': 'gcc', 'cflags': SAN + ' -DNDEBUG'},
    'asan-dbg': {'cc': 'gcc', 'cflags': SAN},
    'plain':    {'cc': 'gcc', 'cflags': '-O2 -g -DNDEBUG'},
    # a second compiler: behaviour that depends on unspecified evaluation order or other compiler latitude shows up as a difference from the model
    'clang-asan': {'cc': 'clang', 'cflags': '-O1 -g -fno-omit-frame-pointer -fsanitize=address,undefined -fno-sanitize-recover=all -fno-sanitize=object-size -DNDEBUG'},
    'clang-plain': {'cc': 'clang', 'cflags': '-O2 -g -DNDEBUG'},
    # builds that select code by predefined macros: ISA extensions of the host (-march=native defines __POPCNT__, __PCLMUL__, __AVX2__, ...) and other optimisation levels
    'asan-native': {'cc': 'gcc', 'cflags': SAN + ' -DNDEBUG -march=native'},
    'plain-O0': {'cc': 'gcc', 'cflags': '-O0 -g -DNDEBUG'},
    'plain-lto': {'cc': 'gcc', 'cflags': '-O2 -g -DNDEBUG -flto', 'ldflags': '-O2 -g -flto'},      # whole-program optimisation across the library's translation units
    'plain-Os': {'cc': 'gcc', 'cflags': '-Os -g -DNDEBUG'},
    'plain-O3': {'cc': 'gcc', 'cflags': '-O3 -g -DNDEBUG -march=native'},
    # MemorySanitizer (clang): use of uninitialised memory.  libutf8proc is not instrumented; everything it hands back is declared initialised in
    # pv_norm.c.  Blocks from the injected allocator are poisoned, and outputs/dependency arguments are probed at the boundaries (pv_msan_probe).
    'msan':     {'cc': 'clang', 'cflags': '-O1 -g -fno-omit-frame-pointer -fsanitize=memory -fsanitize-memory-track-origins=2 -DNDEBUG'},
    'msan-wrap': {'cc': 'clang', 'cflags': '-O1 -g -fno-omit-frame-pointer -fsanitize=memory -fsanitize-memory-track-origins=2 -DNDEBUG', 'extra_src': ['pv_wrap.c'], 'ldextra': WRAPS},
    'schar':    {'cc': 'gcc', 'cflags': SAN + ' -DNDEBUG', 'lib_cflags': '-fsigned-char'},
    'uchar':    {'cc': 'gcc', 'cflags': SAN + ' -DNDEBUG', 'lib_cflags': '-funsigned-char'},
    # a narrow execution character set other than UTF-8 (what MSVC does without /utf-8): only u8"" literals keep their bytes
    # a freestanding translation (__STDC_HOSTED__ == 0, the compiler's own <stdint.h>) in which the "fast" 16-bit type really has 16 bits, as on
    # 8/16-bit targets: code selected for firmware builds, and arithmetic that silently relies on uint_fast16_t being wider than 16 bits
    'asan-fs16': {'cc': 'gcc', 'cflags': SAN + ' -DNDEBUG', 'lib_cflags': '-ffreestanding -U__UINT_FAST16_TYPE__ -D__UINT_FAST16_TYPE__=__UINT16_TYPE__'},
    # a compiler that does not claim GCC compatibility (as MSVC, or clang-cl): code under #ifdef __GNUC__ / #else
    'clang-nognu': {'cc': 'clang', 'cflags': '-O1 -g -fno-omit-frame-pointer -fsanitize=address,undefined -fno-sanitize-recover=all -fno-sanitize=object-size -DNDEBUG', 'lib_cflags': '-fgnuc-version=0'},
    # an ABI that sizes every enum by its enumerators (gcc -fshort-enums; the default of arm-none-eabi and other bare-metal ABIs): library AND
    # callers are compiled that way, as they would be on such a target (pv_norm.c, the only file that talks to the prebuilt libutf8proc, is not)
    'asan-shortenum': {'cc': 'gcc', 'cflags': SAN + ' -DNDEBUG -fshort-enums', 'no_flag_for': {'pv_norm.c': ['-fshort-enums']}},
    # glibc's fortified string functions at the highest level: object-size checks on memcpy/strcpy/... also catch overflows that stay inside
    # an enclosing object (one struct member into the next), which red-zone based tools cannot see
    'fortify': {'cc': 'gcc', 'cflags': '-O2 -g -DNDEBUG -D_FORTIFY_SOURCE=3'},
    # strict ISO mode of the newest standard the compiler knows (__STRICT_ANSI__, no GNU extensions, C2x keywords) at the debugger-friendly -Og:
    # code under #if __STDC_VERSION__ / #ifdef __STRICT_ANSI__, and whatever a further optimisation level does differently
    'asan-c2x': {'cc': 'gcc', 'cflags': SAN.replace('-O1', '-Og') + ' -DNDEBUG', 'lib_cflags': '-std=c2x'},
    # the C library's bsearch() replaced by five conforming strategies in rotation (pivot choice; first or last of several equal elements):
    # the results must not depend on which libc the library is linked with
    # (glibc's <stdlib.h> supplies an inline bsearch to optimised code; -D__NO_INLINE__ makes the library call the C library's, as it does
    # at -O0/-Os and with every other libc)
    'asan-bsearch': {'cc': 'gcc', 'cflags': SAN + ' -DNDEBUG', 'lib_cflags': '-D__NO_INLINE__', 'extra_src': ['pv_bsearch.c'], 'ldextra': '-Wl,--wrap=bsearch'},
    'uchar-bsearch': {'cc': 'gcc', 'cflags': SAN + ' -DNDEBUG', 'lib_cflags': '-funsigned-char -D__NO_INLINE__', 'extra_src': ['pv_bsearch.c'], 'ldextra': '-Wl,--wrap=bsearch'},
    # the way a threaded application and its libraries are compiled: -pthread (defines _REENTRANT, which code may test)
    'asan-pthread': {'cc': 'gcc', 'cflags': SAN + ' -DNDEBUG -pthread'},
    # the static library as the project's own CMake build produces it (default build type, its flags and definitions); harness uninstrumented
    'cmake': {'cc': 'gcc', 'cflags': '-O1 -g -DNDEBUG', 'cmake': True},
    'cmake-debug': {'cc': 'gcc', 'cflags': '-O1 -g', 'cmake': True, 'cmake_args': '-DCMAKE_BUILD_TYPE=Debug'},
    'asan-cp932': {'cc': 'gcc', 'cflags': SAN + ' -DNDEBUG', 'lib_cflags': '-fexec-charset=CP932'},
    'tsan':     {'cc': 'gcc', 'cflags': '-O1 -g -fsanitize=thread -DNDEBUG -pthread'},     # -pthread as every threaded program is built (defines _REENTRANT)
    # libc entry points reachable from the library are interposed at link time (C11, C15, C18)
    'asan-wrap': {'cc': 'gcc', 'cflags': SAN + ' -DNDEBUG', 'extra_src': ['pv_wrap.c'],
                  'ldextra': WRAPS},
    'uchar-wrap': {'cc': 'gcc', 'cflags': SAN + ' -DNDEBUG', 'lib_cflags': '-funsigned-char', 'extra_src': ['pv_wrap.c'], 'ldextra': WRAPS},
    'asan-dbg-wrap': {'cc': 'gcc', 'cflags': SAN, 'extra_src': ['pv_wrap.c'],
                  'ldextra': WRAPS},
    'plain-wrap': {'cc': 'gcc', 'cflags': '-O2 -g -DNDEBUG', 'extra_src': ['pv_wrap.c'],
                  'ldextra': WRAPS},
    'fuzz':     {'cc': 'clang', 'cflags': '-O1 -g -fno-omit-frame-pointer -fsanitize=fuzzer-no-link,address,undefined -fno-sanitize-recover=all -fno-sanitize=object-size',
                 'ldflags': '-fsanitize=fuzzer,address,undefined'},
    'tsan-wrap-Os': {'cc': 'gcc', 'cflags': '-Os -g -fsanitize=thread -DNDEBUG', 'extra_src': ['pv_wrap.c'], 'ldextra': WRAPS},
    'tsan-wrap-O3': {'cc': 'gcc', 'cflags': '-O3 -g -fsanitize=thread -DNDEBUG -march=native -pthread', 'extra_src': ['pv_wrap.c'], 'ldextra': WRAPS},
    'tsan-wrap': {'cc': 'gcc', 'cflags': '-O1 -g -fsanitize=thread -DNDEBUG -pthread', 'extra_src': ['pv_wrap.c'],
                  'ldextra': WRAPS},
    # C16: no sanitizer (they change frame layout); eager binding so that the dynamic loader never dumps registers on the monitored stack
    'opt-O0':   {'cc': 'gcc', 'cflags': '-O0 -g -DNDEBUG', 'ldextra': '-Wl,-z,now'},
    'opt-O1':   {'cc': 'gcc', 'cflags': '-O1 -g -DNDEBUG', 'ldextra': '-Wl,-z,now'},
    'opt-O0-dbg': {'cc': 'gcc', 'cflags': '-O0 -g', 'ldextra': '-Wl,-z,now'},       # assertion-enabled builds (plain `cc src/*.c`, CMake Debug): code under #ifndef NDEBUG and
    'opt-O2-dbg': {'cc': 'gcc', 'cflags': '-O2 -g', 'ldextra': '-Wl,-z,now'},       # the operands of assert() are temporaries of the library too
    'opt-O2':   {'cc': 'gcc', 'cflags': '-O2 -g -DNDEBUG', 'ldextra': '-Wl,-z,now'},
    'opt-cmake': {'cc': 'gcc', 'cflags': '-O2 -g -DNDEBUG', 'ldextra': '-Wl,-z,now', 'cmake': True},     # the residue scan on the library as the project's own build makes it
    'opt-O3':   {'cc': 'gcc', 'cflags': '-O3 -g -DNDEBUG', 'ldextra': '-Wl,-z,now'},
    'opt-Os':   {'cc': 'gcc', 'cflags': '-Os -g -DNDEBUG', 'ldextra': '-Wl,-z,now'},
    'clang-O2': {'cc': 'clang', 'cflags': '-O2 -g -DNDEBUG', 'ldextra': '-Wl,-z,now'},
}

ASSUMPTIONS_COMMON = [
    'verdict covers only the executions produced by this run (runtime monitoring; no proof)',
    'reference model (harness/pv_model.c) is correct; it reproduced golden/vectors.tsv from the independent Python spec at start-up',
    'golden word lists are those of the pinned commit (extracted from source text)',
    'injected NFC/NFKD = libutf8proc 2.x, wrapped to be total and bounded by POLYSEED_STR_SIZE',
    'gcc 12 / x86-64 / glibc; sanitizer runtimes as installed',
]

PROPS = {}

PROPS['C07'] = {
    'level': 'exploration',
    'exhaustive_possible': True,
    'runs': [
        {'name': 'sweep-asan', 'flavour': 'asan', 'driver': 'drv_c07', 'timeout': 1800},
             {'name': 'cp932', 'flavour': 'asan-cp932', 'driver': 'drv_c07', 'env': {'PV_SCALE': '10'}, 'shards': 6, 'timeout': 1800},
        {'name': 'stripe-clang', 'flavour': 'clang-asan', 'driver': 'drv_c07', 'env': {'PV_SCALE': '10'}, 'shards': 6, 'timeout': 1800},
        {'name': 'uchar-bsearch', 'flavour': 'uchar-bsearch', 'driver': 'drv_c07', 'env': {'PV_SCALE': '10'}, 'shards': 6, 'timeout': 1800},
        {'name': 'selftest-dbg', 'flavour': 'asan-dbg', 'driver': 'drv_c07', 'env': {'PV_SCALE': '100'}, 'args': [], 'shards': 4,
         'tiers': ('thorough',)},
    ],
    'require': {'firstuse.children_ok': 60, 'registry.languages_found': 10, 'encode.calls': 300000, 'decode_explicit.calls': 327680, 'lists.abbreviation_decodes': 6 * 2048, 'homogeneous.phrases': 200, 'homogeneous.ok.en.len3': 4},
    'assumptions': ['"published at the pinned release" = golden/*.txt extracted from the pinned commit; not cross-checked against BIP-39 (offline)'],
}

PROPS['C17'] = {
    'level': 'exploration',
    'exhaustive_possible': True,
    'runs': [
        {'name': 'asan', 'flavour': 'asan', 'driver': 'drv_c17'},
        {'name': 'asan-dbg', 'flavour': 'asan-dbg', 'driver': 'drv_c17', 'shards': 4},
    ],
    'require': {'bound.languages': 10, 'witness.encodes': 1000, 'witness.encodes_with_failing_allocator': 200, 'lengths.encoded.ko': 60, 'lengths.encoded.jp': 50, 'lengths.encoded.en': 60, 'lengths': 400},
}

PROPS['C03'] = {
    'level': 'exploration',
    'python_vectors': (4000, 60000),      # fresh vectors from spec/spec.py for every run (seeded by VERIF_SEED)
    'exhaustive_possible': True,
    'runs': [{'name': 'asan', 'flavour': 'asan', 'driver': 'drv_c03'},
             {'name': 'cp932', 'flavour': 'asan-cp932', 'driver': 'drv_c03', 'env': {'PV_SCALE': '15'}, 'shards': 4},
             {'name': 'clang', 'flavour': 'clang-asan', 'driver': 'drv_c03', 'env': {'PV_SCALE': '20'}, 'shards': 6},
             {'name': 'native', 'flavour': 'asan-native', 'driver': 'drv_c03', 'env': {'PV_SCALE': '20'}, 'shards': 4}],
    'require': {'concurrent.phrases_equal_specification': 30000, 'encode.calls': 400000, 'bits.seeds': 13531, 'purity.histories_agree': 1000, 'reserved_bit.decodes': 100, 'oracle.vectors_reproduced': 3000, 'lengths.encoded': 1500, 'pyvec.phrases_equal_to_python_spec': 3000, 'lengths.ko.decile8': 3, 'lengths.ko.decile6': 5, 'lengths.jp.decile2': 5},
}

_C16_FL = ['opt-O0', 'opt-O1', 'opt-O2', 'opt-O3', 'opt-Os', 'clang-O2', 'opt-cmake', 'opt-O0-dbg', 'opt-O2-dbg']
PROPS['C16'] = {
    'level': 'exploration',
    'runs': [{'name': fl, 'flavour': fl, 'driver': 'drv_c16', 'shards': 3} for fl in _C16_FL],
    'require': {'free.blocks_inspected': 500, 'scan.bytes': 100000, 'scan.needles': 100000,
                # positive control: with a memzero that only logs, residue MUST be found, otherwise the scanner is blind
                # (the total, not one minimum per function: a correct refactoring may do away with a temporary in one function, and that must not make the check inconclusive)
                'control.hits.total': 40,
                'control.free_notzero': 6,
                'calls.polyseed_decode.OK': 60, 'calls.polyseed_decode.OVERLONG': 30, 'calls.polyseed_decode_explicit.OVERLONG': 30, 'calls.polyseed_decode.MULT_LANG': 6, 'calls.polyseed_decode.UNSUPPORTED': 60, 'calls.polyseed_decode.MEMORY': 60,
                'calls.polyseed_decode_explicit.LANG': 60, 'calls.polyseed_load.UNSUPPORTED': 6, 'calls.polyseed_create.OK': 6, 'calls.polyseed_crypt.OK': 60,
                'calls.polyseed_encode.OK': 60, 'calls.polyseed_free.OK': 6, 'calls.polyseed_keygen.OK': 6},
    'assumptions': ['register contents and memory owned by the injected dependencies are out of scope', 'observed for gcc 12 -O0/-O1/-O2/-O3/-Os and clang 14 -O2 on x86-64 only'],
}

PROPS['C19'] = {
    'level': 'exploration',
    'runs': [
        {'name': 'schar', 'flavour': 'schar', 'driver': 'drv_c19', 'args': ['--tag', 'signed-char'], 'shards': 8},
        {'name': 'uchar', 'flavour': 'uchar', 'driver': 'drv_c19', 'args': ['--tag', 'unsigned-char'], 'shards': 8},
    ],
    'transcript_pairs': [('schar', 'uchar')],
    'require': {'transcript.cases_compared': 10000, 'allwords.decoded': 40960, 'edges.tokens': 2 * 2 * 2048 * 16, 'forms.ideographic_space': 1000, 'ops.crypt.spanish': 20, 'ops.crypt.hangul': 20, 'boundary.nfkd_length.size-1': 50, 'boundary.nfkd_length.size+2': 50},
    'assumptions': ['char signedness is varied with -fsigned-char / -funsigned-char on x86-64 gcc; other ABI differences of ARM/PowerPC targets are not reproduced'],
}

PROPS['C08'] = {
    'level': 'exploration',
    'exhaustive_possible': True,
    'runs': [{'name': 'asan', 'flavour': 'asan', 'driver': 'drv_c08', 'timeout': 1800},
             {'name': 'uchar', 'flavour': 'uchar', 'driver': 'drv_c08', 'env': {'PV_SCALE': '10'}, 'shards': 6, 'timeout': 1800},
             {'name': 'uchar-bsearch', 'flavour': 'uchar-bsearch', 'driver': 'drv_c08', 'env': {'PV_SCALE': '8'}, 'shards': 6, 'timeout': 1800},
             {'name': 'native', 'flavour': 'asan-native', 'driver': 'drv_c08', 'env': {'PV_SCALE': '10'}, 'shards': 6, 'timeout': 1800},
             # coverage-guided differential: libFuzzer mutates phrases, the target compares both decoders with the reference pipeline
             {'name': 'fuzz-model', 'kind': 'fuzz', 'flavour': 'fuzz', 'driver': 'fuzz_api', 'mode': 4, 'runs_quick': 25000, 'runs_thorough': 1500000}] +
            [{'name': 'fuzz-model-%d' % k, 'kind': 'fuzz', 'flavour': 'fuzz', 'driver': 'fuzz_api', 'mode': 4, 'runs_quick': 25000, 'runs_thorough': 1500000, 'seed_offset': k, 'tiers': ('thorough',)} for k in (1, 2, 3)],
    'require': {'fuzz.execs.fuzz-model': 10000, 'auto.ERR_LANG': 20000, 'auto.OK': 4000, 'auto.preceded_by_a_successful_restore_in_the_same_language': 10000, 'words.swept': 2048 * 3 + 7 * 512, 'tokens.prefix.en.accepted': 2500, 'tokens.prefix.en.rejected': 5000,
                'tokens.accent-terminated-prefix.es.accepted': 100, 'tokens.foreign-letter-inserted.fr.rejected': 1000, 'mixed.permitted.OK': 10000, 'long.tokens.ERR_LANG': 1000, 'tokens.accent-block-edge.es.rejected': 1000},
}

# ---------------------------------------------------------------------------------------------------------------
# texts for MANIFEST.json (tools/gen_manifest.py)
_TB = 'Trusted: gcc 12 + sanitizer runtimes, libutf8proc as NFC/NFKD, the reference model (validated at start-up against vectors from the independent Python spec and the vectors published in tests/tests.c), golden word lists of the pinned commit. '
MANIFEST_TEXT = {
    'C03': {'technique': 'runtime monitoring: encode output vs executable reference model (ASan/UBSan build)',
            'text': 'Every polyseed_encode output and stored check value of the run is compared byte-for-byte with an independent model of the published layout; the zero seed, all 164 loadable single-bit seeds and all their pairs are enumerated completely in every language for three coins (a bit-linear packing is determined by them), plus random/boundary seeds and the same seed reached through four different histories. Held-on-what-was-executed, not a proof. The NFC monitor clobbers its output buffer before reading its input (a conforming normaliser may), seeds are also encoded under a different enabled-feature mask, and a clang-built stripe repeats the workload. Every run also draws fresh vectors from the independent Python statement of the format (spec/spec.py) and compares the library with them directly. A last section encodes from 8 threads at once. A stripe runs on a library built with -fexec-charset=CP932 (a narrow execution character set other than UTF-8).',
            'note': _TB + 'Exhaustive only for the single-bit/pair sub-space.'},
    'C07': {'technique': 'runtime monitoring: exhaustive language x index x position sweep through the API vs golden lists (ASan/UBSan; assertion-enabled build in thorough)',
            'text': 'All 10 x 2048 x 16 (language, index, position) combinations are driven through polyseed_encode (harvesting the words the library emits) and through both decoders, and compared with the frozen lists; pairwise uniqueness clauses are evaluated on the harvested words and through the API. The finite space named by the property is enumerated completely; the claim is limited to the executions produced. A clang-built stripe (1/10 of the sweep) repeats both directions. A first section runs in forked children of a process that has not looked up any word yet: the first decode that touches a language happens while the allocator refuses its 1st/2nd/3rd request, and afterwards all 2048 words of that list and of two others must still decode. A stripe runs on a library built with -fexec-charset=CP932.',
            'note': _TB + '"As published" means equal to golden/*.txt extracted from the pinned commit (BIP-39 cannot be fetched offline). The clause "no word is a prefix of another" is checked operationally (DESIGN.md C07).'},
    'C08': {'technique': 'runtime monitoring: decode_explicit on enumerated token variants vs reference matcher (ASan/UBSan)',
            'text': 'For every word (all of es/fr/en on every run, every language in thorough) every prefix length x accent subset x NFC/NFD form and nine boundary classes are embedded in valid phrases and decoded by the real library; acceptance, status and seed must equal the model matcher. Plus random phrases with an independent variant at each position. Further classes: code points at the edges of the accent block (U+02FF, U+0370..U+0380, ...) and tokens of 250-300 letters that start like a word (no letter counter may wrap). A quarter of the variant phrases also go through polyseed_decode (auto-detection), half of them right after a successful restore in the same language, and are compared with the model\'s auto-detection pipeline. A coverage-guided libFuzzer target (clang, ASan+UBSan) mutates phrases and compares both decoders with the reference pipeline on every input (definite model predictions only). A stripe runs on a library built with -funsigned-char.',
            'note': _TB + 'Tokens with combining marks outside U+0300-U+036F in es/fr are treated as unspecified (not judged).'},
    'C16': {'technique': 'runtime monitoring: dead-stack scan on driver-owned thread stacks + inspection of blocks at the injected free, 6 optimisation levels/compilers, with positive control',
            'text': 'Each API function x exit path x language runs on a pre-patterned stack owned by the driver; afterwards the dead stack is searched for secret/password/mask windows, phrase tokens and word-index runs, and every block reaching the injected free must be zero and covered by a logged injected-memzero call. A log-only memzero control run must find residue, otherwise the check is inconclusive (exit 2). The same needles are searched in the static storage of the program and in the thread-local/descriptor area of the monitored thread after it has exited. A further exit path feeds a valid phrase followed by blanks or short tokens up to and beyond the size of the internal buffer.',
            'note': _TB + 'Registers and memory owned by the dependencies are out of scope; observed for gcc -O0..-O3/-Os and clang -O2 on x86-64.'},
    'C17': {'technique': 'runtime monitoring: exact per-language bound from words harvested through the API + extremal witnesses under ASan (also assertion-enabled build)',
            'text': 'The worst-case phrase length of every language (sum of per-position maxima over the admissible words, in internal/decoder/output form) is computed from the words the library itself emits and compared with POLYSEED_STR_SIZE of the header being compiled; extremal witness seeds (the 543-byte Korean phrase is reached) are encoded into an exact-size buffer under ASan and fed back to both decoders. Every fourth witness is encoded while the allocator refuses its next request. The library\'s own phrase buffer is judged by what the library itself says about it: a string handed to a normaliser from address p must fit the extent the library wipes at p through the injected memzero (an overflow inside a larger stack object is invisible to red-zone tools).',
            'note': _TB + 'The bound is exhaustive over words x positions x languages; witnesses are sampled.'},
    'C19': {'technique': 'runtime monitoring: differential transcripts of -fsigned-char vs -funsigned-char builds (ASan/UBSan) + model comparison',
            'text': 'One deterministic script (all forms of phrases in all languages, every word of every list, non-ASCII passwords, grammar strings) is executed on both builds; per-case transcript digests must be identical and equal the model where it is authoritative. A dedicated section places code points from the edges of the accent block (where sign extension of a char would matter) at the end of and inside Spanish/French tokens. A boundary section feeds non-ASCII strings whose decomposed form is size-7 ... size+8 bytes long (multi-byte characters at the end, so that the dependency cuts inside a character at every offset) as passwords and phrases.',
            'note': _TB + 'Signedness is varied by compiler flag on x86-64; other ABI differences of ARM/PowerPC are not reproduced.'},
}

PROPS['C01'] = {
    'level': 'exploration',
    'runs': [{'name': 'asan', 'flavour': 'asan', 'driver': 'drv_c01'},
             {'name': 'uchar', 'flavour': 'uchar', 'driver': 'drv_c01', 'env': {'PV_SCALE': '10'}, 'shards': 4},
             {'name': 'clang', 'flavour': 'clang-asan', 'driver': 'drv_c01', 'env': {'PV_SCALE': '15'}, 'shards': 6},
             {'name': 'native', 'flavour': 'asan-native', 'driver': 'drv_c01', 'env': {'PV_SCALE': '10'}, 'shards': 4},
             {'name': 'asan-dbg', 'flavour': 'asan-dbg', 'driver': 'drv_c01', 'env': {'PV_SCALE': '10'}, 'shards': 4}],
    'require': {'concurrent.roundtrips_equal_model': 15000, 'auto.ok': 50000, 'auto.mult_lang': 100, 'ambiguous.constructed': 500, 'roundtrip.how.created': 5000, 'roundtrip.how.crypted': 5000, 'original_seed_observed.crypted': 4000, 'roundtrip.created_at_an_out_of_range_clock': 500, 'original_seed_observed.created': 4000, 'axes.cases': 3000, 'second_generation.ok': 100000, 'roundtrip.decodes_with_failing_allocator': 5000},
}
MANIFEST_TEXT['C01'] = {'technique': 'runtime monitoring: encode/decode round trips observed through every seed observer vs reference model (ASan/UBSan, NDEBUG and assertion-enabled builds)',
    'text': 'Seeds (boundary-biased and random; created, loaded or encrypted) are encoded in every language for boundary and random coins under all 8 enabled-feature masks, compared with the model phrase, and decoded by both decoders; the result is compared through store bytes, birthday, all feature masks, encrypted flag and the full PBKDF2 argument list. Auto-detection must return the same seed and language or MULT_LANG exactly when the model matcher finds a second recognising language; ambiguous phrases are constructed for every overlapping language pair. Every coin, birthday and feature value is visited at least once. A clang-built stripe of the same workload guards against compiler-dependent behaviour. Every decoded seed is encoded again (same and another language, same and another coin) and that second-generation phrase must equal the model\'s and decode again. A last section repeats round trips from 8 threads at once (yields inside the dependency callbacks). A sample of the round trips decodes the own phrase with the allocator armed (the only error allowed is MEMORY); a stripe runs on a library built with -funsigned-char.',
    'note': _TB + 'Sampling over 2^150 secrets; no claim beyond the executions produced.'}

PROPS['C02'] = {
    'level': 'exploration',
    'exhaustive_possible': True,
    'runs': [{'name': 'plain', 'flavour': 'plain', 'driver': 'drv_c02', 'timeout': 1800},
             {'name': 'asan', 'flavour': 'asan', 'driver': 'drv_c02', 'env': {'PV_SCALE': '5'}, 'shards': 6},
             {'name': 'native', 'flavour': 'asan-native', 'driver': 'drv_c02', 'env': {'PV_SCALE': '5'}, 'shards': 6}],
    'require': {'ambsub.ERR_MULT_LANG': 500, 'nearwords.detected': 400, 'concurrent.decodes_ok': 50000, 'arith.correct_validates': 30720, 'arith.wrong_rejected': 400000, 'subst.detected': 300000, 'swap.detected': 2000, 'unique.exactly_one': 50, 'load.wrong_check_rejected': 50000, 'decodes.with_failing_allocator': 100000, 'phrases.with_a_respelled_word': 20000},
}
MANIFEST_TEXT['C02'] = {'technique': 'runtime monitoring: exhaustive field-element x position sweep and full substitution/swap neighbourhoods through the decoders vs model check value',
    'text': 'The arithmetic core is driven through polyseed_decode_explicit for every field element at every data position (all 2047 wrong check words per case in thorough, 16 in quick); for random valid phrases of every language all 16x2047 substitutions and all 120 swaps must give exactly ERR_CHECKSUM; for random data words exactly one of the 2048 check words validates and equals the model value; stored seeds with each wrong check value must not load. A quarter of the corrupted phrases are decoded while the allocator refuses its next request (CHECKSUM must still be the answer, and OK must come with a seed), and an eighth of the substituted words are typed in another permitted spelling (redundant accents, 4-6 letter abbreviation). A near-words section substitutes every pair of list words of which one is the beginning of the other, in both directions; a last section decodes valid and corrupted phrases from 8 threads at once.',
    'note': _TB + 'The exhaustive part covers the single-coefficient vectors; general vectors are sampled (linearity of the code is not assumed by the check).'}

PROPS['C05'] = {
    'level': 'exploration',
    'exhaustive_possible': True,
    'runs': [{'name': 'plain', 'flavour': 'plain', 'driver': 'drv_c05', 'timeout': 1800},
             {'name': 'asan', 'flavour': 'asan', 'driver': 'drv_c05', 'env': {'PV_SCALE': '10'}, 'shards': 6},
             {'name': 'native', 'flavour': 'asan-native', 'driver': 'drv_c05', 'env': {'PV_SCALE': '10'}, 'shards': 4}],
    'require': {'concurrent.rows_ok': 50000, 'rows.after_a_second_injection': 50, 'rows.own_coin_ok': 300, 'pairs.rejected_with_checksum': 600000, 'token_diffs.compared': 3000, 'allcoins.own_coin_ok': 20480, 'pairs.failing_allocator_ok': 1500},
}
MANIFEST_TEXT['C05'] = {'technique': 'runtime monitoring: full 2047-coin rows through encode/decode_explicit (+ auto-detect sample) with token-wise phrase diff',
    'text': 'For every language, sampled seeds and 16 coins A (boundary + random) the phrase produced by the library for A is decoded with A (must return the same seed) and with each of the 2047 other coins (must be exactly ERR_CHECKSUM); phrases for different coins must differ in the second token only. Thorough enumerates all 2048x2047 ordered pairs for two English seeds and 256 A-rows for a seed in every other language. A third section uses every coin 0..2047 as own coin once per language (the second word runs through the whole list), and wrong/right coins are also decoded with the allocator armed to fail (CHECKSUM must still win). A third of the rows run after a second injection of the same dependency table, and a last section checks the binding from 8 threads at once.',
    'note': _TB + 'Seeds are sampled; per seed the coin space is enumerated completely.'}

PROPS['C04'] = {
    'level': 'exploration',
    'runs': [{'name': 'asan', 'flavour': 'asan', 'driver': 'drv_c04'}],
    'require': {'keygen.args_equal_model': 30000, 'keygen.key_page_made_inaccessible_on_kdf_return': 1000, 'paths.agree': 8000, 'neighbours.differ': 5000,
                'keygen.path.created': 5000, 'keygen.path.decoded': 5000, 'keygen.keysize.0': 1000, 'keygen.keysize.4096': 1000, 'concurrent.keygens_equal_model': 50000, 'paths.crypt_under_a_different_feature_mask': 5000, 'huge.key_sizes_passed_unaltered': 90, 'paths.created_with_high_argument_bits': 5000, 'paths.crypt_with_failing_allocator': 3000},
}
MANIFEST_TEXT['C04'] = {'technique': 'runtime monitoring: PBKDF2 monitor records all seven arguments of every call; compared with the model; key buffer guarded by ASan red zones / mprotect',
    'text': 'Every polyseed_keygen call of the workload (seeds reached by create, load, decode from every language, double crypt, stored-encrypted-then-decrypted; boundary and random coins; key sizes 0..4096) must invoke the injected KDF exactly once with the exact password, lengths, salt, 10000 iterations and the caller\'s buffer; the buffer must afterwards hold exactly what the monitor wrote, and in a sub-sample the page is made inaccessible when the monitor returns so that any later access by the library faults. An online map asserts one KDF input per abstract (seed, coin) and one abstract key per KDF input. Crypt/keygen also run while a different user-feature mask is enabled, and a fourth section derives keys from 8 threads at once (yields inside the KDF monitor): every call must still see exactly its own inputs. Seeds are created with arbitrary high bits in the feature argument (only the three low bits may reach the seed and the salt).',
    'note': _TB + 'The KDF itself is a deterministic stand-in (real PBKDF2 is not executed); the property concerns its inputs.'}

PROPS['C06'] = {
    'level': 'exploration',
    'exhaustive_possible': True,
    'runs': [{'name': 'asan', 'flavour': 'asan', 'driver': 'drv_c06'},
             {'name': 'native', 'flavour': 'asan-native', 'driver': 'drv_c06', 'env': {'PV_SCALE': '15'}, 'shards': 4},
             # no 32-bit C library exists in this image: the library is built freestanding for i386 and x86-64 and the two programs must print the same transcript
             {'name': 'ilp32', 'kind': 'ilp32', 'flavour': 'ilp32', 'driver': 'ilp32'},
             # coverage-guided buffers (and enabled-feature masks) into polyseed_load, judged by the reference codec on every input
             {'name': 'fuzz-load', 'kind': 'fuzz', 'flavour': 'fuzz', 'driver': 'fuzz_api', 'mode': 5, 'runs_quick': 60000, 'runs_thorough': 4000000}],
    'require': {'buffers.on_a_read_only_page_before_a_guard_page': 20000, 'roundtrip.created_with_out_of_range_clock_ok': 1000, 'concurrent.loads_equal_specification': 50000, 'roundtrip.ok': 50000, 'ilp32.transcript_lines_compared': 5000, 'buffers.alignment_mod8.1': 10000, 'buffers.alignment_mod8.7': 10000, 'fields.16bit_rows': 2000, 'fields.8bit_rows': 30, 'load.bytes8-9.recomputed-check.OK': 1000, 'load.bytes8-9.recomputed-check.ERR_UNSUPPORTED': 1000,
                'load.bytes8-9.recomputed-check.ERR_FORMAT': 1000, 'load.bytes30-31.ERR_CHECKSUM': 1000, 'load.random-with-framing+recomputed-check.OK': 100, 'fuzz.execs.fuzz-load': 20000},
}
MANIFEST_TEXT['C06'] = {'technique': 'runtime monitoring: store/load on exact-size heap buffers vs model image codec; exhaustive field sweeps around valid images (ASan/UBSan) + ledger; libFuzzer target judged by the reference codec',
    'text': 'polyseed_store output is compared with the model image for seeds from load and create; polyseed_load is judged against the model load_spec (first applicable of FORMAT, CHECKSUM, UNSUPPORTED) on exhaustive sweeps of bytes 8-9 (with stale and with recomputed check value), every header byte, byte 28, byte 29 and bytes 30-31 around sampled valid images under rotating feature masks, on multi-bit mutations and on random buffers with and without valid framing; every accepted buffer must be reproduced by store, and the allocator ledger must show no block left after a failed load. A last section loads and stores from 8 threads at once (yields inside the allocator callback). Half of the enabling calls carry arbitrary high argument bits, and seeds created at out-of-range clocks must store the model image and load again.',
    'note': _TB + '2^256 buffers are sampled; the non-secret fields are enumerated completely around each sampled image. Platform independence is observed on x86-64 only.'}

PROPS['C10'] = {
    'level': 'exploration',
    'exhaustive_possible': True,
    'runs': [{'name': 'asan', 'flavour': 'asan', 'driver': 'drv_c10'},
             {'name': 'asan-dbg', 'flavour': 'asan-dbg', 'driver': 'drv_c10', 'env': {'PV_SCALE': '25'}, 'shards': 6},
             {'name': 'native', 'flavour': 'asan-native', 'driver': 'drv_c10', 'env': {'PV_SCALE': '25'}, 'shards': 4}],
    'require': {'concurrent.cells_ok': 10000, 'getters.checked_under_a_changed_mask': 1000, 'default.cells_ok': 32, 'matrix.cells_with_reinjection': 1500, 'history.reinjections': 1000, 'enable.return_ok': 6000, 'cell.load.OK': 1000, 'cell.load.ERR_UNSUPPORTED': 1000, 'cell.decode.ERR_UNSUPPORTED': 1000,
                'cell.decode_explicit.ERR_UNSUPPORTED': 1000, 'cell.create.ERR_UNSUPPORTED': 500, 'cell.create.OK': 500, 'getters.checked': 5000, 'history.creates_ok': 5000, 'cell.create.ERR_UNSUPPORTED(allocator failing)': 500},
}
MANIFEST_TEXT['C10'] = {'technique': 'runtime monitoring: exhaustive argument x feature-value x entry-point matrix through the API vs model (ASan/UBSan)',
    'text': 'Every enabling argument (0..7 and arguments with high bits) x every 5-bit feature value x {create, decode, decode_explicit, load}, directly and after random prior enabling calls, over sampled seeds/languages/coins: status must be UNSUPPORTED exactly when a bit outside the enabled user bits and the encrypted bit is set; enable_features must return popcount(arg&7); getters must return value&q&7; features must survive phrase, storage and crypt round trips; the default mask is observed in fresh processes. Dependencies are re-injected between the enabling call and the use in half of the cells (injection must not touch the mask), and the matrix also runs on the assertion-enabled build. Creation of a seed with a feature that is not enabled is also tried while the allocator refuses its next request: the answer must still be UNSUPPORTED. Queries and storage are re-checked after the enabled mask has changed under a live seed; a threads section has the main thread enable a mask and 8 threads started afterwards run all four entry points on every feature value.',
    'note': _TB + 'The matrix is enumerated completely; seeds, languages and coins inside each cell are sampled.'}

PROPS['C11'] = {
    'level': 'exploration',
    'exhaustive_possible': True,
    'runs': [{'name': 'plain-wrap', 'flavour': 'plain-wrap', 'driver': 'drv_c11', 'timeout': 1800},
             {'name': 'asan-wrap', 'flavour': 'asan-wrap', 'driver': 'drv_c11', 'env': {'PV_SCALE': '10'}, 'shards': 6},
             {'name': 'static-host', 'kind': 'statichost', 'flavour': 'static-host', 'driver': 'static_host'}],
    'require': {'statichost.checks': 150, 'concurrent.birthdays_equal_model': 20000, 'creates.boundary.injected': 4100, 'creates.boundary.libc': 4100, 'creates.special.libc': 20, 'creates.random-in-range.injected': 50000,
                'creates.random-64bit.libc': 10000, 'persist.phrase_ok': 10000, 'persist.crypt_ok': 1024},
    'require_tier': {'thorough': {'creates.sweep.injected': 40000000}},
}
MANIFEST_TEXT['C11'] = {'technique': 'runtime monitoring: scripted clock through the injected entry and through link-time interposed libc time(); integer-arithmetic oracle',
    'text': 'polyseed_create is driven with clock values on both sides of all 1024 month boundaries, the epoch boundary, 0, 2^31/2^32/2^63 neighbours, 2^64-2, 2^64-1 ((time_t)-1), the end of the range and random values, through both clock sources; thorough sweeps the whole 1024-month range every 61 s (4.4x10^7 creates). Each reported birthday must satisfy B <= t < B+step inside the range, be the epoch for broken clocks, never be later than t, be epoch+k*step with k<=1023 and equal the model; one seed per month is carried through all languages, storage and encryption. A last section creates, encodes, stores and encrypts from 8 threads at once with per-thread clocks.',
    'note': _TB + 'Clock values outside the enumerated and sampled ones are not observed.'}

PROPS['C12'] = {
    'level': 'exploration',
    'runs': [{'name': 'asan', 'flavour': 'asan', 'driver': 'drv_c12'},
             {'name': 'uchar', 'flavour': 'uchar', 'driver': 'drv_c12', 'env': {'PV_SCALE': '15'}, 'shards': 4},
             {'name': 'native', 'flavour': 'asan-native', 'driver': 'drv_c12', 'env': {'PV_SCALE': '15'}, 'shards': 4},
             {'name': 'msan', 'flavour': 'msan', 'driver': 'drv_c12', 'env': {'PV_SCALE': '15', 'PV_NO_STATIC_MONITOR': '1'}, 'shards': 4}],
    'require': {'longpw.ok': 800, 'longpw.nfkd_length.size-1': 50, 'default.cases_ok': 100, 'concurrent.applications_equal_model': 20000, 'involution.restored': 20000, 'crypt.under_a_different_feature_mask': 10000, 'cases.all_clauses_held': 20000, 'crypt.mask_source.boundary': 5000, 'crypt.mask_source.random': 5000,
                'equivalent_spellings.agree(forms really differ)': 1500, 'crypt.password.empty': 500, 'crypt.password.hangul': 500, 'crypt.with_failing_allocator': 5000},
}
MANIFEST_TEXT['C12'] = {'technique': 'runtime monitoring: PBKDF2 monitor with scripted masks + model of the password operation, observed through every seed observer and round trips (ASan/UBSan)',
    'text': 'Seeds x a password alphabet (empty, ASCII, accented NFC/NFD, Hangul, kana with dakuten, fullwidth, ligatures, random Unicode, long) x KDF masks (all-00, all-FF, only the two dropped bits, only byte 18, single bits, only ignored bytes, random, or an argument-mixing stand-in) x up to 7 applications: after each application the monitor must have seen exactly (NFKD(password), length, salt, 16, 10000, 32) and the seed must equal the model in store bytes (incl. recomputed check value), getters and KDF inputs, and must survive store/load and encode/decode; the same password twice must restore the seed bit for bit; NFC/NFD spellings must give identical results. A quarter of the applications run while the allocator refuses its next request (the operation cannot report failure, so the result must not change); a MemorySanitizer-built stripe and a section with 8 concurrent threads repeat the workload. The first section runs before any polyseed_enable_features call of the process (the encrypted bit is supported by default); a stripe runs on a library built with -funsigned-char.',
    'note': _TB + 'Passwords whose NFKD form does not fit the public buffer are outside the domain (C14 covers their safety).'}

PROPS['C09'] = {
    'level': 'exploration',
    'runs': [{'name': 'asan', 'flavour': 'asan', 'driver': 'drv_c09', 'timeout': 1800},
             {'name': 'native', 'flavour': 'asan-native', 'driver': 'drv_c09', 'env': {'PV_SCALE': '10'}, 'shards': 4, 'timeout': 1800},
             {'name': 'msan', 'flavour': 'msan', 'driver': 'drv_c09', 'env': {'PV_SCALE': '10', 'PV_NO_STATIC_MONITOR': '1'}, 'shards': 4, 'timeout': 1800},
             # coverage-guided: libFuzzer mutates phrases, the target checks the auto-vs-explicit relation on every input
             {'name': 'fuzz-relation', 'kind': 'fuzz', 'flavour': 'fuzz', 'driver': 'fuzz_api', 'mode': 3, 'runs_quick': 30000, 'runs_thorough': 1500000}] +
            [{'name': 'fuzz-relation-%d' % k, 'kind': 'fuzz', 'flavour': 'fuzz', 'driver': 'fuzz_api', 'mode': 3, 'runs_quick': 30000, 'runs_thorough': 1500000, 'seed_offset': k, 'tiers': ('thorough',)} for k in (1, 2, 3)],
    'require': {'marks.run_of_40': 20, 'marks.run_of_150': 20, 'fuzz.execs.fuzz-relation': 10000, 'concurrent.strings_satisfying_the_relation': 5000, 'outcome.NUM_WORDS': 1000, 'outcome.LANG': 1000, 'outcome.MULT_LANG': 1000, 'outcome.unique.OK': 1000, 'outcome.unique.ERR_CHECKSUM': 1000, 'outcome.unique.ERR_UNSUPPORTED': 1000,
                'armed.auto.ERR_MEMORY': 1000, 'armed.checksum_before_memory': 300, 'ambiguous.constructed': 500,
                'multi3.constructed': 500, 'multi3.phrases_recognised_by_3_languages': 200, 'lang_out_null.ERR_MULT_LANG': 1000, 'lang_out_null.OK': 1000},
}
MANIFEST_TEXT['C09'] = {'technique': 'runtime monitoring: relation between the library\'s two decoders on the same input (1 auto + 10 explicit decodes per string), model token count, armed allocator for precedence (ASan/UBSan)',
    'text': 'For grammar-generated strings (all edit classes, all languages, ambiguous phrases for every overlapping language pair, multi-fault phrases) the automatic decoder is compared with the set of explicit results: NUM_WORDS iff the model token count differs from 16, LANG iff no language recognises all tokens, MULT_LANG iff two or more do (regardless of checksum), else exactly the unique language\'s status, lang_out and seed; with the allocator armed to fail, word-count/language/checksum errors must still win and MEMORY must win over UNSUPPORTED. A dedicated section builds phrases recognised by three to six languages at once (shared 4-letter abbreviations). Every string is also decoded with lang_out = NULL (status and seed must be identical); a MemorySanitizer-built stripe and a section with 8 concurrent threads repeat the relation. A coverage-guided libFuzzer target checks the same relation (and the lang_out = NULL relation) on every mutated input.',
    'note': _TB + 'The relation needs no matcher model; the token count and precedence rules come from the model. Inputs whose NFKD form exceeds the public buffer are checked for the relation only.'}

PROPS['C14'] = {
    'level': 'exploration',
    'runs': [{'name': 'asan', 'flavour': 'asan', 'driver': 'drv_c14', 'timeout': 1800},
             {'name': 'asan-dbg', 'flavour': 'asan-dbg', 'driver': 'drv_c14', 'env': {'PV_SCALE': '25'}, 'shards': 6, 'timeout': 1800},
             {'name': 'native', 'flavour': 'asan-native', 'driver': 'drv_c14', 'env': {'PV_SCALE': '15'}, 'shards': 4, 'timeout': 1800},
             {'name': 'msan', 'flavour': 'msan', 'driver': 'drv_c14', 'env': {'PV_SCALE': '25', 'PV_NO_STATIC_MONITOR': '1', 'PV_SKIP_SECTIONS': 'huge'}, 'shards': 4, 'timeout': 1800},
             {'name': 'memcheck', 'flavour': 'plain', 'driver': 'drv_c14', 'env': {'PV_SCALE': '4'}, 'shards': 12, 'tiers': ('thorough',), 'log_scan': 'memcheck',
              'wrapper': ['valgrind', '--tool=memcheck', '--quiet', '--error-exitcode=0', '--track-origins=no', '--undef-value-errors=yes'], 'timeout_thorough': 7200},
             # the shared object as shipped inside a host program that defines every non-API global of the library (whatever the object files export today)
             {'name': 'shared-hostile-host', 'flavour': 'shared', 'driver': 'drv_c14', 'env': {'PV_SCALE': '3', 'PV_SKIP_SECTIONS': 'huge,smallstack'}, 'shards': 2, 'timeout': 1800},
             {'name': 'fuzz-phrase', 'kind': 'fuzz', 'flavour': 'fuzz', 'driver': 'fuzz_api', 'mode': 0, 'runs_quick': 150000, 'runs_thorough': 5000000},
             {'name': 'fuzz-password', 'kind': 'fuzz', 'flavour': 'fuzz', 'driver': 'fuzz_api', 'mode': 1, 'runs_quick': 100000, 'runs_thorough': 3000000},
             {'name': 'fuzz-buffer', 'kind': 'fuzz', 'flavour': 'fuzz', 'driver': 'fuzz_api', 'mode': 2, 'runs_quick': 200000, 'runs_thorough': 8000000}],
    'require': {'concurrent.calls_well_behaved': 20000, 'inputs.on_readonly_page_before_guard': 10000, 'class.padded-to-buffer-boundary': 5000, 'class.raw-bytes': 1000, 'class.length-edit': 1000,
                'calls.load.ERR_FORMAT': 1000, 'calls.load.ERR_MEMORY': 1000, 'flood.phrases': 3000, 'huge.strings': 3, 'small_stack.threads': 2000, 'flood.nfkd_length.size-1': 100, 'flood.decoded_ok': 500, 'fuzz.execs.fuzz-phrase': 50000, 'fuzz.execs.fuzz-password': 50000, 'fuzz.execs.fuzz-buffer': 50000, 'calls.crypt.len>=4096': 20, 'calls.decode.ERR_MEMORY.len<size-2': 100},
}
MANIFEST_TEXT['C14'] = {'technique': 'runtime monitoring: ASan+UBSan (NDEBUG and assertion-enabled builds) on grammar/boundary/raw inputs with exact-size and read-only-before-guard-page buffers, per-case watchdog, allocator ledger; coverage-guided libFuzzer (clang) on three entry points',
    'text': 'Arbitrary strings (all grammar classes, lengths around POLYSEED_STR_SIZE, 2x, 64 KiB, invalid UTF-8, raw bytes) are fed as phrases to both decoders and as passwords to crypt, and mutated/random buffers to load, on exact-size heap blocks and on a read-only page ending at an inaccessible guard page; any sanitizer report, signal, assertion abort or watchdog expiry is a violation, as is a status outside the documented set, a modified input, a block left allocated by a failed call or a non-canonical seed. libFuzzer explores the same three entry points coverage-guided, seeded with grammar output. A dedicated class inflates valid Spanish/French phrases with redundant combining accents so that the decomposed form has exact lengths from size-7 to size+2. The grammar also places code points next to the combining-mark block and raw lead/continuation bytes inside valid phrases; a MemorySanitizer-built stripe and a section with 8 concurrent threads repeat the workload. A library call that does not return within the per-case watchdog, twice, is reported as hang/<function>.',
    'note': _TB + 'A clean sanitizer run is not memory safety (intra-object and non-adjacent overflows can escape); the watchdog is generous (120 s per case) and a firing is re-confirmed in a fresh process before it counts.'}

_LSAN = 'abort_on_error=1:halt_on_error=1:detect_leaks=1:detect_stack_use_after_return=0:handle_abort=0:handle_segv=0:handle_sigbus=0:handle_sigfpe=0:handle_sigill=0:allocator_may_return_null=1'
PROPS['C15'] = {
    'level': 'fault_enumeration',
    'exhaustive_possible': True,
    'runs': [{'name': 'asan-wrap', 'flavour': 'asan-wrap', 'driver': 'drv_c15', 'env': {'ASAN_OPTIONS': _LSAN}},
             {'name': 'msan-wrap', 'flavour': 'msan-wrap', 'driver': 'drv_c15', 'env': {'PV_SCALE': '50', 'PV_NO_STATIC_MONITOR': '1'}, 'shards': 4},
             # the assertion-enabled build of the library (what a plain `cc src/*.c` or a CMake Debug build gives): an assertion that looks at a block
             # before the library has filled it turns "junk memory" into an abort with the block still owned by the library
             {'name': 'asan-dbg-wrap', 'flavour': 'asan-dbg-wrap', 'driver': 'drv_c15', 'env': {'ASAN_OPTIONS': _LSAN, 'PV_SCALE': '30'}, 'shards': 6}],
    'require': {'libc.refused_allocation_reported_as_MEMORY': 100, 'firstuse.children_ok': 25, 'matrix.cases_ok': 500, 'matrix.cases_with_stale_out_pointer_and_address_reuse': 500, 'matrix.cases_with_8_byte_aligned_blocks': 500, 'faults.injected': 500, 'masks.enumerated': 2000, 'libc.seed_freed_once': 500, 'free_null.silent': 500,
                
                'matrix.cell.decode.CHECKSUM.fault-1(not reached)': 10, 'matrix.cell.decode.MULT_LANG.fault-1(not reached)': 5, },
}
MANIFEST_TEXT['C15'] = {'technique': 'runtime monitoring with fault injection: allocator ledger + programmable allocation failures (k-th request / bit masks), libc path via link-time interposition, ASan + LeakSanitizer',
    'text': 'Fault enumeration: every entry point x outcome class x failing-request index (none, 1st ... one past the observed count) is executed on generated inputs; all 2^n fault masks are applied to sampled sequences of up to 8 constructor calls mixed with free/crypt/encode. After every call the ledger must balance (allocated = freed + held by returned seeds), no foreign/double/NULL free may reach the injected free, a failed request must yield ERR_MEMORY and no seed, an armed but unused failure must not change the result, the next call must behave normally, and seeds built in junk-filled memory must equal the model. With alloc/free NULL the libc calls made inside the library are counted and LeakSanitizer/ASan watch the libc path. Half of the matrix runs with an address-reusing allocator and a stale pointer left in *seed_out, as callers that reuse a variable do. A first section runs in forked children of a process that has made no call yet (the first call of the process meets the failing allocator; afterwards a fault-free call of every entry point must equal the model); a MemorySanitizer-built stripe repeats the matrix.',
    'note': _TB + 'Fault sites are the allocation requests the library makes (one per constructor on this tree); the enumeration adapts if more appear. Inputs per cell are sampled.'}

PROPS['C18'] = {
    'level': 'exploration',
    'runs': [{'name': 'asan-wrap', 'flavour': 'asan-wrap', 'driver': 'drv_c18'},
             {'name': 'asan-dbg-wrap', 'flavour': 'asan-dbg-wrap', 'driver': 'drv_c18', 'env': {'PV_SCALE': '10'}, 'shards': 4},
             {'name': 'uchar-wrap', 'flavour': 'uchar-wrap', 'driver': 'drv_c18', 'env': {'PV_SCALE': '10'}, 'shards': 4},
             # the shared object as shipped, inside a host program that defines (read-only / aborting) symbols with the names of all internal globals of the library
             {'name': 'shared-hostile-host', 'flavour': 'shared', 'driver': 'drv_c03', 'env': {'PV_SCALE': '5'}, 'shards': 2},
             # a statically linked application that never mentions time/malloc/free itself (archive members are pulled only by strong references)
             {'name': 'static-host', 'kind': 'statichost', 'flavour': 'static-host', 'driver': 'static_host'}],
    'require': {'statichost.checks': 150, 'inject.birthday_from_libc_clock': 300, 'rand.creates_ok': 50000, 'rand.single_bit_patterns_ok': 152, 'rand.creates_with_repeated_random_output': 5000, 'rand.creates_with_out_of_range_clock': 3000, 'inject.histories_ok': 1500, 'inject.struct_unmapped_afterwards': 500,
                'inject.libc_fallback_observed.alloc/malloc': 300, 'inject.libc_fallback_observed.free': 300, 'inject.libc_fallback_observed.time': 300,
                'inject.last_table.time0.alloc0.free0': 100, 'inject.last_table.time1.alloc1.free1': 100, 'inject.old_seed_freed_after_reinjection': 50},
}
MANIFEST_TEXT['C18'] = {'technique': 'runtime monitoring: tagged event logs of two distinguishable stub sets + link-time interposed libc counters scoped to library calls (ASan/UBSan; NDEBUG and assertion-enabled builds)',
    'text': 'polyseed_create is run with scripted random outputs (all 152 single-bit patterns, all-00, all-FF, random) and clocks: exactly 19 bytes must be requested, the stored secret must equal them bit for bit (top two bits dropped), the birthday must come from the injected clock, and no interposed libc entropy/time function may be reached. All 8 NULL/non-NULL combinations of the optional entries are injected after histories of 1-4 earlier tables (every ordered pair of combinations as the last two), the caller\'s struct is overwritten or unmapped after polyseed_inject returns, and every API function is called: all events must carry the last table\'s tag, and libc malloc/free/time must be used inside the library exactly when the entry is NULL. A seed created under the previous table is kept alive across the last injection and must be wiped and released through the new table. A quarter of the creation cases draw two or three seeds in a row from identical random output: each creation must still take exactly its own 19 bytes, once. One creation in eight uses a clock value outside the 1024-month range or beyond 2^32 seconds; a stripe runs on a library built with -funsigned-char.',
    'note': _TB + 'Only libc entry points listed in the --wrap set are observed (malloc, free, calloc, realloc, time, clock_gettime, gettimeofday, getrandom, getentropy, rand, random, open, fopen, clock).'}

PROPS['C13'] = {
    'level': 'exploration',
    'exhaustive_possible': True,
    'runs': [{'name': 'asan', 'flavour': 'asan', 'driver': 'drv_c13', 'timeout': 1800},
             {'name': 'uchar', 'flavour': 'uchar', 'driver': 'drv_c13', 'env': {'PV_SCALE': '10'}, 'shards': 4, 'timeout': 1800},
             {'name': 'asan-dbg', 'flavour': 'asan-dbg', 'driver': 'drv_c13', 'env': {'PV_SCALE': '10'}, 'shards': 4, 'timeout': 1800},
             {'name': 'clang', 'flavour': 'clang-asan', 'driver': 'drv_c13', 'env': {'PV_SCALE': '10'}, 'shards': 4, 'timeout': 1800},
             {'name': 'native', 'flavour': 'asan-native', 'driver': 'drv_c13', 'env': {'PV_SCALE': '10'}, 'shards': 4, 'timeout': 1800},
             {'name': 'msan', 'flavour': 'msan', 'driver': 'drv_c13', 'env': {'PV_SCALE': '25', 'PV_NO_STATIC_MONITOR': '1'}, 'shards': 4, 'timeout': 1800},
             {'name': 'O0', 'flavour': 'plain-O0', 'driver': 'drv_c13', 'env': {'PV_SCALE': '8'}, 'shards': 2, 'timeout': 1800},
             {'name': 'lto+locale', 'flavour': 'plain-lto', 'driver': 'drv_c13', 'env': {'PV_SCALE': '8', 'PV_LOCALE': 'C.utf8'}, 'shards': 2, 'timeout': 1800},
             {'name': 'Os', 'flavour': 'plain-Os', 'driver': 'drv_c13', 'env': {'PV_SCALE': '8'}, 'shards': 2, 'timeout': 1800},
             {'name': 'O3-native', 'flavour': 'plain-O3', 'driver': 'drv_c13', 'env': {'PV_SCALE': '8'}, 'shards': 2, 'timeout': 1800},
             {'name': 'cmake', 'flavour': 'cmake', 'driver': 'drv_c13', 'env': {'PV_SCALE': '8'}, 'shards': 2, 'timeout': 1800}],
    'require': {'endurance.crypt.66000_repetitions': 1, 'endurance.decode+free.66000_repetitions': 1, 'endurance.create+free.66000_repetitions': 1, 'walks.matched_model': 3000, 'exhaustive.sequences': 11110, 'ops.create': 10000, 'ops.load': 10000, 'ops.decode': 20000, 'ops.crypt': 10000, 'ops.reinject': 3000,
                'ops.enable': 5000, 'ops.free': 5000, 'observations': 100000, 'static_storage.checks': 100000, 'walks.with_address_reusing_allocator': 1500, 'walks.with_libc_malloc_and_injected_free': 300, 'direct.sequences': 2500, 'direct.same_address_two_seeds': 2000, 'ops.non_constructor_with_failing_allocator': 500, 'max.static_storage.ranges_of_library_objects_monitored': 2},
}
MANIFEST_TEXT['C13'] = {'technique': 'runtime monitoring: lock-step execution of operation sequences against an executable abstract model (history + model), junk-filling allocator, ASan/UBSan (NDEBUG and assertion-enabled builds)',
    'text': 'Random walks of 50-200 operations over up to six live seeds (create with arbitrary arguments, load, both decoders on model phrases / other slots\' phrases / grammar strings / wrong coins, crypt, encode, keygen, getters, free, free(NULL), enable_features, re-injection of a second stub set, armed allocation failures) are executed on the library and on the abstract model; every status, output buffer, getter value, key and dependency tag is compared at once and all other live seeds are re-observed (store image, periodically all observers) after every step. All sequences up to length 4 (quick) / 5 (thorough) over a 10-symbol alphabet are enumerated completely. In addition the static and thread-local storage of the library objects (ranges from the link map) is compared around every call: outside polyseed_inject/polyseed_enable_features nothing may change (no hidden state). Walks alternate between a fresh-address and an address-reusing allocator and arm allocation failures before any kind of call; a clang-built stripe repeats the walks. The static-storage rule tolerates a byte that changes once (one-time initialisation) and reports a byte that changes again; the probe also runs inside a sample of the dependency callbacks, where a scratch buffer would be in use. A MemorySanitizer-built stripe (clang; blocks from the injected allocator poisoned, outputs and dependency arguments probed at the boundaries) repeats the walks. An endurance section repeats one operation 300 / 1100 / 66 000 times in lock-step with the model (beyond any 8- or 16-bit counter); a stripe runs on a library built with -funsigned-char.',
    'note': _TB + 'Walks are sampled; the short-sequence space is complete for the reduced alphabet only. Re-injection varies the stub set; NULL optional entries are covered by C18.'}

PROPS['C20'] = {
    'level': 'exploration',
    'runs': [{'name': 'tsan', 'flavour': 'tsan-wrap', 'driver': 'drv_c20', 'shards': 6, 'log_scan': 'tsan', 'timeout': 1800, 'timeout_thorough': 10800, 'case_timeout': 900},
             {'name': 'tsan-Os', 'flavour': 'tsan-wrap-Os', 'driver': 'drv_c20', 'shards': 6, 'log_scan': 'tsan', 'env': {'PV_SCALE': '50'}, 'timeout': 1800, 'timeout_thorough': 10800, 'case_timeout': 900},
             {'name': 'tsan-O3', 'flavour': 'tsan-wrap-O3', 'driver': 'drv_c20', 'shards': 6, 'log_scan': 'tsan', 'env': {'PV_SCALE': '50'}, 'timeout': 1800, 'timeout_thorough': 10800, 'case_timeout': 900}],
    'require': {'threads.digest_equal_to_solo': 60, 'overlap.total': 200000, 'overlap.crypt+decode': 50, 'overlap.encode+encode': 50, 'overlap.create+free': 50, 'overlap.decode+decode': 50,
                'rounds.8_threads': 4, 'rounds.16_threads': 4, 'rounds.table.all-entries-injected': 2, 'rounds.table.time-NULL(libc-clock)': 2, 'rounds.table.time+alloc+free-NULL(libc)': 2, 'ops.create_with_failing_or_odd_clock': 300, 'ops.decode_with_lang_out_NULL': 3000, 'ops.constructor_with_unsupported_feature': 2000, 'ops.constructor_with_refused_allocation': 1500},
}
MANIFEST_TEXT['C20'] = {'technique': 'runtime monitoring: ThreadSanitizer build (library + harness) under multi-threaded scripted workloads with yields injected at the dependency callbacks; serial-vs-concurrent transcript equality',
    'text': 'After one injection and one feature configuration, 8 and 16 threads execute deterministic scripts of every seed operation on private seeds (all languages), with random sched_yield/spins inside the dependency callbacks (the library\'s own suspension points) and several repetitions with different yield seeds. Any ThreadSanitizer report with a library frame is a violation (deduplicated by entry-point pair); each thread\'s transcript digest must equal that of the same script executed alone. A logical clock (relaxed atomics, so that it adds no synchronisation) measures how many call pairs of different threads really overlapped, per operation pair; a run with too few is inconclusive. Rounds rotate over three dependency tables: all entries injected, libc clock (time NULL), libc clock + malloc + free; libc time() is interposed so that results stay deterministic. Half of the automatic decodes pass lang_out = NULL, and one creation in sixteen sees a failing or odd clock ((time_t)-1, 0, before the epoch, far future). Every status a worker thread observes is compared with the model (the feature mask configured by the main thread holds on every thread).',
    'note': _TB + 'TSan is happens-before based and sees only the executions produced; the harness records nothing under locks while threads run, so that it adds no happens-before edges of its own.'}

# ---------------------------------------------------------------------------------------------------------------
# Configuration stripes: "which code is compiled" is an input of every property (DESIGN.md 2.9, lessons i and v).  Every functional driver
# that does not need the libc interposition flavours also runs a thin stripe of its workload on: a library built with unsigned plain char,
# a clang build, -march=native, MemorySanitizer, a non-UTF-8 execution charset, and the assertion-enabled build.
_AXES = [('fortify', 'fortify', '8'), ('shortenum', 'asan-shortenum', '6'), ('nognu', 'clang-nognu', '6'), ('fs16', 'asan-fs16', '6'), ('uchar', 'uchar', '8'), ('clang', 'clang-asan', '8'), ('native', 'asan-native', '8'), ('msan', 'msan', '8'), ('cp932', 'asan-cp932', '5'), ('asan-dbg', 'asan-dbg', '6'), ('c2x', 'asan-c2x', '5'), ('bsearch', 'asan-bsearch', '6'), ('pthread', 'asan-pthread', '6'), ('cmake', 'cmake', '8'), ('cmake-debug', 'cmake-debug', '5')]
for _p in ('C01', 'C02', 'C03', 'C04', 'C05', 'C06', 'C07', 'C08', 'C09', 'C10', 'C12', 'C14', 'C17'):
    _runs = PROPS[_p]['runs']
    _drv = _runs[0]['driver']
    _have = {r['flavour'] for r in _runs}
    for _name, _fl, _sc in _AXES:
        if _fl in _have:
            continue
        _env = {'PV_SCALE': _sc}
        if _fl == 'msan':
            _env['PV_NO_STATIC_MONITOR'] = '1'
            if _p == 'C14':
                _env['PV_SKIP_SECTIONS'] = 'huge'
        _runs.append({'name': 'cfg-' + _name, 'flavour': _fl, 'driver': _drv, 'env': _env, 'shards': 3, 'timeout': 1800})

# Process phase (harness/pv_premain.c): one small run per check whose property speaks about what create/encode/decode/store/crypt return;
# the first history of the process is executed from a constructor, before main() and before any constructor of the library
for _p in ('C01', 'C03', 'C04', 'C06', 'C07', 'C10', 'C12', 'C13'):
    _runs = PROPS[_p]['runs']
    for _fl in ('asan', 'plain-O3'):
        _runs.append({'name': 'premain-' + _fl, 'flavour': _fl, 'driver': _runs[0]['driver'], 'env': {'PV_PREMAIN': '1', 'PV_SCALE': '1'}, 'shards': 1, 'timeout': 900})
    PROPS[_p].setdefault('require', {})['premain.history_before_main_agrees'] = 2

# minima for the axes added after the ninth and tenth waves
PROPS['C08'].setdefault('require', {}).update({'tokens.many-marks.es.accepted': 500, 'tokens.many-marks.fr.accepted': 500, 'tokens.many-marks.en.rejected': 150})
PROPS['C12'].setdefault('require', {}).update({'longpw.typed_3_times_longer_than_it_normalises': 100, 'longpw.typed_4_times_longer_than_it_normalises': 100})
PROPS['C13'].setdefault('require', {}).update({'hugeop.status_equals_model': 2})
PROPS['C14'].setdefault('require', {}).update({'huge.strings_whose_length_is_a_valid_phrase_modulo_2^32': 1, 'huge.kdf_password_is_a_long_enough_prefix': 3})
PROPS['C16'].setdefault('require', {}).update({'load.format_reason.footer': 8, 'load.format_reason.extra-byte': 8, 'load.format_reason.secret-excess-bits': 8})
for _p in ('C07', 'C08'):
    PROPS[_p].setdefault('require', {}).update({'bsearch.served_by.first-equal': 1000, 'bsearch.served_by.last-equal': 1000, 'bsearch.served_by.random-pivot': 1000})

# what the later waves added, per check (appended to the manifest texts)
_LATE = {
 'C01': ' A small run executes its first history (inject, create, encode and decode in ten languages) from a constructor before main() and judges it after start-up.',
 'C03': ' A small run encodes from a constructor before main().',
 'C04': ' Scalar arguments are passed as expressions with a side effect (a header macro that evaluates one twice hands the library a wrong coin); the KDF monitor clobbers the key buffer before it reads password and salt.',
 'C06': ' A small run stores and queries a seed created from a constructor before main().',
 'C07': ' In two further builds the C library\'s bsearch() is replaced by five conforming strategies in rotation (pivot choice; first or last of several equal elements): every word must still be found at its own index. A small run decodes from a constructor before main().',
 'C08': ' Words and abbreviations carrying 1-200 redundant combining marks (piled, spread, in front, behind) go through both decoders; a phrase whose last word carries thousands of marks plus one stray byte, with a normaliser that answers ill-formed input with an empty string, must be seen empty (the end of a long input reaches the normaliser); bsearch() strategies as in C07.',
 'C09': ' Generator classes for invisible characters around and inside the phrase (BOM, zero-width, NBSP, CR/LF, quotes) and for 239-528 extra empty or one-letter tokens (counts around 2^8 and 2^9).',
 'C10': ' One stripe is built with -pthread; a small run enables features from a constructor before main().',
 'C11': ' libc-clock cases rotate through eight POSIX/tzdata time zones including two leap-second zones; one section keeps the clock in a file-scope variable of the calling translation unit, set right before a by-name polyseed_create and restored after it.',
 'C12': ' The flag is also queried by name before and after every operation in optimised harness code; buffer-filling passwords are typed in fullwidth (3:1) and mathematical-bold (4:1) letters as well; the KDF monitor clobbers the key buffer first.',
 'C13': ' One decode of a string of 2^32 + (length of a valid phrase) bytes sits between ordinary operations; a small run executes its first history from a constructor before main(); stub table B is a positional initialiser in the order of the released header and every table is an exact-size block of eight pointers.',
 'C14': ' Strings of 2^32+k and 2^33+k bytes where k is the length of a valid phrase (one 2 MiB chunk mapped repeatedly); the KDF password of a huge ASCII password must be a long-enough prefix of it; the numeric values of the documented status codes, coins and sizes are compared with the released header.',
 'C16': ' In this scan the normalisers write their result only, or work in place (the tail of a longer input stays behind the terminator), or answer invalid UTF-8 with an empty string; the FORMAT exit of load rotates through its five reasons; phrases are also typed with ideographic spaces in every language.',
 'C17': ' The library\'s own buffer is judged by what it wipes: a string handed to a normaliser from address p must fit the contiguous extent wiped from p. The public size macros are used as numbers in every operator position.',
 'C18': ' Callbacks defined in the driver read plain file-scope variables set right before a by-name polyseed_create (wrong leaf/const/pure attributes in the header make the caller\'s compiler drop those stores); every monitor returns with a rotating errno; tables are exact-size blocks of eight pointers, at the end of a page in a third of the injections.',
 'C19': ' Generator classes for invisible characters and token counts as in C09.',
 'C20': ' The main thread never touches the language registry: every worker finds the languages itself after the start barrier, in a fresh process; TSan builds use -pthread.',
}
for _p, _t in _LATE.items():
    MANIFEST_TEXT[_p]['text'] = MANIFEST_TEXT[_p]['text'].rstrip() + _t
for _p in ('C01', 'C02', 'C03', 'C04', 'C05', 'C06', 'C07', 'C08', 'C09', 'C10', 'C12', 'C13', 'C14', 'C16', 'C17'):
    MANIFEST_TEXT[_p]['text'] += ' One stripe links the static library produced by the project\'s own CMake build (its flags, definitions and source list).'

# fourteenth wave: what was added (appended to the manifest texts), and the minima that go with it
_W14 = {
 'C01': ' The seed that is handed to encode is itself observed through every observer and must equal the abstract value its phrase carries (a seed with stray bits a phrase cannot carry would otherwise come back "different" unnoticed).',
 'C02': ' A sample of every section\'s altered phrases also goes through language auto-detection, half of them with the allocator refusing a request: the status must be the model\'s (a refused request may turn OK/UNSUPPORTED into MEMORY, nothing else).',
 'C03': ' Seeds are obtained by rotating paths (created, loaded, restored from a phrase, encrypted and decrypted, stored encrypted and decrypted after loading).',
 'C05': ' Seeds are obtained by rotating paths (created, loaded, restored from a phrase, encrypted and decrypted, stored encrypted and decrypted after loading).',
 'C11': ' A statically linked host that never mentions time/malloc/free itself (gcc and clang) checks the libc-clock birthday against the kernel clock read by a raw system call.',
 'C13': ' Every observation of a seed also queries the feature getter with bits above the three user bits set in the mask argument.',
 'C15': ' The matrix also runs on the assertion-enabled build of the library (an assertion that inspects a block before it is filled turns junk memory into an abort).',
 'C16': ' Two assertion-enabled builds (-O0, -O2 without NDEBUG) are scanned as well.',
 'C17': ' Witness seeds are obtained by rotating paths (created, loaded, restored from a phrase, encrypted and decrypted).',
 'C18': ' A statically linked host that never mentions time/malloc/free itself (gcc -O2/-Os, clang) runs create/encode/decode/load under NULL optional entries, own entries, and NULL entries again: libc clock (compared with the kernel clock read by a raw system call) and allocator must be reached although nothing else in the program pulls them from the archive.',
 'C06': ' Seeds reached by other paths than load/create (restored from a phrase, encrypted and decrypted again, stored encrypted then loaded and decrypted, encrypted once) must store to the canonical image of their abstract value and load again.',
}
for _p, _t in _W14.items():
    MANIFEST_TEXT[_p]['text'] = MANIFEST_TEXT[_p]['text'].rstrip() + _t
PROPS['C02'].setdefault('require', {}).update({'auto.status_equals_model': 100000, 'auto.with_failing_allocator': 50000})
PROPS['C06'].setdefault('require', {}).update({'roundtrip.path.crypt-twice': 3000, 'roundtrip.path.decoded': 3000, 'roundtrip.path.decrypted-copy': 3000, 'roundtrip.path.encrypted-once': 3000})
PROPS['C03'].setdefault('require', {}).update({'purity.created_at_an_out_of_range_clock': 500})
PROPS['C14'].setdefault('require', {}).update({'small_stack.long_inputs': 100})
_W15 = {
 'C01': ' An eighth of the created seeds are created while the clock is out of range, unset, broken or in milliseconds.',
 'C03': ' The purity section also creates at out-of-range and odd clocks.',
 'C14': ' The small-stack section also feeds strings of 70 KiB to 1.2 MiB (ASCII and non-ASCII heads; tails of words, blanks, combining marks, CR/LF, Hangul) on 96 KiB thread stacks: the stack a call needs must not grow with the length of its input.',
}
for _p, _t in _W15.items():
    MANIFEST_TEXT[_p]['text'] = MANIFEST_TEXT[_p]['text'].rstrip() + _t
